//! Case types shared by the writer-side checks, and the alphabets that enumerate them.
use serde::{Deserialize, Serialize};
use std::collections::BTreeSet;

pub const L: u32 = 16;

#[derive(Clone, Debug, Serialize, Deserialize, PartialEq, Eq, Hash, PartialOrd, Ord)]
pub enum Zoom {
    AutoDefault,
    Auto { initial: u32, max: u32 },
    Manual(Vec<u32>),
}

#[derive(Clone, Copy, Debug, Serialize, Deserialize, PartialEq, Eq, Hash, PartialOrd, Ord)]
pub enum Rt {
    Current,
    Multi(usize),
}

/// How the input reaches the writer.
#[derive(Clone, Copy, Debug, Serialize, Deserialize, PartialEq, Eq, Hash, PartialOrd, Ord, Default)]
pub enum SrcKind {
    /// in-memory iterator (BedParserStreamingIterator::wrap_infallible_iter)
    #[default]
    Iter,
    /// bedGraph / BED text through the serial file source
    SerialText,
    /// a real file, index_chroms and the per-chromosome parallel source
    ParallelFile,
    /// a source of the harness (the merge tool's shape) that starts every chromosome of the case,
    /// also those without a single value, and feeds the values with their look-ahead
    Started,
}

#[derive(Clone, Debug, Serialize, Deserialize, PartialEq, Eq, Hash)]
pub struct Opts {
    pub compress: bool,
    pub ips: u32,
    pub bs: u32,
    pub zoom: Zoom,
    pub inmemory: bool,
    pub rt: Rt,
    pub chan: usize,
    pub two_pass: bool,
    #[serde(default)]
    pub src: SrcKind,
}

impl Opts {
    pub fn base() -> Opts {
        Opts {
            compress: true,
            ips: 1024,
            bs: 256,
            zoom: Zoom::AutoDefault,
            inmemory: true,
            rt: Rt::Current,
            chan: 100,
            two_pass: false,
            src: SrcKind::Iter,
        }
    }
    pub fn manual(&self) -> Option<&Vec<u32>> {
        match &self.zoom {
            Zoom::Manual(v) => Some(v),
            _ => None,
        }
    }
}

/// One bigWig value; the f32 is carried as bits so that -0.0 / subnormals survive JSON.
#[derive(Clone, Copy, Debug, Serialize, Deserialize, PartialEq, Eq, Hash)]
pub struct WItem {
    pub s: u32,
    pub e: u32,
    pub vb: u32,
}
impl WItem {
    pub fn v(&self) -> f32 {
        f32::from_bits(self.vb)
    }
}

#[derive(Clone, Debug, Serialize, Deserialize, PartialEq, Eq, Hash)]
pub struct WChrom {
    pub name: String,
    pub len: u32,
    pub items: Vec<WItem>,
}

#[derive(Clone, Debug, Serialize, Deserialize, PartialEq, Eq, Hash)]
pub struct BItem {
    pub s: u32,
    pub e: u32,
    pub rest: String,
}

#[derive(Clone, Debug, Serialize, Deserialize, PartialEq, Eq, Hash)]
pub struct BChrom {
    pub name: String,
    pub len: u32,
    pub items: Vec<BItem>,
}

#[derive(Clone, Debug, Serialize, Deserialize, PartialEq, Eq, Hash)]
pub struct WigCase {
    pub chroms: Vec<WChrom>,
    /// extra size-map entries that never appear in the data
    pub extra_sizes: Vec<(String, u32)>,
    pub allow_ooo: bool,
    pub opts: Opts,
}

#[derive(Clone, Debug, Serialize, Deserialize, PartialEq, Eq, Hash)]
pub struct BedCase {
    pub chroms: Vec<BChrom>,
    pub extra_sizes: Vec<(String, u32)>,
    pub allow_ooo: bool,
    pub autosql: Option<String>,
    pub opts: Opts,
}

// ---------------------------------------------------------------------------------------------
// value palettes

pub fn palette(p: usize) -> [f32; 4] {
    match p % 5 {
        0 => [1.0, 2.0, 3.0, 4.0],
        1 => [0.5, -2.25, 0.0, -0.0],
        2 => [f32::MAX / 4.0, f32::MIN_POSITIVE, 1e-40, -1e30],
        // content-dependent shortcuts: every value equal to its neighbour; zeros of both signs
        3 => [1.5, 1.5, 1.5, 1.5],
        _ => [0.0, 0.0, -0.0, -0.0],
    }
}

// ---------------------------------------------------------------------------------------------
// bigWig layouts WL(k): <= k items, item i = (gap, len) after the previous end, inside [0, L]

pub fn wig_layouts(k: usize, len: u32) -> Vec<Vec<(u32, u32)>> {
    const GAPS: [u32; 3] = [0, 1, 3];
    const LENS: [u32; 4] = [0, 1, 2, 5];
    let mut out: BTreeSet<(usize, Vec<(u32, u32)>)> = BTreeSet::new();
    fn rec(
        k: usize,
        len: u32,
        cur: &mut Vec<(u32, u32)>,
        end: u32,
        out: &mut BTreeSet<(usize, Vec<(u32, u32)>)>,
    ) {
        if !cur.is_empty() {
            out.insert((cur.len(), cur.clone()));
            // variant: last item stretched / moved so that it ends exactly at the chromosome end
            let mut v = cur.clone();
            let last = v.len() - 1;
            if v[last].1 != len {
                if v[last].0 == v[last].1 {
                    // zero-length item: move it to the end
                    let prev_end = if last == 0 { 0 } else { v[last - 1].1 };
                    if len >= prev_end {
                        v[last] = (len, len);
                    }
                } else {
                    v[last].1 = len;
                }
                out.insert((v.len(), v));
            }
        }
        if cur.len() == k {
            return;
        }
        for g in GAPS {
            for l in LENS {
                let s = end + g;
                let e = s + l;
                if e > len {
                    continue;
                }
                cur.push((s, e));
                rec(k, len, cur, e, out);
                cur.pop();
            }
        }
    }
    rec(k, len, &mut vec![], 0, &mut out);
    out.into_iter().map(|(_, v)| v).collect()
}

pub fn wig_items(layout: &[(u32, u32)], pal: usize, rot: usize) -> Vec<WItem> {
    let p = palette(pal);
    layout
        .iter()
        .enumerate()
        .map(|(i, (s, e))| WItem {
            s: *s,
            e: *e,
            vb: p[(i + rot) % 4].to_bits(),
        })
        .collect()
}

// ---------------------------------------------------------------------------------------------
// bigBed layouts BL(k): entry i = (start_delta from previous start, len)

pub fn bed_layouts(k: usize, len: u32) -> Vec<Vec<(u32, u32)>> {
    const DELTAS: [u32; 3] = [0, 1, 3];
    // u32::MAX stands for "to the chromosome end"
    const LENS: [u32; 5] = [0, 1, 2, 6, u32::MAX];
    let mut out: BTreeSet<(usize, Vec<(u32, u32)>)> = BTreeSet::new();
    fn rec(
        k: usize,
        len: u32,
        cur: &mut Vec<(u32, u32)>,
        start: u32,
        out: &mut BTreeSet<(usize, Vec<(u32, u32)>)>,
    ) {
        if !cur.is_empty() {
            out.insert((cur.len(), cur.clone()));
        }
        if cur.len() == k {
            return;
        }
        for d in DELTAS {
            for l in LENS {
                let s = start + d;
                if s >= len {
                    continue; // bigBed requires start < chromosome length
                }
                let e = if l == u32::MAX { len } else { s + l };
                if e > len {
                    continue;
                }
                cur.push((s, e));
                rec(k, len, cur, s, out);
                cur.pop();
            }
        }
    }
    rec(k, len, &mut vec![], 0, &mut out);
    out.into_iter().map(|(_, v)| v).collect()
}

pub fn rest_palette(p: usize, i: usize) -> String {
    match p % 5 {
        0 => String::new(),
        1 => format!("n{}", i),
        2 => format!("n{}\t5\t+", i),
        3 => format!("\u{e9}{}\t\u{3b2}", i),
        _ => {
            // 20 extra columns on the first entry, one on the others
            if i == 0 {
                (0..20).map(|c| format!("c{}", c)).collect::<Vec<_>>().join("\t")
            } else {
                format!("x{}", i)
            }
        }
    }
}

pub fn bed_items(layout: &[(u32, u32)], pal: usize) -> Vec<BItem> {
    layout
        .iter()
        .enumerate()
        .map(|(i, (s, e))| BItem {
            s: *s,
            e: *e,
            rest: rest_palette(pal, i),
        })
        .collect()
}

/// True when an earlier entry ends after a later one (block span / node span must use a maximum).
pub fn bed_has_inversion(layout: &[(u32, u32)]) -> bool {
    for i in 0..layout.len() {
        for j in i + 1..layout.len() {
            if layout[i].1 > layout[j].1 {
                return true;
            }
        }
    }
    false
}

// ---------------------------------------------------------------------------------------------
// option sets

pub fn zoom_menu() -> Vec<Zoom> {
    vec![
        Zoom::AutoDefault,
        Zoom::Auto { initial: 2, max: 3 },
        Zoom::Manual(vec![2]),
        Zoom::Manual(vec![3]),
        Zoom::Manual(vec![4, 16]),
        Zoom::Manual(vec![]),
    ]
}

/// Covering list: every value of every option, and every pair among
/// {compress, ips, pass, zoom} (built as the full product of those four with the remaining
/// options rotated through their values).
pub fn covering_opts(quick: bool) -> Vec<Opts> {
    let ipss: &[u32] = if quick { &[1, 2, 1024] } else { &[1, 2, 3, 1024] };
    let zooms = zoom_menu();
    let bss = [2u32, 3, 256];
    let rts = [Rt::Current, Rt::Multi(2), Rt::Current, Rt::Multi(4)];
    let chans = [100usize, 0, 1];
    let mut v = vec![];
    let mut n = 0usize;
    for compress in [true, false] {
        for &ips in ipss {
            for two_pass in [false, true] {
                for z in &zooms {
                    v.push(Opts {
                        compress,
                        ips,
                        bs: bss[n % 3],
                        zoom: z.clone(),
                        inmemory: (n / 3) % 2 == 0,
                        rt: rts[n % 4],
                        chan: chans[(n / 2) % 3],
                        two_pass,
                        src: [SrcKind::Iter, SrcKind::SerialText, SrcKind::ParallelFile][(n / 5) % 3],
                    });
                    n += 1;
                }
            }
        }
    }
    v
}

/// A small covering list (every value of every option at least once, all pairs of
/// compress x pass x {ips 1, ips 1024}), used where the layout dimension is large.
pub fn small_opts() -> Vec<Opts> {
    let mut v = vec![];
    let zooms = zoom_menu();
    let bss = [2u32, 3, 256];
    let ipss = [1u32, 2, 3, 1024];
    let rts = [Rt::Current, Rt::Current, Rt::Multi(2), Rt::Current];
    let chans = [100usize, 0, 1];
    let mut n = 0usize;
    for compress in [true, false] {
        for two_pass in [false, true] {
            for i in 0..3 {
                v.push(Opts {
                    compress,
                    ips: ipss[(n + i) % 4],
                    bs: bss[n % 3],
                    zoom: zooms[n % zooms.len()].clone(),
                    inmemory: n % 2 == 0,
                    rt: rts[n % 4],
                    chan: chans[n % 3],
                    two_pass,
                    src: [SrcKind::Iter, SrcKind::SerialText, SrcKind::ParallelFile, SrcKind::Iter][(n / 2) % 4],
                });
                n += 1;
            }
        }
    }
    v
}

/// Full option product (used against the core layouts).
pub fn full_opts(quick: bool) -> Vec<Opts> {
    let ipss: &[u32] = if quick { &[1, 2, 1024] } else { &[1, 2, 3, 1024] };
    let bss: &[u32] = if quick { &[2, 256] } else { &[2, 3, 256] };
    let rts: &[Rt] = if quick {
        &[Rt::Current, Rt::Multi(2)]
    } else {
        &[Rt::Current, Rt::Multi(2), Rt::Multi(4)]
    };
    let chans: &[usize] = if quick { &[0, 100] } else { &[0, 1, 100] };
    let inmems: &[bool] = if quick { &[true] } else { &[true, false] };
    let mut v = vec![];
    for compress in [true, false] {
        for &ips in ipss {
            for &bs in bss {
                for z in zoom_menu() {
                    for &inmemory in inmems {
                        for &rt in rts {
                            for &chan in chans {
                                for two_pass in [false, true] {
                                    let src = [SrcKind::Iter, SrcKind::ParallelFile, SrcKind::SerialText][v.len() % 3];
                                    v.push(Opts {
                                        compress,
                                        ips,
                                        bs,
                                        zoom: z.clone(),
                                        inmemory,
                                        rt,
                                        chan,
                                        two_pass,
                                        src,
                                    });
                                }
                            }
                        }
                    }
                }
            }
        }
    }
    v
}

/// Chromosome-name sets: (names in input order, allow_out_of_order, extra size-map entries)
pub fn chrom_sets() -> Vec<(Vec<&'static str>, bool, Vec<(String, u32)>)> {
    vec![
        (vec!["c"], false, vec![]),
        (vec!["chr1", "chr10", "chr2"], false, vec![("chrUnused".to_string(), 99)]),
        (vec!["b", "a"], true, vec![("zz".to_string(), 7)]),
    ]
}

/// Core bigWig layouts: chosen so that every option matters (several items, gaps, zero-length,
/// touching both chromosome ends).
pub fn core_wig_layouts() -> Vec<Vec<(u32, u32)>> {
    vec![
        vec![(0, 5)],
        vec![(0, 1), (1, 2), (2, 3), (3, 4)],
        vec![(0, 2), (3, 5), (9, 16)],
        vec![(1, 6), (6, 6), (7, 8), (12, 16)],
        vec![(0, 16)],
        vec![(2, 3), (3, 8), (11, 11), (11, 13), (15, 16)],
        vec![(0, 1), (4, 5), (8, 9), (12, 13), (15, 16)],
        vec![(5, 10), (10, 15)],
    ]
}

pub fn core_bed_layouts() -> Vec<Vec<(u32, u32)>> {
    vec![
        vec![(0, 5)],
        vec![(0, 16), (1, 2), (3, 4)],
        vec![(0, 2), (0, 2), (1, 7), (4, 5)],
        vec![(1, 6), (1, 1), (3, 16), (3, 5), (9, 10)],
        vec![(2, 3), (5, 8), (11, 13), (15, 16)],
        vec![(0, 6), (1, 5), (2, 4), (3, 3)],
        vec![(0, 1), (1, 2), (2, 3), (3, 4), (4, 5)],
        vec![(4, 16), (5, 6), (5, 16), (8, 9), (12, 13)],
    ]
}
