//! C11 layer 1: deviation-bounded schedule exploration of the real writer pipeline.
//!
//! The write runs on a current-thread tokio runtime, so the only interleavings are task switches
//! at awaits.  The cfg(bigtools_verif) hook points in /repo call the controller installed here at
//! every task start and hand-off; the controller answers "proceed" (default) or "yield to the
//! executor" (one deviation) per dynamic occurrence.  All executions with 0, 1, ..., bound
//! deviations are run (each execution is deterministic, so the k-th occurrence of a run with a
//! given deviation prefix is well defined) and the destination bytes are compared with the
//! 0-deviation run.
use crate::drive::*;
use crate::model::*;
use crate::sup::*;
use bigtools::bed::bedparser::{parse_bed, parse_bedgraph};
use bigtools::bed::indexer::index_chroms;
use bigtools::beddata::{BedParserParallelStreamingIterator, BedParserStreamingIterator};
use bigtools::utils::verif_hooks::{set_controller, Controller};
use bigtools::{BigBedWrite, BigWigWrite};
use serde::{Deserialize, Serialize};
use serde_json::json;
use std::collections::HashSet;
use std::io::Write;
use std::sync::{Arc, Mutex};

#[derive(Clone, Copy, Debug, Serialize, Deserialize, PartialEq, Eq)]
pub enum Source {
    SerialIter,
    SerialFile,
    ParallelFile,
}

#[derive(Clone, Debug, Serialize, Deserialize)]
pub struct C11Case {
    pub bed: bool,
    pub nchrom: usize,
    pub items: u32,
    pub ips: u32,
    pub source: Source,
    pub two_pass: bool,
    pub chan: usize,
    pub inmemory: bool,
    pub bound: usize,
    /// Layer 3 (supplementary sampling on real runtimes) instead of exploration: worker threads
    #[serde(default)]
    pub sweep_threads: Option<usize>,
    /// Explore the multi-threaded text converter (write_bg / write_bed) reading a file with this
    /// content instead of the writer; `chan` is then the converter's thread count (the capacity
    /// of its handle channel)
    #[serde(default)]
    pub conv: bool,
    /// bigBed only: the first entry of the last chromosome carries a rest column of this many
    /// bytes (longer than any buffer between the producer and the staging file)
    #[serde(default)]
    pub long_rest: usize,
    /// Layer 3b: the built bedgraphtobigwig / bedtobigbed binaries on this input with every
    /// thread count x --parallel x --inmemory (two_pass selects --single-pass off): the output
    /// files must be byte-identical
    #[serde(default)]
    pub cli: bool,
    /// write uncompressed sections (C14's schedule x fault histories with > 8 KiB per chromosome)
    #[serde(default)]
    pub uncompressed: bool,
    /// bigWig converter scenarios: the first value of every chromosome is NaN / inf / -inf by
    /// rotation (legal stored values; every formatting path must print them alike)
    #[serde(default)]
    pub nonfinite: bool,
}

struct Ctl {
    /// occurrence indices at which the task yields
    yields: Vec<usize>,
    state: Mutex<(usize, Vec<(&'static str, u64)>)>,
}

impl Controller for Ctl {
    fn at(&self, id: &'static str, ctx: u64) -> bool {
        let mut g = self.state.lock().unwrap();
        let k = g.0;
        g.0 += 1;
        g.1.push((id, ctx));
        self.yields.contains(&k)
    }
}

fn names(n: usize) -> Vec<String> {
    (0..n).map(|i| format!("s{}", i + 1)).collect()
}

fn input_text(c: &C11Case) -> String {
    let mut t = String::new();
    for (ci, n) in names(c.nchrom).iter().enumerate() {
        if c.nchrom >= 6 && !c.bed && ci == 1 {
            // 2 bases of 2^52: this chromosome's sum is 2^53, so the f64 total summary depends on
            // the order in which per-chromosome sums are added (1.0 is absorbed by 2^53)
            t.push_str(&format!("{}\t0\t2\t4503599627370496\n", n));
            if c.sweep_threads.is_some() {
                // a long chromosome: on real runtimes it finishes after the ones queued behind it
                // (9 000 lines: more than 64 KiB of text, followed by small chromosomes)
                for i in 0..9000u32 {
                    t.push_str(&format!("{}\t{}\t{}\t0\n", n, 8192 + 2 * i, 8193 + 2 * i));
                }
            }
            continue;
        }
        if c.nchrom >= 6 && c.sweep_threads.is_some() && ci == 4 {
            // a second long chromosome in the middle (both file types): small ones queue behind it
            for i in 0..9000u32 {
                if c.bed {
                    t.push_str(&format!("{}\t{}\t{}\tlong{}\n", n, 2 * i, 2 * i + 3, i));
                } else {
                    t.push_str(&format!("{}\t{}\t{}\t{}\n", n, 2 * i, 2 * i + 1, (i % 5) as f32 * 0.5));
                }
            }
            continue;
        }
        if c.nchrom >= 6 && !c.bed {
            for i in 0..c.items.min(3) {
                t.push_str(&format!("{}\t{}\t{}\t1\n", n, 2 * i, 2 * i + 1));
            }
            continue;
        }
        for i in 0..c.items {
            let s = 3 * i + ci as u32;
            if c.bed && c.long_rest > 0 && ci + 1 == c.nchrom && i == 0 {
                t.push_str(&format!("{}\t{}\t{}\t{}\n", n, s, s + 4, "L".repeat(c.long_rest)));
            } else if c.bed {
                t.push_str(&format!("{}\t{}\t{}\te{}_{}\n", n, s, s + 4, ci, i));
            } else if c.nonfinite && i == 0 {
                t.push_str(&format!("{}\t{}\t{}\t{}\n", n, s, s + 2, ["NaN", "inf", "-inf"][ci % 3]));
            } else {
                t.push_str(&format!("{}\t{}\t{}\t{}\n", n, s, s + 2, (ci * 10 + i as usize) as f32 + 0.5));
            }
        }
    }
    t
}

fn options(c: &C11Case) -> bigtools::BBIWriteOptions {
    let mut o = bigtools::BBIWriteOptions::default();
    o.items_per_slot = c.ips;
    o.block_size = 2;
    o.channel_size = c.chan;
    o.inmemory = c.inmemory;
    o.compress = !c.uncompressed;
    o.manual_zoom_sizes = Some(vec![2]);
    o
}

/// One execution of the real writer under the given yield set.  Returns (result, bytes, trace).
fn execute(c: &C11Case, path: &std::path::Path, yields: &[usize], rt: Rt) -> (Result<(), String>, Vec<u8>, Vec<(&'static str, u64)>) {
    execute_into(c, path, yields, rt, Sink::new())
}

/// The same into a given destination (C14 drives fault-injecting and recording sinks under every
/// explored schedule).
pub fn execute_into(c: &C11Case, path: &std::path::Path, yields: &[usize], rt: Rt, sink: Sink) -> (Result<(), String>, Vec<u8>, Vec<(&'static str, u64)>) {
    let ctl = Arc::new(Ctl { yields: yields.to_vec(), state: Mutex::new((0, vec![])) });
    set_controller(Some(ctl.clone()));
    let sizes: std::collections::HashMap<String, u32> = names(c.nchrom).into_iter().map(|n| (n, (3 * c.items + 20).max(40000))).collect();
    let runtime = make_runtime(rt);
    let text = input_text(c);
    let res = guarded(|| -> Result<(), String> {
        macro_rules! go {
            ($w:expr, $mk:expr) => {{
                if c.two_pass {
                    $w.write_multipass(|| Ok($mk), runtime).map_err(|e| format!("{}", e))
                } else {
                    $w.write($mk, runtime).map_err(|e| format!("{}", e))
                }
            }};
        }
        if c.bed {
            let mut w = BigBedWrite::new(sink.clone(), sizes.clone());
            w.options = options(c);
            match c.source {
                Source::SerialIter => {
                    let vals: Vec<(String, bigtools::BedEntry)> = text
                        .lines()
                        .map(|l| {
                            let (ch, e) = parse_bed(l).unwrap().unwrap();
                            (ch.to_string(), e)
                        })
                        .collect();
                    go!(w, BedParserStreamingIterator::wrap_infallible_iter(vals.clone().into_iter(), false))
                }
                Source::SerialFile => go!(w, BedParserStreamingIterator::from_bed_file(std::fs::File::open(path).unwrap(), false)),
                Source::ParallelFile => {
                    let idx = index_chroms(std::fs::File::open(path).unwrap()).map_err(|e| format!("{}", e))?.ok_or("not grouped")?;
                    go!(w, BedParserParallelStreamingIterator::new(idx.clone(), false, path.to_path_buf(), parse_bed))
                }
            }
        } else {
            let mut w = BigWigWrite::new(sink.clone(), sizes.clone());
            w.options = options(c);
            match c.source {
                Source::SerialIter => {
                    let vals: Vec<(String, bigtools::Value)> = text
                        .lines()
                        .map(|l| {
                            let (ch, e) = parse_bedgraph(l).unwrap().unwrap();
                            (ch.to_string(), e)
                        })
                        .collect();
                    go!(w, BedParserStreamingIterator::wrap_infallible_iter(vals.clone().into_iter(), false))
                }
                Source::SerialFile => go!(w, BedParserStreamingIterator::from_bedgraph_file(std::fs::File::open(path).unwrap(), false)),
                Source::ParallelFile => {
                    let idx = index_chroms(std::fs::File::open(path).unwrap()).map_err(|e| format!("{}", e))?.ok_or("not grouped")?;
                    go!(w, BedParserParallelStreamingIterator::new(idx.clone(), false, path.to_path_buf(), parse_bedgraph))
                }
            }
        }
    });
    set_controller(None);
    let trace = ctl.state.lock().unwrap().1.clone();
    let res = match res {
        Ok(r) => r,
        Err(p) => Err(format!("panic: {}", p)),
    };
    (res, sink.bytes(), trace)
}

type Trace = Vec<(&'static str, u64)>;
type Exec = (Result<(), String>, Vec<u8>, Trace);

/// All executions with at most `bound` deviations (depth-first over deviation vectors); every
/// execution's bytes must equal the default schedule's (`first`), and `expected` when given.
fn explore(bound: usize, tags: &[String], expected: Option<&[u8]>, exec: &mut dyn FnMut(&[usize]) -> Exec, first: Exec, out: &mut Outcome) {
    let (_, b0, t0) = first;
    out.count("scenarios", 1);
    out.count("hook_occurrences_baseline", t0.len() as u64);
    if let Some(x) = expected {
        if x != &b0[..] {
            out.fail(
                "converter_text_differs_from_single_threaded",
                tags,
                format!(
                    "default schedule gives {} bytes, the single-threaded path {} bytes; first difference at byte {}",
                    b0.len(),
                    x.len(),
                    b0.iter().zip(x.iter()).position(|(a, b)| a != b).unwrap_or(b0.len().min(x.len()))
                ),
            );
            return;
        }
    }
    // determinism of the harness: the same decisions give the same trace and bytes
    let (_, b0b, t0b) = exec(&[]);
    if t0b != t0 || b0b != b0 {
        out.fail("harness_panic", &[], "replaying the all-default schedule gave a different trace or different bytes: a source of nondeterminism is not under the explorer's control".into());
        return;
    }
    let mut traces: HashSet<u64> = HashSet::new();
    let mut prefixes: HashSet<u64> = HashSet::new();
    let note_trace = |t: &Trace, traces: &mut HashSet<u64>, prefixes: &mut HashSet<u64>| {
        let mut h: u64 = 0xcbf29ce484222325;
        for (id, ctx) in t {
            for b in id.as_bytes() {
                h = (h ^ *b as u64).wrapping_mul(0x100000001b3);
            }
            h = (h ^ *ctx).wrapping_mul(0x100000001b3);
            prefixes.insert(h);
        }
        traces.insert(h);
    };
    note_trace(&t0, &mut traces, &mut prefixes);
    let mut runs = 1u64;
    let mut transitions = t0.len() as u64;
    let mut differing = 0u64;
    // depth-first over deviation vectors
    let mut stack: Vec<(Vec<usize>, usize)> = vec![(vec![], t0.len())];
    while let Some((devs, len)) = stack.pop() {
        if devs.len() >= bound {
            continue;
        }
        let from = devs.last().map(|x| x + 1).unwrap_or(0);
        for i in from..len {
            let mut d = devs.clone();
            d.push(i);
            let (r, b, t) = exec(&d);
            runs += 1;
            transitions += t.len() as u64;
            note_trace(&t, &mut traces, &mut prefixes);
            if t != t0 {
                differing += 1;
            }
            // every 50th schedule is replayed: identical observations required
            if runs % 50 == 0 {
                let (_, b2, t2) = exec(&d);
                if t2 != t || b2 != b {
                    out.fail("harness_panic", &[], format!("schedule {:?} is not reproducible", d));
                    return;
                }
                out.count("schedules_replayed_twice", 1);
            }
            match r {
                Err(e) => {
                    out.fail("write_fails_under_some_schedule", tags, format!("deviation vector {:?} (yield at hook occurrences; e.g. {:?}): {}", d, d.iter().map(|k| t.get(*k)).collect::<Vec<_>>(), e));
                    if out.fails.len() > 3 {
                        return;
                    }
                }
                Ok(()) => {
                    if b != b0 {
                        out.fail(
                            "bytes_depend_on_schedule",
                            tags,
                            format!("deviation vector {:?} (yield at {:?}) gives {} bytes that differ from the default schedule's {} bytes", d, d.iter().map(|k| t.get(*k)).collect::<Vec<_>>(), b.len(), b0.len()),
                        );
                        if out.fails.len() > 3 {
                            return;
                        }
                    }
                }
            }
            stack.push((d, t.len()));
        }
    }
    out.count("executions", runs);
    out.count("hook_events", transitions);
    out.count("distinct_traces", traces.len() as u64);
    out.count("distinct_trace_prefixes", prefixes.len() as u64);
    out.count("executions_with_a_different_trace", differing);
    if traces.len() >= 2 {
        out.count("scenarios_with_2+_traces", 1);
    }
    out.outcome_hash = Some(fnv(&b0) ^ traces.len() as u64);
}

/// One execution of the real multi-threaded converter on `bbi` under the given yield set, its
/// tasks driven by a current-thread runtime.
fn execute_conv(c: &C11Case, bbi: &std::path::Path, yields: &[usize]) -> Exec {
    use bigtools::utils::cli::bigbedtobed::write_bed;
    use bigtools::utils::cli::bigwigtobedgraph::write_bg;
    let ctl = Arc::new(Ctl { yields: yields.to_vec(), state: Mutex::new((0, vec![])) });
    bigtools::utils::verif_hooks::set_current_thread_converters(true);
    set_controller(Some(ctl.clone()));
    let outf = tempfile::NamedTempFile::new().expect("tempfile");
    let res = guarded(|| -> Result<(), String> {
        let file = outf.reopen().map_err(|e| format!("{}", e))?;
        if c.bed {
            let rd = bigtools::BigBedRead::open_file(bbi).map_err(|e| format!("{}", e))?;
            write_bed(rd, file, c.inmemory, c.chan.max(1)).map_err(|e| format!("{}", e))
        } else {
            let rd = bigtools::BigWigRead::open_file(bbi).map_err(|e| format!("{}", e))?;
            write_bg(rd, file, c.inmemory, c.chan.max(1)).map_err(|e| format!("{}", e))
        }
    });
    set_controller(None);
    bigtools::utils::verif_hooks::set_current_thread_converters(false);
    let trace = ctl.state.lock().unwrap().1.clone();
    let res = match res {
        Ok(r) => r,
        Err(p) => Err(format!("panic: {}", p)),
    };
    (res, std::fs::read(outf.path()).unwrap_or_default(), trace)
}

fn run_conv(c: &C11Case, out: &mut Outcome) {
    use bigtools::utils::cli::bigbedtobed::write_bed_singlethreaded;
    use bigtools::utils::cli::bigwigtobedgraph::write_bg_singlethreaded;
    let mut tags = c11_tags(c);
    tags.push("converter".into());
    let mut tf = tempfile::NamedTempFile::new().expect("tempfile");
    tf.write_all(input_text(c).as_bytes()).unwrap();
    tf.flush().unwrap();
    // the file to convert: written by the real writer (default schedule, no controller)
    let mut wc = c.clone();
    wc.source = Source::SerialIter;
    wc.chan = 100;
    wc.inmemory = true;
    let (r, bytes, _) = execute(&wc, tf.path(), &[], Rt::Current);
    if let Err(e) = r {
        out.fail("baseline_write_failed", &tags, e);
        return;
    }
    let mut bf = tempfile::NamedTempFile::new().expect("tempfile");
    bf.write_all(&bytes).unwrap();
    bf.flush().unwrap();
    // the single-threaded path's text, which is also the input text
    let sf = tempfile::NamedTempFile::new().expect("tempfile");
    let single = guarded(|| -> Result<(), String> {
        let file = sf.reopen().map_err(|e| format!("{}", e))?;
        if c.bed {
            let rd = bigtools::BigBedRead::open_file(bf.path()).map_err(|e| format!("{}", e))?;
            write_bed_singlethreaded(rd, file, None, None, None, None).map_err(|e| format!("{}", e))
        } else {
            let rd = bigtools::BigWigRead::open_file(bf.path()).map_err(|e| format!("{}", e))?;
            write_bg_singlethreaded(rd, file, None, None, None).map_err(|e| format!("{}", e))
        }
    });
    match single {
        Ok(Ok(())) => {}
        other => {
            out.fail("single_threaded_converter_failed", &tags, format!("{:?}", other));
            return;
        }
    }
    let single_text = std::fs::read(sf.path()).unwrap_or_default();
    if single_text != input_text(c).as_bytes() {
        out.fail(
            "single_threaded_converter_text_differs_from_input",
            &tags,
            format!("{} bytes vs input {} bytes", single_text.len(), input_text(c).len()),
        );
        return;
    }
    let first = execute_conv(c, bf.path(), &[]);
    if let Err(e) = &first.0 {
        out.fail("write_fails_under_some_schedule", &tags, format!("default schedule: {}", e));
        return;
    }
    out.count("converter_scenarios", 1);
    let path = bf.path().to_path_buf();
    explore(c.bound, &tags, Some(&single_text), &mut |y| execute_conv(c, &path, y), first, out);
}

/// Layer 3b: forward conversion with the built binaries under every thread count, --parallel
/// mode and buffering; all output files byte-identical (sampling over OS schedules).
fn run_cli_sweep(c: &C11Case, out: &mut Outcome) {
    use crate::clifam::{run_in, workdir};
    let mut tags = c11_tags(c);
    tags.push("cli".into());
    let wd = workdir();
    let dir = wd.path();
    std::fs::write(dir.join("in.txt"), input_text(c)).unwrap();
    let sizes: String = names(c.nchrom).into_iter().map(|n| format!("{}\t{}\n", n, (3 * c.items + 20).max(40000))).collect();
    std::fs::write(dir.join("sizes"), sizes).unwrap();
    let mut first: Option<(Vec<String>, Vec<u8>)> = None;
    for threads in [1usize, 2, 3, 6, 16] {
        for parallel in ["no", "yes", "auto"] {
            for inmemory in [false, true] {
                let name = format!("out_{}_{}_{}.bb", threads, parallel, inmemory);
                let mut argv: Vec<String> = vec![if c.bed { "bedtobigbed".into() } else { "bedgraphtobigwig".into() }, "in.txt".into(), "sizes".into(), name.clone(), "-t".into(), threads.to_string(), "-p".into(), parallel.into()];
                if !c.two_pass {
                    argv.push("--single-pass".into());
                }
                if inmemory {
                    argv.push("--inmemory".into());
                }
                let r = run_in(dir, &argv);
                out.count("cli_sweep_runs", 1);
                if r.stderr.starts_with("HARNESS") {
                    out.fail("harness_panic", &[], r.stderr);
                    return;
                }
                if r.timed_out || r.code != Some(0) {
                    out.fail("write_failed_under_some_configuration", &tags, format!("{:?}: exit {:?} stderr {}", argv, r.code, r.stderr.chars().take(300).collect::<String>()));
                    continue;
                }
                let bytes = std::fs::read(dir.join(&name)).unwrap_or_default();
                let _ = std::fs::remove_file(dir.join(&name));
                match &first {
                    None => first = Some((argv, bytes)),
                    Some((a0, b0)) => {
                        if *b0 != bytes {
                            out.fail("bytes_depend_on_configuration", &tags, format!("{:?} wrote {} bytes that differ from the {} bytes of {:?}", argv, bytes.len(), b0.len(), a0));
                        }
                    }
                }
            }
        }
    }
    if let Some((_, b)) = &first {
        out.outcome_hash = Some(fnv(b));
    }
}

pub struct C11;

fn c11_tags(c: &C11Case) -> Vec<String> {
    vec![
        if c.bed { "bigbed".into() } else { "bigwig".into() },
        format!("{:?}", c.source).to_lowercase(),
        if c.two_pass { "two_pass".into() } else { "single_pass".into() },
    ]
}

impl Check for C11 {
    type Case = C11Case;
    fn id(&self) -> &'static str {
        "C11"
    }
    fn cases(&self, tier: Tier) -> Box<dyn Iterator<Item = C11Case> + '_> {
        let quick = tier == Tier::Quick;
        let mut v = vec![];
        // layer 1: exploration scenarios
        for bed in [false, true] {
            for source in [Source::SerialIter, Source::SerialFile, Source::ParallelFile] {
                for two_pass in [false, true] {
                    let combos: Vec<(usize, u32, usize, bool)> = if quick {
                        // (chromosomes, items_per_slot, channel, inmemory)
                        vec![(2, 2, 100, true), (3, 1, 0, true)]
                    } else {
                        vec![(2, 2, 100, true), (3, 1, 0, true), (3, 2, 1, false), (2, 1, 100, false), (3, 2, 0, true)]
                    };
                    for (nchrom, ips, chan, inmemory) in combos {
                        if quick && source == Source::SerialFile && (nchrom == 3) {
                            continue;
                        }
                        v.push(C11Case { bed, nchrom, items: 3, ips, source, two_pass, chan, inmemory, bound: 2, sweep_threads: None, conv: false, long_rest: 0, cli: false, uncompressed: false, nonfinite: false });
                    }
                    if source == Source::ParallelFile {
                        // more chromosomes than the parallel source queues at once (4 + 1)
                        v.push(C11Case { bed, nchrom: 6, items: 2, ips: 1, source, two_pass, chan: 100, inmemory: true, bound: 2, sweep_threads: None, conv: false, long_rest: 0, cli: false, uncompressed: false, nonfinite: false });
                    }
                    if !quick {
                        // bound 3 on the smallest scenario of each kind
                        v.push(C11Case { bed, nchrom: 2, items: 2, ips: 1, source, two_pass, chan: 0, inmemory: true, bound: 3, sweep_threads: None, conv: false, long_rest: 0, cli: false, uncompressed: false, nonfinite: false });
                        // ... and on two scenarios with several sections per chromosome: default channel with
                        // staging in memory, channel capacity 1 with temporary files
                        v.push(C11Case { bed, nchrom: 2, items: 3, ips: 2, source, two_pass, chan: 100, inmemory: true, bound: 3, sweep_threads: None, conv: false, long_rest: 0, cli: false, uncompressed: false, nonfinite: false });
                        v.push(C11Case { bed, nchrom: 2, items: 3, ips: 1, source, two_pass, chan: 1, inmemory: false, bound: 3, sweep_threads: None, conv: false, long_rest: 0, cli: false, uncompressed: false, nonfinite: false });
                    }
                }
            }
        }
        // layer 1b: the multi-threaded text converters (chan = their thread count)
        for bed in [false, true] {
            let combos: Vec<(usize, u32, usize, bool, usize)> = if quick {
                // (chromosomes, values per chromosome, threads, inmemory, bound)
                vec![(2, 2, 1, true, 2), (3, 2, 2, false, 2), (4, 1, 6, true, 2)]
            } else {
                vec![(2, 2, 1, true, 3), (3, 2, 2, false, 3), (4, 1, 6, true, 3), (3, 3, 1, false, 2), (4, 2, 3, true, 2), (4, 2, 16, false, 2)]
            };
            for (nchrom, items, threads, inmemory, bound) in combos {
                v.push(C11Case { bed, nchrom, items, ips: 2, source: Source::SerialIter, two_pass: false, chan: threads, inmemory, bound, sweep_threads: None, conv: true, long_rest: 0, cli: false, uncompressed: false, nonfinite: false });
            }
        }
        // non-finite values through every formatting path of the bigWig converter
        for (threads, inmemory) in [(2usize, true), (6, false)] {
            v.push(C11Case { bed: false, nchrom: 3, items: 2, ips: 2, source: Source::SerialIter, two_pass: false, chan: threads, inmemory, bound: 1, sweep_threads: None, conv: true, long_rest: 0, cli: false, uncompressed: false, nonfinite: true });
        }
        // a line longer than every buffer on the way (70 KB), staged in memory and in a file
        for inmemory in [true, false] {
            v.push(C11Case { bed: true, nchrom: 2, items: 2, ips: 2, source: Source::SerialIter, two_pass: false, chan: 2, inmemory, bound: 1, sweep_threads: None, conv: true, long_rest: 70_000, cli: false, uncompressed: false, nonfinite: false });
        }
        // layer 3b: the same sweep through the built converter binaries
        for bed in [false, true] {
            for two_pass in [false, true] {
                v.push(C11Case { bed, nchrom: 8, items: 40, ips: 4, source: Source::SerialFile, two_pass, chan: 100, inmemory: false, bound: 0, sweep_threads: Some(0), conv: false, long_rest: 0, cli: true, uncompressed: false, nonfinite: false });
            }
        }
        // layer 3: configuration sweep on real runtimes (sampling over OS schedules)
        let threads: Vec<usize> = if quick { vec![1, 2, 4, 8, 16] } else { (1..=16).collect() };
        for bed in [false, true] {
            for source in [Source::SerialIter, Source::ParallelFile] {
                for two_pass in [false, true] {
                    for &t in &threads {
                        for (chan, inmemory) in [(0usize, false), (1, true), (100, false)] {
                            if quick && (t + chan) % 2 == 1 {
                                continue;
                            }
                            v.push(C11Case { bed, nchrom: 8, items: 40, ips: 4, source, two_pass, chan, inmemory, bound: 0, sweep_threads: Some(t), conv: false, long_rest: 0, cli: false, uncompressed: false, nonfinite: false });
                        }
                    }
                }
            }
        }
        Box::new(v.into_iter())
    }
    fn run(&self, c: &C11Case, out: &mut Outcome) {
        out.nontrivial = true;
        if c.conv {
            run_conv(c, out);
            return;
        }
        if c.cli {
            run_cli_sweep(c, out);
            return;
        }
        let tags = c11_tags(c);
        let mut tf = tempfile::NamedTempFile::new().expect("tempfile");
        tf.write_all(input_text(c).as_bytes()).unwrap();
        tf.flush().unwrap();
        let path = tf.path().to_path_buf();

        // reference: 0 deviations on the current-thread runtime
        let (r0, b0, t0) = execute(c, &path, &[], Rt::Current);
        if let Err(e) = &r0 {
            out.fail("baseline_write_failed", &tags, e.clone());
            return;
        }
        // serial and per-chromosome-parallel parsing give the same bytes: compare with the
        // iterator source's default schedule
        if c.source != Source::SerialIter {
            let mut canon = c.clone();
            canon.source = Source::SerialIter;
            let (rc, bc, _) = execute(&canon, &path, &[], Rt::Current);
            out.count("cross_source_comparisons", 1);
            if rc.is_ok() && bc != b0 {
                out.fail("bytes_depend_on_source", &tags, format!("{:?} source gives {} bytes that differ from the iterator source's {} bytes", c.source, b0.len(), bc.len()));
            }
        }
        if let Some(threads) = c.sweep_threads {
            // supplementary sampling: real runtimes, repeated; bytes must equal the reference
            out.count("sweep_configurations", 1);
            let reps = 3;
            for rep in 0..reps {
                for rt in [Rt::Current, Rt::Multi(threads)] {
                    let (r, b, _) = execute(c, &path, &[], rt);
                    out.count("sweep_runs", 1);
                    match r {
                        Err(e) => out.fail("write_failed_under_some_configuration", &tags, format!("{:?} rep {}: {}", rt, rep, e)),
                        Ok(()) => {
                            if b != b0 {
                                out.fail("bytes_depend_on_configuration", &tags, format!("{:?} rep {}: {} bytes differ from the reference ({} bytes)", rt, rep, b.len(), b0.len()));
                            }
                        }
                    }
                }
            }
            // bytes must not depend on channel size / buffering / thread count: compare with the
            // canonical configuration of the same input
            let mut canon = c.clone();
            canon.chan = 100;
            canon.inmemory = true;
            let (rc, bc, _) = execute(&canon, &path, &[], Rt::Current);
            if rc.is_ok() && bc != b0 {
                out.fail("bytes_depend_on_configuration", &tags, "channel size / buffering mode changes the output bytes".into());
            }
            out.outcome_hash = Some(fnv(&b0));
            return;
        }
        explore(c.bound, &tags, None, &mut |y| execute(c, &path, y, Rt::Current), (r0, b0, t0), out);
    }
    fn space(&self, tier: Tier) -> serde_json::Value {
        let q = tier == Tier::Quick;
        json!({
            "layer1_scenarios": "bigWig/bigBed x {serial iterator, serial file, parallel file} x {single, two-pass} x (chromosomes, items_per_slot, channel size, buffering) combinations",
            "deviation_bound": if q { "2 (all executions with 0, 1, 2 yields)" } else { "2 on all scenarios, 3 on three small scenarios of each kind" },
            "hook_points": "task starts and hand-offs in bbiwrite.rs, bigwigwrite.rs, bigbedwrite.rs, beddata.rs (cfg bigtools_verif)",
            "layer3b_cli_sweep": "bedgraphtobigwig / bedtobigbed binaries x threads {1,2,3,6,16} x --parallel {no,yes,auto} x --inmemory x pass mode on an 8-chromosome input: output files byte-identical (sampling over OS schedules; supplementary)",
            "layer3_sweep": "threads x {current, multi} x channel {0,1,100} x buffering x {serial, parallel} x pass, 3 repetitions each (sampling over OS schedules; supplementary)",
        })
    }
    fn case_cap_s(&self) -> u64 {
        600
    }
}
