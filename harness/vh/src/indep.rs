//! Independent BBI decoder/validator.  Shares no code with bigtools: plain byte slicing and
//! miniz_oxide (a zlib implementation unrelated to libdeflate, which bigtools uses).
//! Written from the published format description (Kent et al. 2010, supplementary tables).
use miniz_oxide::inflate::decompress_to_vec_zlib_with_limit;

pub const BIGWIG_MAGIC: u32 = 0x888F_FC26;
pub const BIGBED_MAGIC: u32 = 0x8789_F2EB;
pub const CIR_MAGIC: u32 = 0x2468_ACE0;
pub const CHROM_MAGIC: u32 = 0x78CA_8C91;

#[derive(Clone, Copy, Debug, PartialEq, Eq)]
pub enum Kind {
    Wig,
    Bed,
}

#[derive(Clone, Debug, PartialEq)]
pub struct RawSummary {
    pub bases: u64,
    pub min: f64,
    pub max: f64,
    pub sum: f64,
    pub sumsq: f64,
}

#[derive(Clone, Debug)]
pub struct Leaf {
    pub sc: u32,
    pub sb: u32,
    pub ec: u32,
    pub eb: u32,
    pub off: u64,
    pub size: u64,
}

#[derive(Clone, Debug, Default)]
pub struct Index {
    pub offset: u64,
    pub block_size: u32,
    pub item_count: u64,
    pub sc: u32,
    pub sb: u32,
    pub ec: u32,
    pub eb: u32,
    pub end_file_offset: u64,
    pub items_per_slot: u32,
    /// leaves in depth-first (= file) order
    pub leaves: Vec<Leaf>,
    pub levels: usize,
    pub nodes: usize,
    pub max_node_count: usize,
    pub partial_nodes: usize,
}

#[derive(Clone, Debug)]
pub struct WigSection {
    pub chrom: u32,
    pub start: u32,
    pub end: u32,
    pub typ: u8,
    pub items: Vec<(u32, u32, f32)>,
}

#[derive(Clone, Debug, PartialEq)]
pub struct ZRec {
    pub chrom: u32,
    pub start: u32,
    pub end: u32,
    pub valid: u32,
    pub min: f32,
    pub max: f32,
    pub sum: f32,
    pub sumsq: f32,
}

#[derive(Clone, Debug)]
pub struct ZoomLevel {
    pub reduction: u32,
    pub data_offset: u64,
    pub index: Index,
    pub blocks: Vec<Vec<ZRec>>,
}

#[derive(Clone, Debug)]
pub struct Decoded {
    pub kind: Kind,
    pub le: bool,
    pub version: u16,
    pub field_count: u16,
    pub defined_field_count: u16,
    pub autosql: Option<String>,
    pub uncompress_buf: u32,
    pub summary: Option<RawSummary>,
    pub data_count: u64,
    pub full_data_offset: u64,
    pub full_index_offset: u64,
    pub chrom_tree_offset: u64,
    pub chrom_key_size: u32,
    pub chrom_tree_block_size: u32,
    pub chrom_item_count: u64,
    /// keys of some chromosome-tree node are not in ascending byte order
    pub chrom_keys_unsorted: bool,
    /// (name, id, size) in leaf order
    pub chroms: Vec<(String, u32, u32)>,
    pub main: Index,
    pub wig_sections: Vec<WigSection>,
    pub bed_blocks: Vec<Vec<(u32, u32, u32, String)>>,
    pub zooms: Vec<ZoomLevel>,
    pub max_block_uncompressed: usize,
    pub any_compressed: bool,
    pub problems: Vec<String>,
}

struct Rd<'a> {
    b: &'a [u8],
    le: bool,
}

type R<T> = Result<T, String>;

impl<'a> Rd<'a> {
    fn sl(&self, off: u64, n: usize) -> R<&'a [u8]> {
        let o = off as usize;
        if off > self.b.len() as u64 || o + n > self.b.len() {
            return Err(format!(
                "read of {} bytes at {} beyond file end {}",
                n,
                off,
                self.b.len()
            ));
        }
        Ok(&self.b[o..o + n])
    }
    fn u8(&self, off: u64) -> R<u8> {
        Ok(self.sl(off, 1)?[0])
    }
    fn u16(&self, off: u64) -> R<u16> {
        let s: [u8; 2] = self.sl(off, 2)?.try_into().unwrap();
        Ok(if self.le {
            u16::from_le_bytes(s)
        } else {
            u16::from_be_bytes(s)
        })
    }
    fn u32(&self, off: u64) -> R<u32> {
        let s: [u8; 4] = self.sl(off, 4)?.try_into().unwrap();
        Ok(if self.le {
            u32::from_le_bytes(s)
        } else {
            u32::from_be_bytes(s)
        })
    }
    fn u64(&self, off: u64) -> R<u64> {
        let s: [u8; 8] = self.sl(off, 8)?.try_into().unwrap();
        Ok(if self.le {
            u64::from_le_bytes(s)
        } else {
            u64::from_be_bytes(s)
        })
    }
    fn f32(&self, off: u64) -> R<f32> {
        Ok(f32::from_bits(self.u32(off)?))
    }
    fn f64(&self, off: u64) -> R<f64> {
        Ok(f64::from_bits(self.u64(off)?))
    }
}

fn cmp_pos(c1: u32, b1: u32, c2: u32, b2: u32) -> std::cmp::Ordering {
    (c1, b1).cmp(&(c2, b2))
}

fn read_index(rd: &Rd, off: u64, what: &str, problems: &mut Vec<String>) -> R<Index> {
    let magic = rd.u32(off)?;
    if magic != CIR_MAGIC {
        return Err(format!("{}: bad R-tree magic {:#x} at {}", what, magic, off));
    }
    let mut ix = Index {
        offset: off,
        block_size: rd.u32(off + 4)?,
        item_count: rd.u64(off + 8)?,
        sc: rd.u32(off + 16)?,
        sb: rd.u32(off + 20)?,
        ec: rd.u32(off + 24)?,
        eb: rd.u32(off + 28)?,
        end_file_offset: rd.u64(off + 32)?,
        items_per_slot: rd.u32(off + 40)?,
        ..Default::default()
    };
    if ix.block_size < 2 {
        problems.push(format!("{}: R-tree block size {} < 2", what, ix.block_size));
    }
    let mut visited: std::collections::HashSet<u64> = std::collections::HashSet::new();
    // depth-first, children in order; returns depth of the subtree
    fn walk(
        rd: &Rd,
        node: u64,
        span: Option<(u32, u32, u32, u32)>,
        ix: &mut Index,
        visited: &mut std::collections::HashSet<u64>,
        what: &str,
        problems: &mut Vec<String>,
        depth: usize,
    ) -> R<usize> {
        if depth > 16 {
            return Err(format!("{}: R-tree deeper than 16 levels (cycle?)", what));
        }
        if !visited.insert(node) {
            problems.push(format!("{}: node at {} reachable more than once", what, node));
            return Ok(0);
        }
        let is_leaf = rd.u8(node)?;
        let count = rd.u16(node + 2)? as usize;
        if is_leaf > 1 {
            return Err(format!("{}: node at {} has isLeaf={}", what, node, is_leaf));
        }
        ix.nodes += 1;
        ix.max_node_count = ix.max_node_count.max(count);
        // an index over zero items can only be a header plus an empty root leaf
        if count == 0 && !(depth == 0 && ix.item_count == 0 && is_leaf == 1) {
            problems.push(format!("{}: empty node at {}", what, node));
        }
        if count as u32 > ix.block_size {
            problems.push(format!(
                "{}: node at {} has {} children > block size {}",
                what, node, count, ix.block_size
            ));
        }
        if (count as u32) < ix.block_size {
            ix.partial_nodes += 1;
        }
        let mut child_depth: Option<usize> = None;
        let mut prev: Option<(u32, u32)> = None;
        for i in 0..count {
            let (item, sc, sb, ec, eb);
            if is_leaf == 1 {
                item = node + 4 + 32 * i as u64;
            } else {
                item = node + 4 + 24 * i as u64;
            }
            sc = rd.u32(item)?;
            sb = rd.u32(item + 4)?;
            ec = rd.u32(item + 8)?;
            eb = rd.u32(item + 12)?;
            if cmp_pos(sc, sb, ec, eb) == std::cmp::Ordering::Greater {
                problems.push(format!(
                    "{}: child {} of node {} has start ({},{}) after end ({},{})",
                    what, i, node, sc, sb, ec, eb
                ));
            }
            if let Some((psc, psb, pec, peb)) = span {
                if cmp_pos(sc, sb, psc, psb) == std::cmp::Ordering::Less
                    || cmp_pos(ec, eb, pec, peb) == std::cmp::Ordering::Greater
                {
                    problems.push(format!(
                        "{}: child span ({},{})-({},{}) of node {} not inside parent span ({},{})-({},{})",
                        what, sc, sb, ec, eb, node, psc, psb, pec, peb
                    ));
                }
            }
            if let Some((pc, pb)) = prev {
                if cmp_pos(sc, sb, pc, pb) == std::cmp::Ordering::Less {
                    problems.push(format!(
                        "{}: children of node {} not sorted by start",
                        what, node
                    ));
                }
            }
            prev = Some((sc, sb));
            if is_leaf == 1 {
                ix.leaves.push(Leaf {
                    sc,
                    sb,
                    ec,
                    eb,
                    off: rd.u64(item + 16)?,
                    size: rd.u64(item + 24)?,
                });
            } else {
                let child = rd.u64(item + 16)?;
                let d = walk(
                    rd,
                    child,
                    Some((sc, sb, ec, eb)),
                    ix,
                    visited,
                    what,
                    problems,
                    depth + 1,
                )?;
                match child_depth {
                    None => child_depth = Some(d),
                    Some(x) if x != d => {
                        problems.push(format!("{}: unbalanced R-tree under node {}", what, node))
                    }
                    _ => {}
                }
            }
        }
        Ok(1 + child_depth.unwrap_or(0))
    }
    let root = off + 48;
    let root_span = (ix.sc, ix.sb, ix.ec, ix.eb);
    // An index over zero items is a header plus an empty leaf; tolerate a root beyond EOF only
    // when item_count == 0.
    if ix.item_count == 0 && rd.sl(root, 4).is_err() {
        return Ok(ix);
    }
    let levels = walk(
        rd,
        root,
        Some(root_span),
        &mut ix,
        &mut visited,
        what,
        problems,
        0,
    )?;
    ix.levels = levels;
    if ix.item_count != ix.leaves.len() as u64 {
        problems.push(format!(
            "{}: R-tree header itemCount {} != number of leaf items {}",
            what,
            ix.item_count,
            ix.leaves.len()
        ));
    }
    Ok(ix)
}

fn read_chrom_node(
    rd: &Rd,
    node: u64,
    key_size: u32,
    out: &mut Vec<(String, u32, u32)>,
    problems: &mut Vec<String>,
    unsorted: &mut bool,
    depth: usize,
    block_size: u32,
) -> R<()> {
    if depth > 16 {
        return Err("chromosome tree deeper than 16 levels".into());
    }
    let is_leaf = rd.u8(node)?;
    let count = rd.u16(node + 2)? as u64;
    if count > block_size as u64 {
        problems.push(format!("chromosome tree node holds {} items, more than the tree's blockSize {}", count, block_size));
    }
    let stride = key_size as u64 + 8;
    let mut prev_key: Option<Vec<u8>> = None;
    for i in 0..count {
        let item = node + 4 + stride * i;
        let key = rd.sl(item, key_size as usize)?;
        if let Some(p) = &prev_key {
            if p.as_slice() > key {
                *unsorted = true;
            }
        }
        prev_key = Some(key.to_vec());
        if is_leaf == 1 {
            let end = key.iter().position(|b| *b == 0).unwrap_or(key.len());
            if key[end..].iter().any(|b| *b != 0) {
                problems.push("chromosome key has bytes after NUL padding".into());
            }
            let name = String::from_utf8(key[..end].to_vec())
                .map_err(|_| "chromosome name not UTF-8".to_string())?;
            out.push((name, rd.u32(item + key_size as u64)?, rd.u32(item + key_size as u64 + 4)?));
        } else if is_leaf == 0 {
            let child = rd.u64(item + key_size as u64)?;
            read_chrom_node(rd, child, key_size, out, problems, unsorted, depth + 1, block_size)?;
        } else {
            return Err(format!("chromosome tree node at {} has isLeaf={}", node, is_leaf));
        }
    }
    Ok(())
}

/// Inflate (or pass through) one block, enforcing the advertised buffer size.
fn block_bytes(rd: &Rd, off: u64, size: u64, ubs: u32, d: &mut Decoded) -> R<Vec<u8>> {
    let raw = rd.sl(off, size as usize)?;
    if ubs > 0 {
        d.any_compressed = true;
        match decompress_to_vec_zlib_with_limit(raw, ubs as usize) {
            Ok(v) => {
                d.max_block_uncompressed = d.max_block_uncompressed.max(v.len());
                Ok(v)
            }
            Err(e) => Err(format!(
                "block at {} (+{}) is not a zlib stream inflating to <= uncompressBufSize {}: {:?}",
                off, size, ubs, e.status
            )),
        }
    } else {
        d.max_block_uncompressed = d.max_block_uncompressed.max(raw.len());
        Ok(raw.to_vec())
    }
}

pub fn decode(bytes: &[u8]) -> Result<Decoded, String> {
    if bytes.len() < 64 {
        return Err(format!("file of {} bytes is shorter than a header", bytes.len()));
    }
    let m_le = u32::from_le_bytes(bytes[0..4].try_into().unwrap());
    let m_be = u32::from_be_bytes(bytes[0..4].try_into().unwrap());
    let (kind, le) = if m_le == BIGWIG_MAGIC {
        (Kind::Wig, true)
    } else if m_be == BIGWIG_MAGIC {
        (Kind::Wig, false)
    } else if m_le == BIGBED_MAGIC {
        (Kind::Bed, true)
    } else if m_be == BIGBED_MAGIC {
        (Kind::Bed, false)
    } else {
        return Err(format!("unknown magic {:#x}", m_le));
    };
    let rd = Rd { b: bytes, le };
    let mut problems = vec![];
    let n = bytes.len() as u64;
    let version = rd.u16(4)?;
    let zoom_levels = rd.u16(6)?;
    let chrom_tree_offset = rd.u64(8)?;
    let full_data_offset = rd.u64(16)?;
    let full_index_offset = rd.u64(24)?;
    let field_count = rd.u16(32)?;
    let defined_field_count = rd.u16(34)?;
    let auto_sql_offset = rd.u64(36)?;
    let total_summary_offset = rd.u64(44)?;
    let uncompress_buf = rd.u32(52)?;

    // trailing magic
    let tail = rd.u32(n - 4)?;
    let want = if kind == Kind::Wig {
        BIGWIG_MAGIC
    } else {
        BIGBED_MAGIC
    };
    if tail != want {
        problems.push(format!("trailing magic {:#x} != {:#x}", tail, want));
    }
    for (name, off) in [
        ("chromosomeTreeOffset", chrom_tree_offset),
        ("fullDataOffset", full_data_offset),
        ("fullIndexOffset", full_index_offset),
    ] {
        if off < 64 + 24 * zoom_levels as u64 || off >= n {
            problems.push(format!("{} {} outside the file body", name, off));
        }
    }
    if !(full_data_offset < full_index_offset) {
        problems.push(format!(
            "fullDataOffset {} not before fullIndexOffset {}",
            full_data_offset, full_index_offset
        ));
    }
    if kind == Kind::Wig {
        if field_count != 0 || defined_field_count != 0 || auto_sql_offset != 0 {
            problems.push("bigWig with non-zero fieldCount/definedFieldCount/autoSqlOffset".into());
        }
    }
    let autosql = if auto_sql_offset != 0 {
        let start = auto_sql_offset as usize;
        if start >= bytes.len() {
            problems.push("autoSqlOffset beyond file".into());
            None
        } else {
            let end = bytes[start..]
                .iter()
                .position(|b| *b == 0)
                .map(|p| start + p)
                .ok_or("autoSql not NUL terminated")?;
            Some(String::from_utf8(bytes[start..end].to_vec()).map_err(|_| "autoSql not UTF-8")?)
        }
    } else {
        None
    };
    let summary = if total_summary_offset != 0 {
        let o = total_summary_offset;
        if o + 40 > full_data_offset && o < full_data_offset {
            problems.push("total summary overlaps the data section".into());
        }
        Some(RawSummary {
            bases: rd.u64(o)?,
            min: rd.f64(o + 8)?,
            max: rd.f64(o + 16)?,
            sum: rd.f64(o + 24)?,
            sumsq: rd.f64(o + 32)?,
        })
    } else {
        None
    };
    let data_count = rd.u64(full_data_offset)?;

    // chromosome tree
    let cm = rd.u32(chrom_tree_offset)?;
    if cm != CHROM_MAGIC {
        return Err(format!("bad chromosome tree magic {:#x}", cm));
    }
    let chrom_tree_block_size = rd.u32(chrom_tree_offset + 4)?;
    let chrom_key_size = rd.u32(chrom_tree_offset + 8)?;
    let val_size = rd.u32(chrom_tree_offset + 12)?;
    let chrom_item_count = rd.u64(chrom_tree_offset + 16)?;
    if val_size != 8 {
        problems.push(format!("chromosome tree valSize {} != 8", val_size));
    }
    let mut chroms = vec![];
    let mut chrom_keys_unsorted = false;
    read_chrom_node(
        &rd,
        chrom_tree_offset + 32,
        chrom_key_size,
        &mut chroms,
        &mut problems,
        &mut chrom_keys_unsorted,
        0,
        chrom_tree_block_size,
    )?;
    if chroms.len() as u64 != chrom_item_count {
        problems.push(format!(
            "chromosome tree itemCount {} != {} leaf items",
            chrom_item_count,
            chroms.len()
        ));
    }
    let longest = chroms.iter().map(|c| c.0.len()).max().unwrap_or(0);
    if longest != chrom_key_size as usize && !chroms.is_empty() {
        problems.push(format!(
            "chromosome tree keySize {} != longest name {}",
            chrom_key_size, longest
        ));
    }
    {
        let mut ids: Vec<u32> = chroms.iter().map(|c| c.1).collect();
        ids.sort();
        for (i, id) in ids.iter().enumerate() {
            if *id != i as u32 {
                problems.push(format!("chromosome ids not dense 0..n: {:?}", ids));
                break;
            }
        }
        let mut names: Vec<&String> = chroms.iter().map(|c| &c.0).collect();
        names.sort();
        names.dedup();
        if names.len() != chroms.len() {
            problems.push("duplicate chromosome names".into());
        }
    }

    let mut d = Decoded {
        kind,
        le,
        version,
        field_count,
        defined_field_count,
        autosql,
        uncompress_buf,
        summary,
        data_count,
        full_data_offset,
        full_index_offset,
        chrom_tree_offset,
        chrom_key_size,
        chrom_tree_block_size,
        chrom_item_count,
        chrom_keys_unsorted,
        chroms,
        main: Index::default(),
        wig_sections: vec![],
        bed_blocks: vec![],
        zooms: vec![],
        max_block_uncompressed: 0,
        any_compressed: false,
        problems: vec![],
    };

    // main index + data blocks
    let main = read_index(&rd, full_index_offset, "main index", &mut problems)?;
    let nchrom = d.chroms.len() as u32;
    let mut expect_off = full_data_offset + 8;
    for (li, leaf) in main.leaves.iter().enumerate() {
        if leaf.off < full_data_offset + 8 || leaf.off + leaf.size > full_index_offset {
            problems.push(format!(
                "data block {} at {}+{} outside [fullDataOffset+8, fullIndexOffset)",
                li, leaf.off, leaf.size
            ));
        }
        if leaf.off != expect_off {
            problems.push(format!(
                "data block {} at {} not contiguous (expected {})",
                li, leaf.off, expect_off
            ));
        }
        expect_off = leaf.off + leaf.size;
        if leaf.sc != leaf.ec {
            problems.push(format!("data block {} spans chromosomes {}..{}", li, leaf.sc, leaf.ec));
        }
        if leaf.sc >= nchrom {
            problems.push(format!("data block {} names chromosome id {} >= {}", li, leaf.sc, nchrom));
        }
        let data = block_bytes(&rd, leaf.off, leaf.size, uncompress_buf, &mut d)?;
        let brd = Rd { b: &data, le };
        match kind {
            Kind::Wig => {
                if data.len() < 24 {
                    return Err(format!("bigWig section {} shorter than its header", li));
                }
                let chrom = brd.u32(0)?;
                let start = brd.u32(4)?;
                let end = brd.u32(8)?;
                let step = brd.u32(12)?;
                let span = brd.u32(16)?;
                let typ = brd.u8(20)?;
                let cnt = brd.u16(22)? as usize;
                let mut items = vec![];
                let mut o = 24u64;
                match typ {
                    1 => {
                        for _ in 0..cnt {
                            items.push((brd.u32(o)?, brd.u32(o + 4)?, brd.f32(o + 8)?));
                            o += 12;
                        }
                    }
                    2 => {
                        for _ in 0..cnt {
                            let s = brd.u32(o)?;
                            items.push((s, s + span, brd.f32(o + 4)?));
                            o += 8;
                        }
                    }
                    3 => {
                        let mut s = start;
                        for _ in 0..cnt {
                            items.push((s, s + span, brd.f32(o)?));
                            s += step;
                            o += 4;
                        }
                    }
                    t => return Err(format!("bigWig section {} has unknown type {}", li, t)),
                }
                if o as usize != data.len() {
                    problems.push(format!(
                        "bigWig section {}: {} bytes but header implies {}",
                        li,
                        data.len(),
                        o
                    ));
                }
                if cnt == 0 {
                    problems.push(format!("bigWig section {} is empty", li));
                }
                if main.items_per_slot > 0 && cnt as u32 > main.items_per_slot {
                    problems.push(format!(
                        "bigWig section {} has {} items > itemsPerSlot {}",
                        li, cnt, main.items_per_slot
                    ));
                }
                if chrom != leaf.sc {
                    problems.push(format!(
                        "bigWig section {} chrom {} != leaf chrom {}",
                        li, chrom, leaf.sc
                    ));
                }
                let mins = items.iter().map(|i| i.0).min().unwrap_or(start);
                let maxe = items.iter().map(|i| i.1).max().unwrap_or(end);
                if mins < leaf.sb || maxe > leaf.eb {
                    problems.push(format!(
                        "bigWig section {}: items [{},{}) outside leaf span [{},{})",
                        li, mins, maxe, leaf.sb, leaf.eb
                    ));
                }
                if start != mins || end != maxe {
                    problems.push(format!(
                        "bigWig section {}: header span [{},{}) != items span [{},{})",
                        li, start, end, mins, maxe
                    ));
                }
                d.wig_sections.push(WigSection {
                    chrom,
                    start,
                    end,
                    typ,
                    items,
                });
            }
            Kind::Bed => {
                let mut o = 0usize;
                let mut entries = vec![];
                while o < data.len() {
                    if o + 12 > data.len() {
                        problems.push(format!("bigBed block {}: trailing {} bytes", li, data.len() - o));
                        break;
                    }
                    let chrom = brd.u32(o as u64)?;
                    let s = brd.u32(o as u64 + 4)?;
                    let e = brd.u32(o as u64 + 8)?;
                    o += 12;
                    let nul = data[o..]
                        .iter()
                        .position(|b| *b == 0)
                        .ok_or(format!("bigBed block {}: entry not NUL terminated", li))?;
                    let rest = String::from_utf8(data[o..o + nul].to_vec())
                        .map_err(|_| "bigBed rest not UTF-8".to_string())?;
                    o += nul + 1;
                    entries.push((chrom, s, e, rest));
                }
                if entries.is_empty() {
                    problems.push(format!("bigBed block {} is empty", li));
                }
                if main.items_per_slot > 0 && entries.len() as u32 > main.items_per_slot {
                    problems.push(format!(
                        "bigBed block {} has {} items > itemsPerSlot {}",
                        li,
                        entries.len(),
                        main.items_per_slot
                    ));
                }
                for en in &entries {
                    if en.0 != leaf.sc {
                        problems.push(format!(
                            "bigBed block {}: entry chrom {} != leaf chrom {}",
                            li, en.0, leaf.sc
                        ));
                    }
                }
                let mins = entries.iter().map(|i| i.1).min().unwrap_or(0);
                let maxe = entries.iter().map(|i| i.2).max().unwrap_or(0);
                if !entries.is_empty() && (mins < leaf.sb || maxe > leaf.eb) {
                    problems.push(format!(
                        "bigBed block {}: entries [{},{}) outside leaf span [{},{})",
                        li, mins, maxe, leaf.sb, leaf.eb
                    ));
                }
                d.bed_blocks.push(entries);
            }
        }
    }
    if !main.leaves.is_empty() && expect_off != chrom_tree_offset.min(full_index_offset) {
        // bigtools places the chromosome tree between data and index; either is legal
        if expect_off != full_index_offset && expect_off != chrom_tree_offset {
            problems.push(format!(
                "data ends at {} but neither the chromosome tree ({}) nor the index ({}) follows",
                expect_off, chrom_tree_offset, full_index_offset
            ));
        }
    }
    d.main = main;

    // zoom levels
    let mut prev_red = 0u32;
    for z in 0..zoom_levels as u64 {
        let zo = 64 + 24 * z;
        let reduction = rd.u32(zo)?;
        let reserved = rd.u32(zo + 4)?;
        let data_offset = rd.u64(zo + 8)?;
        let index_offset = rd.u64(zo + 16)?;
        if reserved != 0 {
            problems.push(format!("zoom header {} reserved field {} != 0", z, reserved));
        }
        if reduction <= prev_red {
            problems.push(format!(
                "zoom level {} reduction {} not above previous {}",
                z, reduction, prev_red
            ));
        }
        prev_red = reduction;
        if !(data_offset <= index_offset && index_offset < n) || data_offset < full_index_offset {
            problems.push(format!(
                "zoom level {}: offsets data {} index {} inconsistent",
                z, data_offset, index_offset
            ));
        }
        let what = format!("zoom {} index", reduction);
        let ix = read_index(&rd, index_offset, &what, &mut problems)?;
        let mut blocks = vec![];
        let mut expect = data_offset;
        for (li, leaf) in ix.leaves.iter().enumerate() {
            if leaf.off != expect {
                problems.push(format!(
                    "zoom {} block {} at {} not contiguous (expected {})",
                    reduction, li, leaf.off, expect
                ));
            }
            expect = leaf.off + leaf.size;
            if leaf.off < data_offset || leaf.off + leaf.size > index_offset {
                problems.push(format!("zoom {} block {} outside its data region", reduction, li));
            }
            let data = block_bytes(&rd, leaf.off, leaf.size, uncompress_buf, &mut d)?;
            if data.len() % 32 != 0 {
                problems.push(format!(
                    "zoom {} block {}: {} bytes is not a multiple of 32",
                    reduction,
                    li,
                    data.len()
                ));
            }
            let brd = Rd { b: &data, le };
            let mut recs = vec![];
            for i in 0..(data.len() / 32) as u64 {
                let o = i * 32;
                recs.push(ZRec {
                    chrom: brd.u32(o)?,
                    start: brd.u32(o + 4)?,
                    end: brd.u32(o + 8)?,
                    valid: brd.u32(o + 12)?,
                    min: brd.f32(o + 16)?,
                    max: brd.f32(o + 20)?,
                    sum: brd.f32(o + 24)?,
                    sumsq: brd.f32(o + 28)?,
                });
            }
            if recs.is_empty() {
                problems.push(format!("zoom {} block {} is empty", reduction, li));
            }
            if ix.items_per_slot > 0 && recs.len() as u32 > ix.items_per_slot {
                problems.push(format!(
                    "zoom {} block {} has {} records > itemsPerSlot {}",
                    reduction,
                    li,
                    recs.len(),
                    ix.items_per_slot
                ));
            }
            for r in &recs {
                // a zoom block may legally run across chromosomes: compare (chromosome, base) pairs
                if (r.chrom, r.start) < (leaf.sc, leaf.sb) || (r.chrom, r.end) > (leaf.ec, leaf.eb) {
                    problems.push(format!(
                        "zoom {} block {}: record ({},[{},{})) outside leaf span ({},{})-({},{})",
                        reduction, li, r.chrom, r.start, r.end, leaf.sc, leaf.sb, leaf.ec, leaf.eb
                    ));
                }
            }
            blocks.push(recs);
        }
        if !ix.leaves.is_empty() && expect != index_offset {
            problems.push(format!(
                "zoom {}: data ends at {} but index starts at {}",
                reduction, expect, index_offset
            ));
        }
        d.zooms.push(ZoomLevel {
            reduction,
            data_offset,
            index: ix,
            blocks,
        });
    }
    // the zoom directory is 24 bytes per level right after the header; bigtools reserves 10
    if uncompress_buf > 0 && d.max_block_uncompressed > uncompress_buf as usize {
        problems.push(format!(
            "a block inflates to {} > uncompressBufSize {}",
            d.max_block_uncompressed, uncompress_buf
        ));
    }
    d.problems = problems;
    Ok(d)
}

/// Leaves whose span intersects chromosome `c`, bases [s, e] (inclusive comparison on both
/// ends, the comparison the format's readers use), by linear scan in file order.
pub fn linear_scan(ix: &Index, c: u32, s: u32, e: u32) -> Vec<(u64, u64)> {
    ix.leaves
        .iter()
        .filter(|l| (c, s) <= (l.ec, l.eb) && (c, e) >= (l.sc, l.sb))
        .map(|l| (l.off, l.size))
        .collect()
}
