#![allow(dead_code)]
mod cfam;
mod clifam;
mod drive;
mod enc;
mod indep;
mod mfam;
mod pyfam;
mod model;
mod qfam;
mod refm;
mod sched;
mod sup;
mod tfam;
mod wfam;
mod xfam;

use sup::*;

fn main() {
    let argv: Vec<String> = std::env::args().collect();
    if argv.len() < 2 {
        eprintln!("usage: vh <ID> [--tier quick|thorough] [--part i/n] [--resume k] [--progress f] [--replay f] [--list]");
        std::process::exit(2);
    }
    let id = argv[1].as_str();
    if id == "gen-c20" {
        xfam::gen_c20(&argv[2], argv.get(3).map(|x| x == "thorough").unwrap_or(false));
        return;
    }
    let args = parse_args(&argv[2..]);
    let code = match id {
        "C01" => run_check(&wfam::C01, &args),
        "C02" => run_check(&wfam::C02, &args),
        "C03" => run_check(&qfam::C03, &args),
        "C04" => run_check(&qfam::C04, &args),
        "C05" => run_check(&qfam::C05, &args),
        "C09" => run_check(&wfam::C09, &args),
        "C13" => run_check(&cfam::C13, &args),
        "C14" => run_check(&cfam::C14, &args),
        "C18" => run_check(&tfam::C18, &args),
        "C19" => run_check(&tfam::C19, &args),
        "C15" => run_check(&mfam::C15, &args),
        "C17" => run_check(&mfam::C17, &args),
        "C10" => run_check(&xfam::C10, &args),
        "C11" => run_check(&sched::C11, &args),
        "C16" => run_check(&clifam::C16, &args),
        "C06" => run_check(&wfam::C06, &args),
        "C07" => run_check(&wfam::C07, &args),
        "C08" => run_check(&wfam::C08, &args),
        _ => {
            eprintln!("unknown check {}", id);
            2
        }
    };
    std::process::exit(code);
}
