//! Python-binding parts of C17 (`average_over_bed`) and C19 (`sql()`, `write(..., autosql=)`).
//!
//! The harness writes the input files and a list of requests, a thin python3-vt script
//! (`py/pybind_dump.py`) executes them against the extension built from /repo and dumps what it
//! returned, and the comparison with the reference happens here.
use crate::clifam::{avg_files, avg_regions, workdir};
use crate::enc::*;
use crate::sup::*;
use serde_json::{json, Value};
use std::path::{Path, PathBuf};
use std::process::{Command, Stdio};
use std::time::Duration;
use wait_timeout::ChildExt;

fn py_dir() -> PathBuf {
    PathBuf::from(std::env::var("VH_PY_DIR").unwrap_or_else(|_| "/verif/py".to_string()))
}
fn pymod_dir() -> PathBuf {
    PathBuf::from(std::env::var("VH_PYMOD_DIR").unwrap_or_else(|_| "/verif/.cache/pymod".to_string()))
}

/// Runs the requests; Err = machinery problem (reported as harness_panic by the callers).
pub fn py_run(dir: &Path, reqs: &Value) -> Result<Vec<Value>, String> {
    let rq = dir.join("requests.json");
    let rs = dir.join("results.json");
    std::fs::write(&rq, serde_json::to_vec(reqs).unwrap()).map_err(|e| format!("write requests: {}", e))?;
    let mut child = Command::new("python3-vt")
        .arg(py_dir().join("pybind_dump.py"))
        .arg(pymod_dir())
        .arg(&rq)
        .arg(&rs)
        .current_dir(dir)
        .stdin(Stdio::null())
        .stdout(Stdio::null())
        .stderr(Stdio::piped())
        .spawn()
        .map_err(|e| format!("spawn python3-vt: {}", e))?;
    match child.wait_timeout(Duration::from_secs(120)).unwrap() {
        Some(st) => {
            let mut err = String::new();
            if let Some(mut s) = child.stderr.take() {
                use std::io::Read;
                let _ = s.read_to_string(&mut err);
            }
            if !st.success() {
                // the interpreter died (abort inside the extension) or the script failed
                return Ok(vec![json!({"died": format!("status {:?}: {}", st.code(), err.chars().rev().take(500).collect::<String>().chars().rev().collect::<String>())})]);
            }
        }
        None => {
            let _ = child.kill();
            let _ = child.wait();
            return Ok(vec![json!({"died": "timed out after 120 s"})]);
        }
    }
    let data = std::fs::read(&rs).map_err(|e| format!("read results: {}", e))?;
    serde_json::from_slice::<Vec<Value>>(&data).map_err(|e| format!("parse results: {}", e))
}

fn num(v: &Value) -> Option<f64> {
    match v {
        Value::String(s) => match s.as_str() {
            "nan" => Some(f64::NAN),
            "inf" => Some(f64::INFINITY),
            "-inf" => Some(f64::NEG_INFINITY),
            x => x.parse().ok(),
        },
        Value::Number(n) => n.as_f64(),
        _ => None,
    }
}

fn same(a: f64, b: f64) -> bool {
    (a.is_nan() && b.is_nan()) || a == b || (a - b).abs() <= 1e-9 * a.abs().max(b.abs())
}

// ---------------------------------------------------------------------------------------------
// C17: average_over_bed

const STAT_ORDER: [&str; 7] = ["size", "bases", "sum", "mean0", "mean", "min", "max"];

pub fn c17_py(file: usize, regions: usize, out: &mut Outcome) {
    let wd = workdir();
    let dir = wd.path();
    let content = &avg_files()[file];
    let spec = EncSpec {
        bed: false,
        le: true,
        compress: true,
        version: 4,
        chroms: content.iter().map(|(n, items)| EncChrom { name: n.clone(), size: 200, wig: items.chunks(2).map(|c| WigSec::T1(c.to_vec())).collect(), bed: vec![] }).collect(),
        chrom_block: 64,
        chrom_level_order: false,
            chrom_ids_in_given_order: false,
            chrom_ids_reverse_of_keys: false,
        fanout: 2,
        placement: Placement::LevelOrder,
        zooms: vec![],
        zoom_ips: 4,
        zoom_blocks_span_chroms: false,
        trailing_magic: true,
        index_last: false,
        no_summary: false,
        autosql: None,
    };
    std::fs::write(dir.join("in.bw"), encode(&spec).bytes).unwrap();
    let regs: Vec<(String, u32, u32, String)> = avg_regions(regions).into_iter().filter(|r| content.iter().any(|c| c.0 == r.0)).collect();
    let mut bed = String::new();
    for (c, a, b, n) in &regs {
        bed.push_str(&format!("{}\t{}\t{}\t{}\tcol5_{}\n", c, a, b, n, n));
    }
    std::fs::write(dir.join("regions.bed"), &bed).unwrap();
    // reference statistics per region, in STAT_ORDER
    let mut want: Vec<[f64; 7]> = vec![];
    for (c, a, b, _) in &regs {
        let items = &content.iter().find(|x| x.0 == *c).unwrap().1;
        let (mut bases, mut sum, mut mn, mut mx) = (0u32, 0f64, f64::INFINITY, f64::NEG_INFINITY);
        for p in *a..*b {
            if let Some(it) = items.iter().find(|i| i.0 <= p && p < i.1) {
                bases += 1;
                sum += it.2 as f64;
                mn = mn.min(it.2 as f64);
                mx = mx.max(it.2 as f64);
            }
        }
        let size = (b - a) as f64;
        let (mean, mn, mx) = if bases == 0 { (f64::NAN, f64::NAN, f64::NAN) } else { (sum / bases as f64, mn, mx) };
        want.push([size, bases as f64, sum, sum / size, mean, mn, mx]);
    }
    // requests: every names mode x every stats form
    let names_modes: Vec<(&str, Option<Value>)> = vec![
        ("absent", None),
        ("true", Some(json!(true))),
        ("false", Some(json!(false))),
        ("0", Some(json!(0))),
        ("1", Some(json!(1))),
        ("4", Some(json!(4))),
        ("5", Some(json!(5))),
    ];
    let stats_forms: Vec<(&str, Option<Value>, Vec<usize>)> = vec![
        ("absent", None, vec![4]),
        ("all", Some(json!("all")), (0..7).collect()),
        ("ALL", Some(json!("All")), (0..7).collect()),
        ("mean", Some(json!("mean")), vec![4]),
        ("min", Some(json!("min")), vec![5]),
        ("sum,bases", Some(json!(["sum", "bases"])), vec![2, 1]),
        ("max,min,mean0,size", Some(json!(["max", "min", "mean0", "size"])), vec![6, 5, 3, 0]),
        ("[bases]", Some(json!(["bases"])), vec![1]),
    ];
    let mut reqs = vec![];
    let mut plan = vec![];
    for (nl, nv) in &names_modes {
        for (sl, sv, idx) in &stats_forms {
            let mut r = json!({"op": "avg", "bw": "in.bw", "bed": "regions.bed"});
            if let Some(v) = nv {
                r["names"] = v.clone();
            }
            if let Some(v) = sv {
                r["stats"] = v.clone();
            }
            reqs.push(r);
            plan.push((*nl, *sl, idx.clone()));
        }
    }
    let res = match py_run(dir, &Value::Array(reqs)) {
        Ok(r) => r,
        Err(e) => {
            out.fail("harness_panic", &[], e);
            return;
        }
    };
    if let Some(d) = res.first().and_then(|r| r.get("died")) {
        out.fail("python_interpreter_died", &[], format!("average_over_bed requests: {}", d));
        return;
    }
    if res.len() != plan.len() {
        out.fail("harness_panic", &[], format!("{} results for {} requests", res.len(), plan.len()));
        return;
    }
    for ((nl, sl, idx), r) in plan.iter().zip(res.iter()) {
        out.count("python_average_calls", 1);
        let tags = vec![format!("names_{}", nl), "python".to_string()];
        let what = format!("average_over_bed(names={}, stats={})", nl, sl);
        let Some(ok) = r.get("ok") else {
            out.fail("python_average_error", &tags, format!("{}: {}", what, r.get("err").map(|e| e.to_string()).unwrap_or_default()));
            continue;
        };
        let rows = ok["rows"].as_array().cloned().unwrap_or_default();
        if rows.len() != regs.len() {
            out.fail("region_rows_count", &tags, format!("{}: {} rows for {} regions", what, rows.len(), regs.len()));
            continue;
        }
        for (k, (row, (c, a, b, n))) in rows.iter().zip(regs.iter()).enumerate() {
            let want_name: Option<String> = match *nl {
                "absent" => None,
                "true" | "4" => Some(n.clone()),
                "false" => Some(format!("{}:{}-{}", c, a, b)),
                "0" => Some(format!("{}\t{}\t{}\t{}\tcol5_{}", c, a, b, n, n)),
                "1" => Some(c.clone()),
                _ => Some(format!("col5_{}", n)),
            };
            let got_name = row.get("name").and_then(|x| x.as_str()).map(|x| x.to_string());
            if got_name != want_name {
                out.fail("region_name_wrong", &tags, format!("{} row {}: name {:?}, expected {:?}", what, k, got_name, want_name));
                break;
            }
            let got: Vec<Option<f64>> = row["stats"].as_array().map(|v| v.iter().map(num).collect()).unwrap_or_default();
            let exp: Vec<f64> = idx.iter().map(|i| want[k][*i]).collect();
            let ok = got.len() == exp.len() && got.iter().zip(exp.iter()).all(|(g, e)| g.map(|g| same(g, *e)).unwrap_or(false));
            if !ok {
                out.fail("region_stats_wrong", &tags, format!("{} row {} ({} [{},{})): got {:?}, expected {:?} ({:?})", what, k, c, a, b, row["stats"], exp, idx.iter().map(|i| STAT_ORDER[*i]).collect::<Vec<_>>()));
                break;
            }
            if *sl == "all" || *sl == "ALL" {
                let f: Vec<String> = row["fields"].as_array().map(|v| v.iter().filter_map(|x| x.as_str().map(|x| x.to_string())).collect()).unwrap_or_default();
                if f != STAT_ORDER {
                    out.fail("region_stats_wrong", &tags, format!("{}: SummaryStatistics fields {:?}", what, f));
                    break;
                }
            }
        }
    }
}

// ---------------------------------------------------------------------------------------------
// C19: schema through the Python binding

/// `schema`: (text, declared fields of its table, number of declarations) or None for the default.
pub fn c19_py(schema: Option<(String, usize, usize)>, extra: usize, out: &mut Outcome) {
    let wd = workdir();
    let dir = wd.path();
    let rest: String = (0..extra).map(|i| format!("v{}", i)).collect::<Vec<_>>().join("\t");
    let entries = json!([["chr1", 1, 9, rest], ["chr1", 5, 20, rest], ["chr2", 0, 4, rest]]);
    let mut reqs = vec![json!({"op": "sql_write_read", "path": "py.bb", "chroms": {"chr1": 100, "chr2": 50}, "entries": entries, "autosql": schema.as_ref().map(|s| s.0.clone())})];
    // the same schema in a file written by the independent encoder
    let spec = EncSpec {
        bed: true,
        le: true,
        compress: false,
        version: 4,
        chroms: vec![EncChrom { name: "chr1".into(), size: 100, wig: vec![], bed: vec![vec![(1, 9, rest.clone()), (5, 20, rest.clone())]] }],
        chrom_block: 64,
        chrom_level_order: false,
            chrom_ids_in_given_order: false,
            chrom_ids_reverse_of_keys: false,
        fanout: 4,
        placement: Placement::LevelOrder,
        zooms: vec![],
        zoom_ips: 4,
        zoom_blocks_span_chroms: false,
        trailing_magic: true,
        index_last: false,
        no_summary: false,
        autosql: schema.as_ref().map(|s| s.0.clone()),
    };
    std::fs::write(dir.join("enc.bb"), encode(&spec).bytes).unwrap();
    reqs.push(json!({"op": "sql_read", "path": "enc.bb"}));
    let res = match py_run(dir, &Value::Array(reqs)) {
        Ok(r) => r,
        Err(e) => {
            out.fail("harness_panic", &[], e);
            return;
        }
    };
    if let Some(d) = res.first().and_then(|r| r.get("died")) {
        out.fail("python_interpreter_died", &[], format!("schema requests: {}", d));
        return;
    }
    let tags = vec![if schema.is_some() { "supplied_schema".to_string() } else { "default_schema".to_string() }, "python".to_string()];
    for (k, r) in res.iter().enumerate() {
        out.count("python_schema_calls", 1);
        let what = if k == 0 { "pybigtools write(autosql=..) then sql()" } else { "pybigtools sql() on an encoder-written file" };
        let Some(ok) = r.get("ok") else {
            out.fail("python_schema_error", &tags, format!("{}: {}", what, r.get("err").map(|e| e.to_string()).unwrap_or_default()));
            continue;
        };
        let got = ok["sql"].as_str().unwrap_or("<none>").to_string();
        match (&schema, k) {
            (Some((text, _, _)), _) => {
                if got != *text {
                    out.fail("autosql_not_verbatim", &tags, format!("{}: returned {:?}, supplied {:?}", what, got, text));
                }
            }
            (None, 0) => {
                // the library default is the three-field BED schema
                if crate::wfam::declared_fields(&got) != Some(3) {
                    out.fail("autosql_not_verbatim", &tags, format!("{}: no schema supplied, returned {:?} (expected the three-field default)", what, got));
                }
            }
            (None, _) => {
                if !got.is_empty() {
                    out.fail("autosql_not_verbatim", &tags, format!("{}: the file stores no schema, returned {:?}", what, got));
                }
            }
        }
        // sql(parse=True): one declaration -> its fields; several -> the documented error
        if let Some((_, nfields, ndecl)) = &schema {
            if *ndecl == 1 {
                let fields = ok["parsed"]["fields"].as_array().map(|v| v.len());
                if fields != Some(*nfields) {
                    out.fail("parsed_schema_field_count", &tags, format!("{}: sql(parse=True) gives {:?} fields ({}), the schema declares {}", what, fields, ok.get("parse_error").map(|e| e.to_string()).unwrap_or_default(), nfields));
                }
            } else if ok.get("parse_error").is_none() {
                out.count("python_multi_declaration_parsed", 1);
            }
        }
        if k == 0 {
            // records written through the binding come back
            let n = ok["records"].as_array().map(|v| v.len()).unwrap_or(0);
            if n != 3 {
                out.fail("schema_tool_records", &tags, format!("{}: {} records read back, 3 written", what, n));
            }
        }
    }
}

// =============================================================================================
// records() / zoom_records() of the Python binding against the library's own range queries
// (Python parts of C01-C04: the binding's range handling sits between the caller and get_interval)

/// One query: chromosome, optional start, optional end (None = argument not given).
pub type PyQuery = (String, Option<i64>, Option<i64>);

/// Runs `records()` for every query on `bytes` (written to a scratch file) through the extension,
/// by path and from a Python file object, and compares each answer with `expected` (the library's
/// answer for the range the binding documents: start default 0, end default / clamp = chromosome
/// length).  `expected[i]` = None means "not judged" (e.g. arguments a 32-bit int cannot hold).
pub fn py_records_check(bytes: &[u8], bed: bool, queries: &[PyQuery], expected: &[Option<Vec<Vec<String>>>], what: &str, tags: &[String], out: &mut Outcome) {
    let wd = crate::clifam::workdir();
    let dir = wd.path();
    let path = dir.join(if bed { "f.bb" } else { "f.bw" });
    std::fs::write(&path, bytes).unwrap();
    let qs: Vec<Value> = queries.iter().map(|(c, s, e)| json!([c, s, e])).collect();
    // zoom_records() of the first stored level for the same queries (answers compared below with the
    // library's get_zoom_interval on the documented range)
    let zoom_level: Option<u32> = if bed {
        bigtools::BigBedRead::open(std::io::Cursor::new(bytes.to_vec())).ok().and_then(|r| r.info().zoom_headers.first().map(|z| z.reduction_level))
    } else {
        bigtools::BigWigRead::open(std::io::Cursor::new(bytes.to_vec())).ok().and_then(|r| r.info().zoom_headers.first().map(|z| z.reduction_level))
    };
    let mut reqs = vec![
        json!({"op": "records", "path": path.to_str().unwrap(), "file_object": false, "queries": qs}),
        json!({"op": "records", "path": path.to_str().unwrap(), "file_object": true, "queries": qs}),
    ];
    if let Some(lv) = zoom_level {
        reqs.push(json!({"op": "records", "path": path.to_str().unwrap(), "file_object": false, "queries": qs, "zoom": lv}));
    }
    let reqs = Value::Array(reqs);
    let res = match py_run(dir, &reqs) {
        Ok(r) => r,
        Err(e) => {
            out.fail("harness_panic", &[], e);
            return;
        }
    };
    if let Some(d) = res.first().and_then(|r| r.get("died")) {
        out.fail("python_binding_died", tags, format!("{}: {}", what, d));
        return;
    }
    // the zoom answers (third result)
    if let (Some(lv), Some(r)) = (zoom_level, res.get(2)) {
        match r.get("ok").and_then(|ok| ok["answers"].as_array().cloned()) {
            None => out.fail("python_records_failed", tags, format!("{} zoom_records({}): {}", what, lv, r.get("err").map(|e| e.to_string()).unwrap_or_default())),
            Some(answers) => {
                // chromosome lengths from the library
                let lens: std::collections::HashMap<String, u32> = if bed {
                    bigtools::BigBedRead::open(std::io::Cursor::new(bytes.to_vec())).map(|r| r.chroms().iter().map(|c| (c.name.clone(), c.length)).collect()).unwrap_or_default()
                } else {
                    bigtools::BigWigRead::open(std::io::Cursor::new(bytes.to_vec())).map(|r| r.chroms().iter().map(|c| (c.name.clone(), c.length)).collect()).unwrap_or_default()
                };
                for (q, a) in queries.iter().zip(answers.iter()) {
                    let Some(len) = lens.get(&q.0) else { continue };
                    let Some((s, e)) = py_effective_range(*len, q.1, q.2) else { continue };
                    let want: Option<Vec<(u64, u64)>> = if bed {
                        bigtools::BigBedRead::open(std::io::Cursor::new(bytes.to_vec())).ok().and_then(|mut r| r.get_zoom_interval(&q.0, s, e, lv).ok().map(|it| it.filter_map(|z| z.ok()).map(|z| (z.start as u64, z.end as u64)).collect()))
                    } else {
                        bigtools::BigWigRead::open(std::io::Cursor::new(bytes.to_vec())).ok().and_then(|mut r| r.get_zoom_interval(&q.0, s, e, lv).ok().map(|it| it.filter_map(|z| z.ok()).map(|z| (z.start as u64, z.end as u64)).collect()))
                    };
                    let Some(want) = want else { continue };
                    out.count("python_zoom_record_queries", 1);
                    match a.get("ok").and_then(|x| x.as_array()) {
                        None => out.fail("python_records_failed", tags, format!("{} zoom_records({}, {:?}): {}", what, lv, q, a.get("err").map(|e| e.to_string()).unwrap_or_default())),
                        Some(rows) => {
                            let got: Vec<(u64, u64)> = rows.iter().filter_map(|r| Some((r.get(0)?.as_u64()?, r.get(1)?.as_u64()?))).collect();
                            if got != want {
                                out.fail("python_records_differ_from_library_query", tags, format!("{} zoom_records({}, {:?}): {} records {:?}, the library's zoom query gives {} {:?}", what, lv, q, got.len(), got.iter().take(3).collect::<Vec<_>>(), want.len(), want.iter().take(3).collect::<Vec<_>>()));
                            }
                        }
                    }
                }
            }
        }
    }
    for (ri, r) in res.iter().enumerate().take(2) {
        let src = if ri == 0 { "path" } else { "file object" };
        let Some(ok) = r.get("ok") else {
            out.fail("python_records_failed", tags, format!("{} ({}): {}", what, src, r.get("err").map(|e| e.to_string()).unwrap_or_default()));
            continue;
        };
        // chroms(): the whole table, in the file's order (first appearance), with the sizes
        {
            let rd_chroms: Vec<(String, u64)> = if bed {
                bigtools::BigBedRead::open(std::io::Cursor::new(bytes.to_vec())).map(|r| r.chroms().iter().map(|c| (c.name.clone(), c.length as u64)).collect()).unwrap_or_default()
            } else {
                bigtools::BigWigRead::open(std::io::Cursor::new(bytes.to_vec())).map(|r| r.chroms().iter().map(|c| (c.name.clone(), c.length as u64)).collect()).unwrap_or_default()
            };
            let got: Vec<(String, u64)> = ok["chroms"].as_array().map(|a| a.iter().filter_map(|p| Some((p.get(0)?.as_str()?.to_string(), p.get(1)?.as_u64()?))).collect()).unwrap_or_default();
            out.count("python_chromosome_tables", 1);
            if got != rd_chroms {
                out.fail("python_chromosome_table_differs", tags, format!("{} ({}) chroms() = {:?}, the library's table is {:?}", what, src, got, rd_chroms));
            }
        }
        let answers = ok["answers"].as_array().cloned().unwrap_or_default();
        if answers.len() != queries.len() {
            out.fail("harness_panic", &[], format!("{} answers for {} queries", answers.len(), queries.len()));
            continue;
        }
        for ((q, a), want) in queries.iter().zip(answers.iter()).zip(expected.iter()) {
            out.count("python_record_queries", 1);
            let Some(want) = want else {
                out.count("python_record_queries_not_judged", 1);
                continue;
            };
            match a.get("ok").and_then(|x| x.as_array()) {
                None => out.fail("python_records_failed", tags, format!("{} ({}) records{:?}: {}", what, src, q, a.get("err").map(|e| e.to_string()).unwrap_or_default())),
                Some(rows) => {
                    // rows: [start, end, value-or-rest...]; numbers compared numerically, text verbatim
                    let got: Vec<Vec<String>> = rows
                        .iter()
                        .map(|r| {
                            r.as_array()
                                .map(|f| {
                                    f.iter()
                                        .map(|x| match x {
                                            Value::String(s) => s.clone(),
                                            other => other.to_string(),
                                        })
                                        .collect()
                                })
                                .unwrap_or_default()
                        })
                        .collect();
                    let same_row = |g: &Vec<String>, w: &Vec<String>| {
                        g.len() == w.len()
                            && g.iter().zip(w.iter()).all(|(a, b)| {
                                a == b
                                    || match (a.trim_matches('\'').parse::<f64>(), b.parse::<f64>()) {
                                        (Ok(x), Ok(y)) => same(x, y),
                                        _ => false,
                                    }
                            })
                    };
                    if got.len() != want.len() || !got.iter().zip(want.iter()).all(|(g, w)| same_row(g, w)) {
                        out.fail(
                            "python_records_differ_from_library_query",
                            tags,
                            format!("{} ({}) records{:?}: {} rows {:?}, the library's range query gives {} rows {:?}", what, src, q, got.len(), got.iter().take(4).collect::<Vec<_>>(), want.len(), want.iter().take(4).collect::<Vec<_>>()),
                        );
                    }
                }
            }
        }
    }
}

/// Queries for one chromosome of length `len`: arguments absent, one-sided, two-sided; small
/// chromosomes get every range, large ones a boundary alphabet.
pub fn py_queries_for(name: &str, len: u32, points: &[u32]) -> Vec<PyQuery> {
    let mut q: Vec<PyQuery> = vec![(name.to_string(), None, None)];
    let pts: Vec<u32> = if len <= 20 { (0..=len).collect() } else { points.to_vec() };
    for &p in &pts {
        q.push((name.to_string(), Some(p as i64), None));
        q.push((name.to_string(), None, Some(p as i64)));
    }
    for (i, &a) in pts.iter().enumerate() {
        for &b in &pts[i + 1..] {
            q.push((name.to_string(), Some(a as i64), Some(b as i64)));
        }
    }
    // beyond the end and below zero: clamped by the binding
    q.push((name.to_string(), Some(-3), Some(len.min(i32::MAX as u32 - 10) as i64 + 5)));
    q
}

/// The range the binding documents for a query (None when an argument does not fit its i32).
pub fn py_effective_range(len: u32, s: Option<i64>, e: Option<i64>) -> Option<(u32, u32)> {
    if s.map(|v| v > i32::MAX as i64).unwrap_or(false) || e.map(|v| v > i32::MAX as i64).unwrap_or(false) {
        return None;
    }
    let st = s.map(|v| v.max(0) as u32).unwrap_or(0);
    let en = e.map(|v| (v.max(0) as u32).min(len)).unwrap_or(len);
    Some((st, en))
}
