//! C13 (refusal of unrepresentable input, termination) and C14 (crash points, fault sequences).
use crate::drive::*;
use crate::model::*;
use crate::sup::*;
use bigtools::bed::bedparser::{parse_bed, parse_bedgraph};
use bigtools::bed::indexer::index_chroms;
use bigtools::beddata::{BedParserParallelStreamingIterator, BedParserStreamingIterator};
use bigtools::{
    BBIDataProcessor, BBIDataSource, BBIProcessError, BedEntry, BigBedRead, BigBedWrite, BigWigRead,
    BigWigWrite, GenericBBIRead, ProcessDataError, Value,
};
use serde::{Deserialize, Serialize};
use serde_json::json;
use std::collections::HashMap;
use std::io::{Cursor, Write};

// =============================================================================================
// C13

#[derive(Clone, Copy, Debug, Serialize, Deserialize, PartialEq, Eq)]
pub enum Src {
    Iter,
    SerialText,
    ParallelFile,
}

#[derive(Clone, Debug, Serialize, Deserialize, PartialEq, Eq)]
pub enum Viol {
    /// items p and p+1 of chromosome ci swapped
    StartsOutOfOrder { ci: usize, p: usize },
    /// item p reaches one base into item p+1 (bigWig only)
    Overlap { ci: usize, p: usize },
    StartAfterEnd { ci: usize, ii: usize },
    /// bigWig: end beyond the chromosome; bigBed: start at/after the chromosome end
    /// (later items of that chromosome removed so this is the only violation)
    BeyondChrom { ci: usize, ii: usize },
    UnknownChrom { ci: usize },
    /// an unknown chromosome whose name is a known one with a blank behind it (0), in front of it
    /// (1), or in the other letter case (2)
    UnknownChromNear { ci: usize, how: u8 },
    /// chromosomes ci and ci+1 swapped, sorted input required
    ChromOrder { ci: usize },
    /// chromosome 0's last item moved after chromosome 1 (non-contiguous run), sorted input required
    ChromRepeated,
    /// text sources only
    Malformed { ci: usize, ii: usize, how: String },
    Empty,
}

#[derive(Clone, Debug, Serialize, Deserialize, PartialEq, Eq)]
pub enum Degenerate {
    /// zero-length items only: `n` per chromosome on `nchrom` chromosomes at position `pos`
    ZeroLen { n: usize, nchrom: usize, pos: u32 },
    Single { s: u32, e: u32 },
    /// a data source that starts each chromosome and yields no value
    NoValues { nchrom: usize },
    /// the base input itself
    Base,
}

fn three() -> usize {
    3
}

#[derive(Clone, Debug, Serialize, Deserialize)]
pub struct C13Case {
    /// number of chromosomes of the base input (names sort in input order)
    #[serde(default = "three")]
    pub nchrom: usize,
    pub bed: bool,
    pub valid: Option<Degenerate>,
    pub viol: Option<Viol>,
    pub src: Src,
    pub two_pass: bool,
    pub rt: Rt,
    /// command-line variant (exit status of the built converters) instead of the library call
    #[serde(default)]
    pub tool: Option<crate::clifam::RefuseTool>,
    /// write-option variant: 0 staging in memory; 1 temporary files, uncompressed; 2 channel
    /// capacity 1; 3 channel capacity 1, temporary files, manual zoom list; 4 one item per section;
    /// 5 index block size 1; 6 index block size 0; 7 manual zoom list [0, 4]; 8 items per section 0;
    /// 9 a hundred automatic zoom levels; 10 initial zoom size u32::MAX
    #[serde(default)]
    pub ovar: u8,
}

const CLEN: u32 = 100;

fn chrom_names(n: usize) -> Vec<String> {
    if n == 3 {
        vec!["chrA".into(), "chrB".into(), "chrC".into()]
    } else {
        (0..n).map(|i| format!("c{:04}", i)).collect()
    }
}

fn base_rows(n: usize) -> Vec<(String, u32, u32)> {
    let mut v = vec![];
    for c in chrom_names(n) {
        for (s, e) in [(10, 20), (30, 40), (50, 60)] {
            v.push((c.clone(), s, e));
        }
    }
    v
}

/// rows (chrom, start, end) as i64 so that invalid values can be expressed; plus raw-line
/// overrides for malformed text.
struct Input {
    rows: Vec<(String, i64, i64)>,
    raw: HashMap<usize, String>,
    sizes: HashMap<String, u32>,
}

fn build_input(c: &C13Case) -> Input {
    let names = chrom_names(c.nchrom);
    let mut rows: Vec<(String, i64, i64)> = base_rows(c.nchrom)
        .into_iter()
        .map(|(c, s, e)| (c, s as i64, e as i64))
        .collect();
    let mut raw = HashMap::new();
    let mut sizes: HashMap<String, u32> = names.iter().map(|c| (c.clone(), CLEN)).collect();
    let at = |ci: usize, ii: usize| ci * 3 + ii;
    if let Some(d) = &c.valid {
        rows.clear();
        match d {
            Degenerate::Base => {
                rows = base_rows(c.nchrom).into_iter().map(|(c, s, e)| (c, s as i64, e as i64)).collect();
            }
            Degenerate::ZeroLen { n, nchrom, pos } => {
                for ci in 0..*nchrom {
                    for k in 0..*n {
                        let p = (*pos as i64 + k as i64).min(if c.bed { CLEN as i64 - 1 } else { CLEN as i64 });
                        rows.push((names[ci].clone(), p, p));
                    }
                }
            }
            Degenerate::Single { s, e } => rows.push((names[0].clone(), *s as i64, *e as i64)),
            Degenerate::NoValues { .. } => {}
        }
    }
    if let Some(v) = &c.viol {
        match v {
            Viol::StartsOutOfOrder { ci, p } => rows.swap(at(*ci, *p), at(*ci, *p + 1)),
            Viol::Overlap { ci, p } => {
                let nxt = rows[at(*ci, *p + 1)].1;
                rows[at(*ci, *p)].2 = nxt + 1;
            }
            Viol::StartAfterEnd { ci, ii } => {
                let r = &mut rows[at(*ci, *ii)];
                r.1 = r.2 + 3;
            }
            Viol::BeyondChrom { ci, ii } => {
                let i = at(*ci, *ii);
                if c.bed {
                    rows[i].1 = CLEN as i64;
                    rows[i].2 = CLEN as i64 + 5;
                } else {
                    rows[i].2 = CLEN as i64 + 1;
                }
                // drop the later items of this chromosome
                let name = rows[i].0.clone();
                let mut k = 0;
                rows.retain(|r| {
                    let keep = !(r.0 == name && k > i);
                    k += 1;
                    keep
                });
            }
            Viol::UnknownChrom { ci } => {
                let old = names[*ci].clone();
                let new = format!("{}_unlisted", old);
                for r in rows.iter_mut() {
                    if r.0 == old {
                        r.0 = new.clone();
                    }
                }
            }
            Viol::UnknownChromNear { ci, how } => {
                let old = names[*ci].clone();
                let new = match how {
                    0 => format!("{} ", old),
                    1 => format!(" {}", old),
                    _ => old.to_uppercase(),
                };
                for r in rows.iter_mut() {
                    if r.0 == old {
                        r.0 = new.clone();
                    }
                }
            }
            Viol::ChromOrder { ci } => {
                let (a, b) = (names[*ci].clone(), names[*ci + 1].clone());
                for r in rows.iter_mut() {
                    if r.0 == a {
                        r.0 = b.clone();
                    } else if r.0 == b {
                        r.0 = a.clone();
                    }
                }
            }
            Viol::ChromRepeated => {
                let r = rows.remove(2);
                rows.insert(5, r);
            }
            Viol::Malformed { ci, ii, how } => {
                let i = at(*ci, *ii);
                let (ch, s, e) = rows[i].clone();
                let line = match how.as_str() {
                    "missing_end" => format!("{}\t{}", ch, s),
                    "missing_start" => ch.clone(),
                    "non_numeric_start" => format!("{}\tx{}\t{}\t1", ch, s, e),
                    "non_numeric_end" => format!("{}\t{}\t{}y\t1", ch, s, e),
                    "empty_field" => format!("{}\t\t{}\t1", ch, e),
                    "negative" => format!("{}\t-{}\t{}\t1", ch, s, e),
                    "space_separated" => format!("{} {} {} 1", ch, s, e),
                    "missing_value" => format!("{}\t{}\t{}", ch, s, e),
                    "bad_value" => format!("{}\t{}\t{}\tabc", ch, s, e),
                    "float_coordinate" => format!("{}\t{}.5\t{}\t1", ch, s, e),
                    // a line with nothing on it where a record should be (the record is lost if the
                    // line is skipped or taken for the end of the input)
                    "blank" => String::new(),
                    "whitespace_only" => " \t ".to_string(),
                    "empty_chromosome_field" => format!("\t{}\t{}\t1", s, e),
                    // ten-digit coordinates just above u32::MAX that are valid again modulo 2^32
                    "coordinates_plus_2_32" => format!("{}\t{}\t{}\t1", ch, s as u64 + (1u64 << 32), e as u64 + (1u64 << 32)),
                    "end_plus_2_32" => format!("{}\t{}\t{}\t1", ch, s, e as u64 + (1u64 << 32)),
                    "start_20_digits" => format!("{}\t{}\t{}\t1", ch, "18446744073709551617", e),
                    // malformed fields of more than 80 / 200 bytes made of two- and three-byte characters (both
                    // alignments): whatever an error message does with the text must respect characters
                    "long_non_ascii_start" => format!("{}\t{}\t{}\t1", ch, "\u{fc}".repeat(70), e),
                    "long_non_ascii_start_shifted" => format!("{}\tx{}\t{}\t1", ch, "\u{fc}".repeat(70), e),
                    "long_non_ascii_missing_end" => format!("{}\u{67d3}{}", ch, "\u{8272}".repeat(90)),
                    "long_non_ascii_value" => format!("{}\t{}\t{}\ty{}", ch, s, e, "\u{e9}\u{4f53}".repeat(60)),
                    _ => unreachable!(),
                };
                raw.insert(i, line);
            }
            Viol::Empty => rows.clear(),
        }
    }
    sizes.insert("unused".into(), 5);
    Input { rows, raw, sizes }
}

fn text_of(inp: &Input, bed: bool) -> String {
    let mut t = String::new();
    for (i, (c, s, e)) in inp.rows.iter().enumerate() {
        if let Some(l) = inp.raw.get(&i) {
            t.push_str(l);
        } else if bed {
            t.push_str(&format!("{}\t{}\t{}\tn{}", c, s, e, i));
        } else {
            t.push_str(&format!("{}\t{}\t{}\t{}", c, s, e, (i % 4) as f32 + 0.5));
        }
        t.push('\n');
    }
    t
}

/// the merge tool's shape: chromosomes are started, no value is ever produced
struct NoValueSource {
    chroms: Vec<String>,
}
#[derive(Debug)]
struct NeverErr;
impl std::fmt::Display for NeverErr {
    fn fmt(&self, f: &mut std::fmt::Formatter<'_>) -> std::fmt::Result {
        write!(f, "never")
    }
}
impl std::error::Error for NeverErr {}

struct NoValueSourceT<V> {
    chroms: Vec<String>,
    _v: std::marker::PhantomData<V>,
}
impl<V: Send + 'static> BBIDataSource for NoValueSourceT<V> {
    type Value = V;
    type Error = NeverErr;
    fn process_to_bbi<
        P: BBIDataProcessor<Value = V> + Send + 'static,
        StartProcessing: FnMut(String) -> Result<P, ProcessDataError>,
        Advance: FnMut(P),
    >(
        &mut self,
        _runtime: &tokio::runtime::Runtime,
        start_processing: &mut StartProcessing,
        advance: &mut Advance,
    ) -> Result<(), BBIProcessError<NeverErr>> {
        for c in &self.chroms {
            let p = start_processing(c.clone())?;
            advance(p);
        }
        Ok(())
    }
}

pub struct C13;

/// Result of the write call: Ok / Err(text).  Panics are caught by the caller.
fn c13_write(c: &C13Case, tmpdir: &std::path::Path) -> Result<(), String> {
    let inp = build_input(c);
    let sink = Sink::new();
    let rt = make_runtime(c.rt);
    let mut opts = bigtools::BBIWriteOptions::default();
    opts.inmemory = true;
    if c.nchrom == 3 {
        opts.items_per_slot = 2;
        opts.block_size = 2;
    }
    match c.ovar {
        0 => {}
        1 => {
            opts.inmemory = false;
            opts.compress = false;
        }
        2 => opts.channel_size = 1,
        3 => {
            opts.channel_size = 1;
            opts.inmemory = false;
            opts.manual_zoom_sizes = Some(vec![2, 8]);
        }
        4 => {
            opts.items_per_slot = 1;
            opts.block_size = 2;
            opts.channel_size = 2;
        }
        // option values at the edge of their domains: an index fan-out of 1 and of 0, a zoom size of 0
        5 => opts.block_size = 1,
        6 => opts.block_size = 0,
        7 => opts.manual_zoom_sizes = Some(vec![0, 4]),
        8 => opts.items_per_slot = 0,
        // automatic zoom lists whose sizes (initial x 4^k) pass u32::MAX
        9 => opts.max_zooms = 100,
        _ => opts.initial_zoom_size = u32::MAX,
    }
    if let Some(Degenerate::NoValues { nchrom }) = &c.valid {
        let chroms: Vec<String> = chrom_names(c.nchrom)[..*nchrom].to_vec();
        return if c.bed {
            let mut w = BigBedWrite::new(sink, inp.sizes.clone());
            w.options = opts;
            let mk = || NoValueSourceT::<BedEntry> { chroms: chroms.clone(), _v: std::marker::PhantomData };
            if c.two_pass {
                w.write_multipass(|| Ok(mk()), rt).map_err(|e| format!("{}", e))
            } else {
                w.write(mk(), rt).map_err(|e| format!("{}", e))
            }
        } else {
            let mut w = BigWigWrite::new(sink, inp.sizes.clone());
            w.options = opts;
            let mk = || NoValueSourceT::<Value> { chroms: chroms.clone(), _v: std::marker::PhantomData };
            if c.two_pass {
                w.write_multipass(|| Ok(mk()), rt).map_err(|e| format!("{}", e))
            } else {
                w.write(mk(), rt).map_err(|e| format!("{}", e))
            }
        };
    }
    let text = text_of(&inp, c.bed);
    macro_rules! go {
        ($w:expr, $mk:expr) => {{
            if c.two_pass {
                $w.write_multipass(|| Ok($mk), rt).map_err(|e| format!("{}", e))
            } else {
                $w.write($mk, rt).map_err(|e| format!("{}", e))
            }
        }};
    }
    match (c.bed, c.src) {
        (false, Src::Iter) => {
            let vals: Vec<(String, Value)> = inp
                .rows
                .iter()
                .enumerate()
                .map(|(i, (ch, s, e))| (ch.clone(), Value { start: *s as u32, end: *e as u32, value: (i % 4) as f32 + 0.5 }))
                .collect();
            let mut w = BigWigWrite::new(sink, inp.sizes.clone());
            w.options = opts;
            go!(w, BedParserStreamingIterator::wrap_infallible_iter(vals.clone().into_iter(), false))
        }
        (true, Src::Iter) => {
            let vals: Vec<(String, BedEntry)> = inp
                .rows
                .iter()
                .enumerate()
                .map(|(i, (ch, s, e))| (ch.clone(), BedEntry { start: *s as u32, end: *e as u32, rest: format!("n{}", i) }))
                .collect();
            let mut w = BigBedWrite::new(sink, inp.sizes.clone());
            w.options = opts;
            go!(w, BedParserStreamingIterator::wrap_infallible_iter(vals.clone().into_iter(), false))
        }
        (false, Src::SerialText) => {
            let mut w = BigWigWrite::new(sink, inp.sizes.clone());
            w.options = opts;
            go!(w, BedParserStreamingIterator::from_bedgraph_file(Cursor::new(text.clone().into_bytes()), false))
        }
        (true, Src::SerialText) => {
            let mut w = BigBedWrite::new(sink, inp.sizes.clone());
            w.options = opts;
            go!(w, BedParserStreamingIterator::from_bed_file(Cursor::new(text.clone().into_bytes()), false))
        }
        (bed, Src::ParallelFile) => {
            let mut f = tempfile::NamedTempFile::new_in(tmpdir).map_err(|e| format!("HARNESS tempfile: {}", e))?;
            f.write_all(text.as_bytes()).unwrap();
            f.flush().unwrap();
            let path = f.path().to_path_buf();
            // as the command-line tools do: index, refuse when the file cannot be indexed
            let idx = match index_chroms(std::fs::File::open(&path).unwrap()) {
                Err(e) => return Err(format!("indexer: {}", e)),
                Ok(None) => return Err("indexer: file is not grouped by chromosome".into()),
                Ok(Some(i)) => i,
            };
            if bed {
                let mut w = BigBedWrite::new(sink, inp.sizes.clone());
                w.options = opts;
                go!(w, BedParserParallelStreamingIterator::new(idx.clone(), false, path.clone(), parse_bed))
            } else {
                let mut w = BigWigWrite::new(sink, inp.sizes.clone());
                w.options = opts;
                go!(w, BedParserParallelStreamingIterator::new(idx.clone(), false, path.clone(), parse_bedgraph))
            }
        }
    }
}

fn c13_viols(bed: bool) -> Vec<(Viol, bool)> {
    // (violation, expressible with the iterator source)
    let mut v = vec![];
    for ci in 0..3 {
        for p in 0..2 {
            v.push((Viol::StartsOutOfOrder { ci, p }, true));
            if !bed {
                v.push((Viol::Overlap { ci, p }, true));
            }
        }
        for ii in 0..3 {
            v.push((Viol::StartAfterEnd { ci, ii }, true));
            v.push((Viol::BeyondChrom { ci, ii }, true));
        }
        v.push((Viol::UnknownChrom { ci }, true));
        for how in 0..3u8 {
            v.push((Viol::UnknownChromNear { ci, how }, true));
        }
    }
    for ci in 0..2 {
        v.push((Viol::ChromOrder { ci }, true));
    }
    v.push((Viol::ChromRepeated, true));
    let mut hows = vec![
        "missing_end",
        "missing_start",
        "non_numeric_start",
        "non_numeric_end",
        "empty_field",
        "negative",
        "space_separated",
        "float_coordinate",
        "blank",
        "whitespace_only",
        "empty_chromosome_field",
        "coordinates_plus_2_32",
        "end_plus_2_32",
        "start_20_digits",
        "long_non_ascii_start",
        "long_non_ascii_start_shifted",
        "long_non_ascii_missing_end",
    ];
    if !bed {
        hows.push("missing_value");
        hows.push("bad_value");
        hows.push("long_non_ascii_value");
    }
    for how in hows {
        for ci in 0..3 {
            for ii in 0..3 {
                v.push((Viol::Malformed { ci, ii, how: how.to_string() }, false));
            }
        }
    }
    v.push((Viol::Empty, true));
    v
}

fn c13_tags(c: &C13Case) -> Vec<String> {
    let mut t = vec![];
    t.push(if c.bed { "bigbed".to_string() } else { "bigwig".to_string() });
    t.push(format!("src_{:?}", c.src).to_lowercase());
    if c.nchrom > 5 {
        t.push("more_than_5_chromosomes".to_string());
    }
    if c.nchrom > 100 {
        t.push("more_than_100_chromosomes".to_string());
    }
    if let Some(v) = &c.viol {
        let name = match v {
            Viol::StartsOutOfOrder { .. } => "starts_out_of_order".to_string(),
            Viol::Overlap { .. } => "overlap".to_string(),
            Viol::StartAfterEnd { .. } => "start_after_end".to_string(),
            Viol::BeyondChrom { .. } => "beyond_chrom".to_string(),
            Viol::UnknownChrom { .. } => "unknown_chrom".to_string(),
            Viol::UnknownChromNear { .. } => "unknown_chrom_near_a_known_name".to_string(),
            Viol::ChromOrder { .. } => "chrom_order".to_string(),
            Viol::ChromRepeated => "chrom_repeated".to_string(),
            Viol::Malformed { how, .. } => format!("malformed_{}", how),
            Viol::Empty => "empty_input".to_string(),
        };
        t.push(name);
    }
    if let Some(d) = &c.valid {
        t.push(match d {
            Degenerate::ZeroLen { .. } => "valid_zero_length_only".to_string(),
            Degenerate::Single { .. } => "valid_single_item".to_string(),
            Degenerate::NoValues { .. } => "valid_source_without_values".to_string(),
            Degenerate::Base => "valid_base".to_string(),
        });
    }
    t
}

impl Check for C13 {
    type Case = C13Case;
    fn id(&self) -> &'static str {
        "C13"
    }
    fn cases(&self, tier: Tier) -> Box<dyn Iterator<Item = C13Case> + '_> {
        let quick = tier == Tier::Quick;
        let rts: Vec<Rt> = if quick { vec![Rt::Current, Rt::Multi(2)] } else { vec![Rt::Current, Rt::Multi(2), Rt::Multi(4)] };
        let ovars: Vec<u8> = if quick { vec![0, 2, 3, 5, 6, 7, 8, 9, 10] } else { vec![0, 1, 2, 3, 4, 5, 6, 7, 8, 9, 10] };
        let mut v = vec![];
        for bed in [false, true] {
            for (viol, iter_ok) in c13_viols(bed) {
                for src in [Src::Iter, Src::SerialText, Src::ParallelFile] {
                    if src == Src::Iter && !iter_ok {
                        continue;
                    }
                    for two_pass in [false, true] {
                        for &rt in &rts {
                            for &ovar in &ovars {

                                v.push(C13Case { nchrom: 3, bed, valid: None, viol: Some(viol.clone()), src, two_pass, rt, tool: None, ovar });

                            }
                        }
                    }
                }
            }
            // valid degenerate inputs: must terminate without panic
            let mut degs = vec![Degenerate::Base];
            for n in [1usize, 2, 5] {
                for nchrom in [1usize, 2, 3] {
                    for pos in [0u32, 7, CLEN] {
                        degs.push(Degenerate::ZeroLen { n, nchrom, pos });
                    }
                }
            }
            for (s, e) in [(0u32, 1u32), (0, CLEN), (CLEN - 1, CLEN), (5, 5), (0, 0)] {
                degs.push(Degenerate::Single { s, e });
            }
            for nchrom in [1usize, 2, 3] {
                degs.push(Degenerate::NoValues { nchrom });
            }
            for d in degs {
                let srcs: Vec<Src> = if matches!(d, Degenerate::NoValues { .. }) {
                    vec![Src::Iter]
                } else {
                    vec![Src::Iter, Src::SerialText, Src::ParallelFile]
                };
                for src in srcs {
                    for two_pass in [false, true] {
                        for &rt in &rts {
                            for &ovar in &ovars {

                                v.push(C13Case { nchrom: 3, bed, valid: Some(d.clone()), viol: None, src, two_pass, rt, tool: None, ovar });

                            }
                        }
                    }
                }
            }
            // many chromosomes: more than the parallel source queues at once (4 + 1), and more
            // than the default channel capacity (100) between the pipeline's tasks
            for n in [6usize, 8] {
                let mut viols = vec![];
                for ci in [0usize, 3, 4, 5, n - 2] {
                    if ci + 1 < n && !viols.contains(&Viol::ChromOrder { ci }) {
                        viols.push(Viol::ChromOrder { ci });
                    }
                }
                for ci in [4usize, 5, n - 1] {
                    viols.push(Viol::UnknownChrom { ci });
                    viols.push(Viol::StartsOutOfOrder { ci, p: 1 });
                    viols.push(Viol::BeyondChrom { ci, ii: 2 });
                }
                for viol in viols {
                    for src in [Src::Iter, Src::SerialText, Src::ParallelFile] {
                        for two_pass in [false, true] {
                            for &rt in &rts {
                                for &ovar in &ovars {

                                    v.push(C13Case { nchrom: n, bed, valid: None, viol: Some(viol.clone()), src, two_pass, rt, tool: None, ovar });

                                }
                            }
                        }
                    }
                }
            }
            let many: &[usize] = if quick { &[6, 101, 102, 130] } else { &[6, 8, 100, 101, 102, 103, 130, 260] };
            for &n in many {
                for src in [Src::Iter, Src::SerialText, Src::ParallelFile] {
                    for two_pass in [false, true] {
                        for &rt in &rts {
                            for &ovar in &ovars {

                                v.push(C13Case { nchrom: n, bed, valid: Some(Degenerate::Base), viol: None, src, two_pass, rt, tool: None, ovar });

                            }
                        }
                    }
                }
            }
        }
        for t in crate::clifam::refuse_tool_cases(quick) {
            v.push(C13Case { nchrom: 3, bed: t.bed, valid: None, viol: None, src: Src::SerialText, two_pass: !t.single_pass, rt: Rt::Current, tool: Some(t), ovar: 0 });
        }
        Box::new(v.into_iter())
    }
    fn run(&self, c: &C13Case, out: &mut Outcome) {
        if let Some(t) = &c.tool {
            out.nontrivial = true;
            crate::clifam::c13_tool(t, out);
            return;
        }
        let tags = c13_tags(c);
        let tmp = std::env::temp_dir();
        let r = guarded(|| c13_write(c, &tmp));
        out.nontrivial = true;
        out.outcome_hash = Some(fnv(format!("{:?}", r).as_bytes()));
        match (&c.viol, r) {
            (_, Ok(Err(e))) if e.starts_with("HARNESS") => out.fail("harness_panic", &[], e),
            (Some(_), Ok(Err(e))) => {
                out.count("invalid_refused", 1);
                if e.starts_with("indexer:") {
                    out.count("invalid_refused_by_indexer", 1);
                }
            }
            (Some(_), Ok(Ok(()))) => out.fail("invalid_input_accepted", &tags, "write returned Ok(()) for unrepresentable input".into()),
            (Some(_), Err(p)) => out.fail("invalid_input_panics", &tags, format!("write panicked instead of returning an error: {}", p)),
            (None, Ok(Ok(()))) => out.count("valid_returned_ok", 1),
            (None, Ok(Err(e))) => {
                // returning (even with an error) is all that is demanded of valid input here
                out.count("valid_returned_err", 1);
                out.count(&format!("valid_returned_err:{}", crate::wfam::slug(&e)), 1);
            }
            (None, Err(p)) => out.fail("valid_input_panics", &tags, format!("write panicked on valid input: {}", p)),
        }
    }
    fn space(&self, tier: Tier) -> serde_json::Value {
        json!({
            "file_types": 2, "violations_bigwig": c13_viols(false).len(), "violations_bigbed": c13_viols(true).len(),
            "positions": "chromosome first/middle/last x item first/middle/last (pairs: first, last)",
            "sources": ["iterator", "serial text", "parallel file (indexer + per-chromosome views)"],
            "passes": 2, "runtimes": if tier == Tier::Quick {2} else {3},
            "valid_degenerate_inputs": 1 + 27 + 5 + 3,
        })
    }
    fn case_cap_s(&self) -> u64 {
        // library write calls take milliseconds; the tool cases carry their own 60 s limit (the
        // 130 000-value merge takes a few seconds on a busy machine)
        90
    }
}

// =============================================================================================
// C14

#[derive(Clone, Debug, Serialize, Deserialize)]
pub enum C14Mode {
    Crash,
    /// crash points on a destination that takes at most `cap` bytes per write call: every piece of a
    /// split write is an operation of its own, so images between the pieces of the final header exist
    /// (an image may then advertise zoom levels that it refuses to serve; serving them is the violation)
    CrashCapped { cap: usize },
    Fault(FaultMode),
    /// refused input: the destination after the Err return
    Refused(Viol),
    /// the converter binaries on refused inputs: what they leave at the output path
    RefusedTool(crate::clifam::RefuseTool),
    /// crash points over a destination that already holds an older complete file (rewritten in
    /// place): every image is rejected, or serves the old file, or serves the new file - never a mixture
    CrashOver,
    /// the Python binding's writers fed by an iterable that raises after `fail_after` tuples
    /// (None: never): what is at the path afterwards
    PyWrite { fail_after: Option<usize> },
    /// faults x schedules: every operation index fails (once / from then on) under every schedule of
    /// the writer pipeline with at most one deviation (C11's explorer), plus the crash images of
    /// every distinct operation log those schedules produce
    Sched,
}

#[derive(Clone, Debug, Serialize, Deserialize)]
pub struct C14Case {
    pub bed: bool,
    pub nchrom: usize,
    /// items per chromosome; > 700 makes the uncompressed data exceed the 8 KiB writer buffers
    pub items: u32,
    pub opts: Opts,
    pub mode: C14Mode,
    /// Sched mode only: this case explores the deviation vectors whose index is congruent to .0
    /// modulo .1 (the all-default schedule belongs to part 0); the parts of one scenario together
    /// are the whole deviation-bounded space
    #[serde(default)]
    pub part: Option<(u32, u32)>,
}

pub struct C14;

fn c14_wig(c: &C14Case) -> WigCase {
    let names = ["k1", "k2", "k3"];
    WigCase {
        chroms: (0..c.nchrom)
            .map(|ci| WChrom {
                name: names[ci].into(),
                len: 3 * c.items + 10,
                items: (0..c.items)
                    .map(|i| WItem { s: 3 * i + 1, e: 3 * i + 3, vb: ((i % 5) as f32 + ci as f32).to_bits() })
                    .collect(),
            })
            .collect(),
        extra_sizes: vec![],
        allow_ooo: false,
        opts: c.opts.clone(),
    }
}

fn c14_bed(c: &C14Case) -> BedCase {
    let names = ["k1", "k2", "k3"];
    BedCase {
        chroms: (0..c.nchrom)
            .map(|ci| BChrom {
                name: names[ci].into(),
                len: 3 * c.items + 10,
                items: (0..c.items)
                    .map(|i| BItem { s: 3 * i + 1, e: 3 * i + 5, rest: format!("e{}", i) })
                    .collect(),
            })
            .collect(),
        extra_sizes: vec![],
        allow_ooo: false,
        autosql: None,
        opts: c.opts.clone(),
    }
}

/// Everything a reader serves from an image: None = rejected (open error or panic).
#[derive(Debug, PartialEq, Clone)]
struct Served {
    chroms: Vec<(String, u32)>,
    /// per chromosome: Ok(records as strings) or Err (query refused)
    data: Vec<Result<Vec<String>, String>>,
    zoom_levels: Vec<u32>,
    zooms: Vec<Result<Vec<String>, String>>,
}

fn serve(bytes: &[u8], bed: bool) -> Option<Served> {
    let b = bytes.to_vec();
    guarded(move || -> Option<Served> {
        if bed {
            let mut r = BigBedRead::open(Cursor::new(b)).ok()?;
            let chroms: Vec<(String, u32)> = r.chroms().iter().map(|c| (c.name.clone(), c.length)).collect();
            let zoom_levels: Vec<u32> = r.info().zoom_headers.iter().map(|z| z.reduction_level).collect();
            let mut data = vec![];
            let mut zooms = vec![];
            for (n, l) in &chroms {
                let q = guarded(|| -> Result<Vec<String>, String> {
                    let it = r.get_interval(n, 0, *l).map_err(|e| format!("{}", e))?;
                    let mut v = vec![];
                    for x in it {
                        let x = x.map_err(|e| format!("{}", e))?;
                        v.push(format!("{} {} {}", x.start, x.end, x.rest));
                    }
                    Ok(v)
                });
                data.push(q.unwrap_or_else(|p| Err(format!("panic: {}", p))));
                for z in &zoom_levels {
                    let q = guarded(|| -> Result<Vec<String>, String> {
                        let it = r.get_zoom_interval(n, 0, *l, *z).map_err(|e| format!("{}", e))?;
                        let mut v = vec![];
                        for x in it {
                            let x = x.map_err(|e| format!("{}", e))?;
                            v.push(format!("{} {} {:?}", x.start, x.end, x.summary));
                        }
                        Ok(v)
                    });
                    zooms.push(q.unwrap_or_else(|p| Err(format!("panic: {}", p))));
                }
            }
            Some(Served { chroms, data, zoom_levels, zooms })
        } else {
            let mut r = BigWigRead::open(Cursor::new(b)).ok()?;
            let chroms: Vec<(String, u32)> = r.chroms().iter().map(|c| (c.name.clone(), c.length)).collect();
            let zoom_levels: Vec<u32> = r.info().zoom_headers.iter().map(|z| z.reduction_level).collect();
            let mut data = vec![];
            let mut zooms = vec![];
            for (n, l) in &chroms {
                let q = guarded(|| -> Result<Vec<String>, String> {
                    let it = r.get_interval(n, 0, *l).map_err(|e| format!("{}", e))?;
                    let mut v = vec![];
                    for x in it {
                        let x = x.map_err(|e| format!("{}", e))?;
                        v.push(format!("{} {} {}", x.start, x.end, x.value.to_bits()));
                    }
                    Ok(v)
                });
                data.push(q.unwrap_or_else(|p| Err(format!("panic: {}", p))));
                for z in &zoom_levels {
                    let q = guarded(|| -> Result<Vec<String>, String> {
                        let it = r.get_zoom_interval(n, 0, *l, *z).map_err(|e| format!("{}", e))?;
                        let mut v = vec![];
                        for x in it {
                            let x = x.map_err(|e| format!("{}", e))?;
                            v.push(format!("{} {} {:?}", x.start, x.end, x.summary));
                        }
                        Ok(v)
                    });
                    zooms.push(q.unwrap_or_else(|p| Err(format!("panic: {}", p))));
                }
            }
            Some(Served { chroms, data, zoom_levels, zooms })
        }
    })
    .ok()
    .flatten()
}

/// What a refused conversion left behind: rejected by the readers, or served without an error.
pub fn judge_leftover(bytes: &[u8], bed: bool, tags: &[String], what: &str, out: &mut Outcome) {
    match serve(bytes, bed) {
        None => out.count("images_rejected", 1),
        Some(s) => {
            let bad = s.data.iter().chain(s.zooms.iter()).any(|d| d.is_err());
            if bad || s.chroms.is_empty() {
                out.fail("partial_file_after_refusal_accepted", tags, format!("after {} failed, the output file opens and serves {:?}", what, s));
            } else {
                out.count("images_accepted_and_served", 1);
            }
        }
    }
}

fn generic_opens(bytes: &[u8]) -> bool {
    let b = bytes.to_vec();
    guarded(move || GenericBBIRead::open(Cursor::new(b)).is_ok()).unwrap_or(false)
}

fn c14_run_write(c: &C14Case, sink: Sink) -> Result<Result<(), String>, String> {
    if c.bed {
        let bc = c14_bed(c);
        guarded(|| write_bed_into(&bc, sink))
    } else {
        let wc = c14_wig(c);
        guarded(|| write_wig_into(&wc, sink))
    }
}

fn c14_opts(quick: bool) -> Vec<Opts> {
    let mut v = vec![];
    for two_pass in [false, true] {
        for zoom in [Zoom::Manual(vec![4, 16]), Zoom::Manual(vec![])] {
            for compress in [true, false] {
                let variants: Vec<(u32, bool)> = if quick { vec![(2, true)] } else { vec![(2, true), (1024, true), (2, false)] };
                for (ips, inmemory) in variants {
                    let mut o = Opts::base();
                    o.two_pass = two_pass;
                    o.zoom = zoom.clone();
                    o.compress = compress;
                    o.ips = ips;
                    o.bs = 2;
                    o.inmemory = inmemory;
                    v.push(o);
                }
            }
        }
    }
    v
}

impl Check for C14 {
    type Case = C14Case;
    fn id(&self) -> &'static str {
        "C14"
    }
    fn cases(&self, tier: Tier) -> Box<dyn Iterator<Item = C14Case> + '_> {
        let quick = tier == Tier::Quick;
        let mut v = vec![];
        let mut modes = vec![C14Mode::Crash, C14Mode::Fault(FaultMode::Once), C14Mode::Fault(FaultMode::Sticky)];
        if !quick {
            modes.push(C14Mode::Fault(FaultMode::Short));
        }
        for bed in [false, true] {
            for nchrom in [1usize, 2] {
                for o in c14_opts(quick) {
                    for m in &modes {
                        v.push(C14Case { bed, nchrom, items: 3, opts: o.clone(), mode: m.clone(), part: None });
                    }
                }
            }
            // > 8 KiB of uncompressed data per chromosome: writer buffers flush inside the data phase
            for two_pass in [false, true] {
                for nchrom in [1usize, 2] {
                    let mut o = Opts::base();
                    o.compress = false;
                    o.ips = 512;
                    o.two_pass = two_pass;
                    o.zoom = Zoom::Manual(vec![64]);
                    // staged in memory and in temporary files
                    for inmemory in [true, false] {
                        o.inmemory = inmemory;
                        for m in &modes {
                            v.push(C14Case { bed, nchrom, items: 1500, opts: o.clone(), mode: m.clone(), part: None });
                        }
                    }
                    // several zoom levels of 8 KiB and more each, staged in temporary files
                    let mut oz = o.clone();
                    oz.inmemory = false;
                    oz.zoom = Zoom::Manual(vec![2, 4, 8]);
                    for m in &modes {
                        if !matches!(m, C14Mode::Crash) {
                            v.push(C14Case { bed, nchrom, items: 1500, opts: oz.clone(), mode: m.clone(), part: None });
                        }
                    }
                }
            }
            // section sizes swept so that the fill level of the 8 KiB writer buffers at the
            // moment a chromosome's section writer is closed takes many values (the last,
            // partial buffer of every chromosome is pushed out when that writer is dropped)
            for nsec in 9..=24u32 {
                for two_pass in [false, true] {
                    if quick && two_pass && nsec % 3 != 0 {
                        continue;
                    }
                    for nchrom in [1usize, 2] {
                        let mut o = Opts::base();
                        o.compress = false;
                        o.ips = 64;
                        o.two_pass = two_pass;
                        o.zoom = Zoom::Manual(vec![]);
                        // quick: staging kind alternates with the section count; thorough: both
                        for inmemory in [true, false] {
                            if quick && inmemory != (nsec % 2 == 1) {
                                continue;
                            }
                            o.inmemory = inmemory;
                            for m in &modes {
                                if matches!(m, C14Mode::Crash) && nsec % 4 != 0 {
                                    continue;
                                }
                                v.push(C14Case { bed, nchrom, items: 64 * nsec, opts: o.clone(), mode: m.clone(), part: None });
                            }
                        }
                    }
                }
            }
            // index nodes of 8 KiB and more (>= 256 sections in a node): node blocks larger than
            // the 8 KiB writer buffers take a different path through BufWriter
            for two_pass in [false, true] {
                for (bs, zoom) in [(256u32, Zoom::Manual(vec![])), (512, Zoom::Manual(vec![2]))] {
                    let mut o = Opts::base();
                    o.ips = 1;
                    o.bs = bs;
                    o.compress = false;
                    o.two_pass = two_pass;
                    o.zoom = zoom;
                    for m in &modes {
                        v.push(C14Case { bed, nchrom: 1, items: 300, opts: o.clone(), mode: m.clone(), part: None });
                    }
                }
            }
            // destination that already holds an older, longer file
            for nchrom in [1usize, 2] {
                for o in c14_opts(true) {
                    v.push(C14Case { bed, nchrom, items: 3, opts: o.clone(), mode: C14Mode::CrashOver, part: None });
                }
            }
            // faults and crash points under every schedule with <= 1 deviation
            for two_pass in [false, true] {
                for inmemory in [false, true] {
                    for (nchrom, items, ips) in if quick { vec![(2usize, 3u32, 2u32)] } else { vec![(2usize, 3u32, 2u32), (3, 2, 1), (2, 6, 1024)] } {
                        let mut o = Opts::base();
                        o.two_pass = two_pass;
                        o.inmemory = inmemory;
                        o.ips = ips;
                        v.push(C14Case { bed, nchrom, items, opts: o, mode: C14Mode::Sched, part: None });
                    }
                }
                // more than 8 KiB staged per chromosome (uncompressed): a staged chromosome is handed
                // to the destination in pieces larger than the destination's own buffer
                let mut o = Opts::base();
                o.two_pass = two_pass;
                o.inmemory = false;
                o.compress = false;
                o.ips = 512;
                for p in 0..8u32 {
                    v.push(C14Case { bed, nchrom: 2, items: 1500, opts: o.clone(), mode: C14Mode::Sched, part: Some((p, 8)) });
                }
            }
            // crash points between the pieces of split writes (destination takes 40 / 100 bytes per call)
            for o in c14_opts(true) {
                for cap in [40usize, 100] {
                    v.push(C14Case { bed, nchrom: 2, items: 3, opts: o.clone(), mode: C14Mode::CrashCapped { cap }, part: None });
                }
            }
            // the Python writers with a source that fails after 0 .. n tuples, and one that does not
            for fail_after in (0..=6usize).map(Some).chain([None]) {
                v.push(C14Case { bed, nchrom: 2, items: 3, opts: Opts::base(), mode: C14Mode::PyWrite { fail_after }, part: None });
            }
            // refused inputs through the built converters (the output path afterwards)
            if bed {
                for t in crate::clifam::refuse_tool_cases(quick) {
                    if t.what != "valid" && !t.what.starts_with("merge_") {
                        v.push(C14Case { bed: t.bed, nchrom: 3, items: 3, opts: Opts::base(), mode: C14Mode::RefusedTool(t), part: None });
                    }
                }
            }
            // refused inputs
            for viol in [
                Viol::StartsOutOfOrder { ci: 0, p: 0 },
                Viol::StartsOutOfOrder { ci: 2, p: 1 },
                Viol::UnknownChrom { ci: 1 },
                Viol::UnknownChrom { ci: 2 },
                Viol::BeyondChrom { ci: 2, ii: 2 },
                Viol::ChromOrder { ci: 1 },
                Viol::Empty,
            ] {
                for two_pass in [false, true] {
                    let mut o = Opts::base();
                    o.two_pass = two_pass;
                    v.push(C14Case { bed, nchrom: 3, items: 3, opts: o, mode: C14Mode::Refused(viol.clone()), part: None });
                }
            }
        }
        Box::new(v.into_iter())
    }
    fn run(&self, c: &C14Case, out: &mut Outcome) {
        let mut tags = vec![if c.bed { "bigbed".to_string() } else { "bigwig".to_string() }];
        tags.push(if c.opts.two_pass { "two_pass".into() } else { "single_pass".into() });
        out.nontrivial = true;
        match &c.mode {
            C14Mode::Refused(viol) => {
                let cc = C13Case { nchrom: 3, bed: c.bed, valid: None, viol: Some(viol.clone()), src: Src::Iter, two_pass: c.opts.two_pass, rt: Rt::Current, tool: None, ovar: 0 };
                let inp = build_input(&cc);
                let sink = Sink::new();
                let s2 = sink.clone();
                let r = guarded(move || {
                    let rt = make_runtime(Rt::Current);
                    let mut o = bigtools::BBIWriteOptions::default();
                    o.inmemory = true;
                    if cc.bed {
                        let vals: Vec<(String, BedEntry)> = inp.rows.iter().enumerate().map(|(i, (ch, s, e))| (ch.clone(), BedEntry { start: *s as u32, end: *e as u32, rest: format!("n{}", i) })).collect();
                        let mut w = BigBedWrite::new(s2, inp.sizes.clone());
                        w.options = o;
                        if cc.two_pass {
                            w.write_multipass(|| Ok(BedParserStreamingIterator::wrap_infallible_iter(vals.clone().into_iter(), false)), rt).map_err(|e| format!("{}", e))
                        } else {
                            w.write(BedParserStreamingIterator::wrap_infallible_iter(vals.into_iter(), false), rt).map_err(|e| format!("{}", e))
                        }
                    } else {
                        let vals: Vec<(String, Value)> = inp.rows.iter().enumerate().map(|(i, (ch, s, e))| (ch.clone(), Value { start: *s as u32, end: *e as u32, value: i as f32 })).collect();
                        let mut w = BigWigWrite::new(s2, inp.sizes.clone());
                        w.options = o;
                        if cc.two_pass {
                            w.write_multipass(|| Ok(BedParserStreamingIterator::wrap_infallible_iter(vals.clone().into_iter(), false)), rt).map_err(|e| format!("{}", e))
                        } else {
                            w.write(BedParserStreamingIterator::wrap_infallible_iter(vals.into_iter(), false), rt).map_err(|e| format!("{}", e))
                        }
                    }
                });
                out.count("refused_input_runs", 1);
                if let Ok(Ok(())) = r {
                    // not C14's business (C13 judges acceptance); the image is then simply a file
                    out.count("refused_input_was_accepted", 1);
                    return;
                }
                let img = sink.bytes();
                out.outcome_hash = Some(fnv(&img));
                match serve(&img, c.bed) {
                    None => out.count("images_rejected", 1),
                    Some(s) => {
                        // accepted: everything it advertises must be served without error
                        let bad = s.data.iter().chain(s.zooms.iter()).any(|d| d.is_err());
                        if bad || s.chroms.is_empty() {
                            out.fail("partial_file_after_refusal_accepted", &tags, format!("after refusing {:?} the destination opens and serves {:?}", viol, s));
                        } else {
                            out.count("images_accepted_and_served", 1);
                        }
                    }
                }
            }
            C14Mode::Crash | C14Mode::CrashCapped { .. } => {
                let sink = Sink::recording();
                let capped = if let C14Mode::CrashCapped { cap } = &c.mode {
                    sink.0.lock().unwrap().max_write = Some(*cap);
                    out.count("crash_histories_on_a_short_writing_destination", 1);
                    true
                } else {
                    false
                };
                match c14_run_write(c, sink.clone()) {
                    Ok(Ok(())) => {}
                    other => {
                        out.fail("write_failed_without_fault", &tags, format!("{:?}", other));
                        return;
                    }
                }
                let log = sink.log();
                let full_img = sink.bytes();
                let Some(full) = serve(&full_img, c.bed) else {
                    out.fail("complete_file_rejected", &tags, "the complete image does not open".into());
                    return;
                };
                out.count("crash_histories", 1);
                out.count("crash_ops", log.len() as u64);
                let mut kinds = std::collections::BTreeSet::new();
                for op in &log {
                    kinds.insert(match op { Op::Write(_) => "write", Op::Seek(_) => "seek", Op::Flush => "flush" });
                }
                out.count("crash_op_kinds", kinds.len() as u64);
                let mut accepted = 0;
                for k in 0..=log.len() {
                    let img = image_after(&log, k);
                    out.count("crash_points", 1);
                    let gen_ok = generic_opens(&img);
                    match serve(&img, c.bed) {
                        None => {
                            out.count("images_rejected", 1);
                            if gen_ok {
                                out.fail("generic_reader_accepts_what_typed_reader_rejects", &tags, format!("prefix {} of {}", k, log.len()));
                            }
                        }
                        Some(s) => {
                            accepted += 1;
                            out.count("images_accepted", 1);
                            // every answer: refused, or complete and correct
                            let mut wrong = vec![];
                            if s.chroms != full.chroms {
                                wrong.push(format!("chromosome table {:?} vs {:?}", s.chroms, full.chroms));
                            }
                            if s.zoom_levels != full.zoom_levels {
                                if !capped {
                                    wrong.push(format!("zoom levels {:?} vs {:?}", s.zoom_levels, full.zoom_levels));
                                } else {
                                    // between the pieces of a split header write the zoom directory is
                                    // still blank: whatever it advertises must be refused, not served
                                    out.count("images_advertising_unfinished_zoom_levels", 1);
                                    for (i, d) in s.zooms.iter().enumerate() {
                                        match d {
                                            Ok(v) => wrong.push(format!("the image advertises zoom levels {:?} (complete file: {:?}) and answers zoom query {} with {} records instead of refusing it", s.zoom_levels, full.zoom_levels, i, v.len())),
                                            Err(_) => out.count("answers_refused_on_accepted_image", 1),
                                        }
                                    }
                                }
                            }
                            for (i, d) in s.data.iter().enumerate() {
                                if let Ok(v) = d {
                                    if full.data.get(i).map(|f| f.as_ref().ok() != Some(v)).unwrap_or(true) {
                                        wrong.push(format!("chromosome {} serves {} records, complete file serves {:?}", i, v.len(), full.data.get(i).map(|f| f.as_ref().map(|x| x.len()))));
                                    }
                                } else {
                                    out.count("answers_refused_on_accepted_image", 1);
                                }
                            }
                            if s.zoom_levels == full.zoom_levels {
                                for (i, d) in s.zooms.iter().enumerate() {
                                    if let Ok(v) = d {
                                        if full.zooms.get(i).map(|f| f.as_ref().ok() != Some(v)).unwrap_or(true) {
                                            wrong.push(format!("zoom answer {} differs from the complete file's", i));
                                        }
                                    } else {
                                        out.count("answers_refused_on_accepted_image", 1);
                                    }
                                }
                            }
                            if !wrong.is_empty() {
                                out.fail(
                                    "partial_file_accepted_with_data_missing",
                                    &tags,
                                    format!("image after {} of {} operations opens but: {}", k, log.len(), wrong.join("; ")),
                                );
                            }
                        }
                    }
                }
                if accepted == 0 {
                    out.fail("complete_file_rejected", &tags, "no prefix image was accepted".into());
                }
                out.outcome_hash = Some(fnv(&full_img));
            }
            C14Mode::RefusedTool(t) => {
                crate::clifam::c14_tool(t, out);
            }
            C14Mode::PyWrite { fail_after } => {
                let wd = tempfile::tempdir().expect("tempdir");
                let path = wd.path().join(if c.bed { "o.bb" } else { "o.bw" });
                let chroms = json!({"chrA": 1000, "chrB": 1000});
                let entries: Vec<serde_json::Value> = (0..6u32)
                    .map(|i| {
                        let ch = if i < 3 { "chrA" } else { "chrB" };
                        let st = 10 * (i % 3);
                        if c.bed { json!([ch, st, st + 7, format!("n{}", i)]) } else { json!([ch, st, st + 7, i as f64 + 0.5]) }
                    })
                    .collect();
                let req = json!([{"op": "write_fail", "path": path.to_str().unwrap(), "chroms": chroms, "entries": entries, "fail_after": fail_after}]);
                out.count("python_writer_runs", 1);
                match crate::pyfam::py_run(wd.path(), &req) {
                    Err(e) => out.fail("harness_panic", &[], e),
                    Ok(res) => {
                        let r = &res[0];
                        if let Some(d) = r.get("died") {
                            out.fail("python_writer_died", &tags, format!("{}", d));
                            return;
                        }
                        let r = match r.get("ok") {
                            Some(x) => x,
                            None => {
                                out.fail("python_writer_died", &tags, format!("{}", r));
                                return;
                            }
                        };
                        let opened = r["opened"].as_bool().unwrap_or(false);
                        let total: u64 = ["chrA", "chrB"].iter().map(|c| r["counts"][*c].as_u64().unwrap_or(0)).sum();
                        match fail_after {
                            None => {
                                if !opened || total != 6 {
                                    out.fail("write_failed_without_fault", &tags, format!("python writer, no failure: opened {} with {} of 6 records ({})", opened, total, r));
                                }
                            }
                            Some(k) => {
                                out.count("python_writer_runs_with_a_failing_source", 1);
                                // the source failed: whatever is at the path must not pass for a complete file
                                if opened && total != 6 {
                                    out.fail("failed_write_left_an_accepted_partial_file", &tags, format!("python writer, source raised after {} of 6 tuples: the destination opens and serves {} records ({})", k, total, r));
                                } else if !opened {
                                    out.count("python_writer_failures_leaving_a_rejected_file", 1);
                                }
                            }
                        }
                    }
                }
            }
            C14Mode::CrashOver => {
                // the older file: two more items per chromosome, so it is longer and serves other records
                let mut older = c.clone();
                older.items = c.items + 2;
                older.mode = C14Mode::Crash;
                let s_old = Sink::new();
                match c14_run_write(&older, s_old.clone()) {
                    Ok(Ok(())) => {}
                    other => {
                        out.fail("write_failed_without_fault", &tags, format!("older file: {:?}", other));
                        return;
                    }
                }
                let old_img = s_old.bytes();
                let Some(old) = serve(&old_img, c.bed) else {
                    out.fail("complete_file_rejected", &tags, "the older complete image does not open".into());
                    return;
                };
                let s_new = Sink::new();
                let _ = c14_run_write(c, s_new.clone());
                let Some(new) = serve(&s_new.bytes(), c.bed) else {
                    out.fail("complete_file_rejected", &tags, "the complete image does not open".into());
                    return;
                };
                if new == old {
                    out.fail("harness_panic", &[], "older and newer file serve the same content".into());
                    return;
                }
                let sink = Sink::recording_over(&old_img);
                match c14_run_write(c, sink.clone()) {
                    Ok(Ok(())) => {}
                    other => {
                        out.fail("write_failed_without_fault", &tags, format!("{:?}", other));
                        return;
                    }
                }
                let log = sink.log();
                out.count("overwrite_histories", 1);
                match serve(&sink.bytes(), c.bed) {
                    Some(s) if s == new => {}
                    other => out.fail("rewritten_file_wrong", &tags, format!("after rewriting an older file in place the destination serves {:?}", other.map(|s| s.chroms))),
                }
                for k in 0..=log.len() {
                    let img = image_after_over(&old_img, &log, k);
                    out.count("overwrite_crash_points", 1);
                    match serve(&img, c.bed) {
                        None => out.count("images_rejected", 1),
                        Some(s) if s == old => out.count("images_serving_the_older_file", 1),
                        Some(s) if s == new => out.count("images_serving_the_new_file", 1),
                        Some(s) => {
                            // refused answers are fine; a served answer must be the old or the new one
                            let mut wrong = vec![];
                            let which = if s.chroms == new.chroms && s.zoom_levels == new.zoom_levels { Some(&new) } else if s.chroms == old.chroms && s.zoom_levels == old.zoom_levels { Some(&old) } else { None };
                            match which {
                                None => wrong.push(format!("chromosome table {:?} / zoom levels {:?} are neither file's", s.chroms, s.zoom_levels)),
                                Some(w) => {
                                    for (i, d) in s.data.iter().enumerate() {
                                        if let Ok(v) = d {
                                            if w.data.get(i).map(|f| f.as_ref().ok() != Some(v)).unwrap_or(true) {
                                                wrong.push(format!("chromosome {} serves {} records that are neither the older nor the new file's", i, v.len()));
                                            }
                                        }
                                    }
                                    for (i, d) in s.zooms.iter().enumerate() {
                                        if let Ok(v) = d {
                                            if w.zooms.get(i).map(|f| f.as_ref().ok() != Some(v)).unwrap_or(true) {
                                                wrong.push(format!("zoom answer {} is neither file's", i));
                                            }
                                        }
                                    }
                                }
                            }
                            if wrong.is_empty() {
                                out.count("images_partly_refused", 1);
                            } else {
                                out.fail(
                                    "mixture_of_older_and_new_file_accepted",
                                    &tags,
                                    format!("image after {} of {} operations over an older file opens but: {}", k, log.len(), wrong.join("; ")),
                                );
                            }
                        }
                    }
                }
                out.outcome_hash = Some(fnv(&sink.bytes()));
            }
            C14Mode::Sched => {
                use crate::sched::{execute_into, C11Case, Source};
                let cc = C11Case {
                    bed: c.bed,
                    nchrom: c.nchrom,
                    items: c.items,
                    ips: c.opts.ips,
                    source: Source::SerialIter,
                    two_pass: c.opts.two_pass,
                    chan: 100,
                    inmemory: c.opts.inmemory,
                    bound: 1,
                    sweep_threads: None,
                    conv: false,
                    long_rest: 0,
                    cli: false,
                    uncompressed: !c.opts.compress,
                    nonfinite: false,
                };
                tags.push(if c.opts.inmemory { "inmemory".into() } else { "tempfile".into() });
                let nopath = std::path::PathBuf::from("/nonexistent");
                let (r0, good, t0) = execute_into(&cc, &nopath, &[], Rt::Current, Sink::recording());
                if r0.is_err() {
                    out.fail("write_failed_without_fault", &tags, format!("{:?}", r0));
                    return;
                }
                let Some(full) = serve(&good, c.bed) else {
                    out.fail("complete_file_rejected", &tags, "the complete image does not open".into());
                    return;
                };
                out.count("sched_fault_scenarios", 1);
                out.count("hook_occurrences_baseline", t0.len() as u64);
                let mut logs_seen = std::collections::HashSet::new();
                let mut traces_seen = std::collections::HashSet::new();
                // deviation vectors: none, then one yield at every hook occurrence of the default run
                let mut devs: Vec<Vec<usize>> = vec![vec![]];
                devs.extend((0..t0.len()).map(|i| vec![i]));
                if let Some((p, m)) = c.part {
                    devs = devs.into_iter().enumerate().filter(|(i, _)| *i as u32 % m == p).map(|(_, d)| d).collect();
                }
                for d in &devs {
                    let rec = Sink::recording();
                    let (r, b, t) = execute_into(&cc, &nopath, d, Rt::Current, rec.clone());
                    out.count("schedules", 1);
                    traces_seen.insert(fnv(format!("{:?}", t).as_bytes()));
                    if r.is_err() || b != good {
                        // C11's business; here the fault-free run must at least succeed
                        out.fail("write_failed_without_fault", &tags, format!("schedule {:?}: {:?}, bytes equal: {}", d, r, b == good));
                        continue;
                    }
                    let log = rec.log();
                    let n = rec.ops();
                    // (a) crash images of every distinct operation log
                    if logs_seen.insert(fnv(format!("{:?}", log).as_bytes())) {
                        out.count("distinct_operation_logs", 1);
                        for k in 0..=log.len() {
                            let img = image_after(&log, k);
                            out.count("crash_points", 1);
                            match serve(&img, c.bed) {
                                None => out.count("images_rejected", 1),
                                Some(s) => {
                                    out.count("images_accepted", 1);
                                    let ok = s.chroms == full.chroms
                                        && s.zoom_levels == full.zoom_levels
                                        && s.data.iter().enumerate().all(|(i, x)| x.is_err() || full.data.get(i).map(|f| f.as_ref().ok() == x.as_ref().ok()).unwrap_or(false))
                                        && s.zooms.iter().enumerate().all(|(i, x)| x.is_err() || full.zooms.get(i).map(|f| f.as_ref().ok() == x.as_ref().ok()).unwrap_or(false));
                                    if !ok {
                                        out.fail("partial_file_accepted_with_data_missing", &tags, format!("schedule {:?}: image after {} of {} operations opens but serves other content than the complete file", d, k, log.len()));
                                    }
                                }
                            }
                        }
                    }
                    // (b) every operation index fails, once and from then on
                    for mode in [FaultMode::Once, FaultMode::Sticky] {
                        for k in 0..n {
                            let sink = Sink::faulting(k, mode);
                            let (r, _, _) = execute_into(&cc, &nopath, d, Rt::Current, sink.clone());
                            out.count("fault_runs", 1);
                            if sink.faults_injected() == 0 {
                                out.count("fault_position_not_reached_or_not_applicable", 1);
                                continue;
                            }
                            match r {
                                Err(e) if e.starts_with("panic:") => out.count("fault_runs_panicked", 1),
                                Err(_) => out.count("fault_runs_returned_err", 1),
                                Ok(()) => {
                                    let mut t2 = tags.clone();
                                    t2.push(format!("fault_{:?}", mode).to_lowercase());
                                    out.fail(
                                        "io_failure_reported_as_success",
                                        &t2,
                                        format!(
                                            "schedule {:?} (yield at {:?}): destination failed at operation {} of {} ({:?}) but write returned Ok(()); bytes {} the fault-free file",
                                            d,
                                            d.iter().map(|i| t0.get(*i)).collect::<Vec<_>>(),
                                            k,
                                            n,
                                            mode,
                                            if sink.bytes() == good { "equal" } else { "DIFFER from" }
                                        ),
                                    );
                                }
                            }
                        }
                    }
                }
                out.count("distinct_traces", traces_seen.len() as u64);
                out.outcome_hash = Some(fnv(&good) ^ traces_seen.len() as u64);
            }
            C14Mode::Fault(mode) => {
                // fault-free run to learn the number of operations and the expected bytes
                let s0 = Sink::new();
                match c14_run_write(c, s0.clone()) {
                    Ok(Ok(())) => {}
                    other => {
                        out.fail("write_failed_without_fault", &tags, format!("{:?}", other));
                        return;
                    }
                }
                let n = s0.ops();
                let good = s0.bytes();
                out.count("fault_histories", 1);
                tags.push(format!("fault_{:?}", mode).to_lowercase());
                for k in 0..n {
                    let sink = Sink::faulting(k, *mode);
                    let r = c14_run_write(c, sink.clone());
                    out.count("fault_runs", 1);
                    if std::env::var("VH_DEBUG").is_ok() {
                        eprintln!("k={} of {} injected={} result={:?} same_bytes={}", k, n, sink.faults_injected(), r, sink.bytes() == good);
                    }
                    if sink.faults_injected() == 0 {
                        out.count("fault_position_not_reached_or_not_applicable", 1);
                        continue;
                    }
                    match (mode, r) {
                        (_, Err(_)) => out.count("fault_runs_panicked", 1),
                        (_, Ok(Err(_))) => out.count("fault_runs_returned_err", 1),
                        (FaultMode::Short, Ok(Ok(()))) => {
                            if sink.bytes() != good {
                                out.fail("short_write_corrupts_output", &tags, format!("short write at operation {} of {}: write returned Ok but the bytes differ from the fault-free run", k, n));
                            } else {
                                out.count("short_writes_absorbed", 1);
                            }
                        }
                        (_, Ok(Ok(()))) => {
                            let same = sink.bytes() == good;
                            let mut t = tags.clone();
                            if k + 1 == n {
                                t.push("last_operation".into());
                            }
                            out.fail(
                                "io_failure_reported_as_success",
                                &t,
                                format!("destination failed at operation {} of {} ({:?}) but write returned Ok(()); resulting bytes {} the fault-free file", k, n, mode, if same { "equal" } else { "DIFFER from" }),
                            );
                        }
                    }
                }
            }
        }
    }
    fn space(&self, tier: Tier) -> serde_json::Value {
        let q = tier == Tier::Quick;
        json!({
            "histories": "bigWig/bigBed x {1,2} chromosomes x option list (pass x zooms kept/none x compression [x items_per_slot, inmemory]) with 3 items per chromosome, plus 1500-item uncompressed histories (> 8 KiB per chromosome)",
            "option_sets": c14_opts(q).len(),
            "crash_points": "every prefix of the recorded write/seek/flush log",
            "fault_modes": if q { vec!["once", "sticky"] } else { vec!["once", "sticky", "short write"] },
            "fault_positions": "every operation index of the fault-free run",
            "refused_inputs": 7 * 2 * 2,
        })
    }
    fn case_cap_s(&self) -> u64 {
        120
    }
}
