//! Supervised, partitioned, exhaustive enumeration.
//!
//! Every check is `cases(tier)` (a deterministic, finite enumerator, simplest case first) plus
//! `run(case)`.  A worker process handles the cases whose canonical hash falls in its partition,
//! so the union over workers is the whole space and duplicates land in one worker (the per-worker
//! distinct counts add up exactly).  A watchdog thread turns an over-long case into a `hang`
//! failure, prints what was accumulated so far and exits with status 3 so that the parent can
//! respawn the worker *after* the offending case.  The parent also reads the progress file to
//! attribute an abort (allocation failure, stack overflow) to a case.
use serde::{de::DeserializeOwned, Serialize};
use serde_json::{json, Value as J};
use std::collections::{BTreeMap, HashSet};
use std::io::Write;
use std::os::unix::fs::FileExt;
use std::panic::{catch_unwind, AssertUnwindSafe};
use std::sync::{Arc, Mutex};
use std::time::{Duration, Instant};

#[derive(Clone, Copy, PartialEq, Eq, Debug)]
pub enum Tier {
    Quick,
    Thorough,
}

#[derive(Clone, Debug, Serialize)]
pub struct Fail {
    pub kind: String,
    pub tags: Vec<String>,
    pub detail: String,
}

#[derive(Default)]
pub struct Outcome {
    pub fails: Vec<Fail>,
    pub counters: BTreeMap<String, u64>,
    pub nontrivial: bool,
    /// observable outcome fingerprint (used to count distinct outcomes)
    pub outcome_hash: Option<u64>,
}

impl Outcome {
    pub fn fail(&mut self, kind: &str, tags: &[String], detail: String) {
        if self.fails.len() < 8 {
            self.fails.push(Fail {
                kind: kind.to_string(),
                tags: tags.to_vec(),
                detail,
            });
        } else {
            self.count("fails_dropped_in_case", 1);
        }
    }
    pub fn count(&mut self, name: &str, n: u64) {
        *self.counters.entry(name.to_string()).or_insert(0) += n;
    }
}

pub trait Check {
    type Case: Serialize + DeserializeOwned + Clone;
    fn id(&self) -> &'static str;
    /// Deterministic, complete enumeration of the stated space for the tier.
    fn cases(&self, tier: Tier) -> Box<dyn Iterator<Item = Self::Case> + '_>;
    fn run(&self, case: &Self::Case, out: &mut Outcome);
    /// Human-readable description of the space (dimension sizes) for the evidence file.
    fn space(&self, tier: Tier) -> J;
    /// Per-case wall cap in seconds.
    fn case_cap_s(&self) -> u64 {
        20
    }
}

pub fn fnv(s: &[u8]) -> u64 {
    let mut h: u64 = 0xcbf29ce484222325;
    for b in s {
        h ^= *b as u64;
        h = h.wrapping_mul(0x100000001b3);
    }
    // final avalanche so that `% n` partitions evenly
    h ^= h >> 33;
    h = h.wrapping_mul(0xff51afd7ed558ccd);
    h ^= h >> 33;
    h
}

#[derive(Default)]
struct Stats {
    evaluations: u64,
    nontrivial_hashes: HashSet<u64>,
    outcome_hashes: HashSet<u64>,
    counters: BTreeMap<String, u64>,
    fails_total: u64,
    fail_classes: BTreeMap<String, u64>,
    samples: Vec<J>,
    panics: u64,
}

struct Slot {
    idx: u64,
    started: Instant,
    case_json: String,
    active: bool,
}

pub struct Args {
    pub tier: Tier,
    pub part: (u64, u64),
    pub resume: u64,
    pub progress: Option<String>,
    pub replay: Option<String>,
    pub seed: u64,
    pub list: bool,
    pub describe: Option<u64>,
}

fn emit(line: &str) {
    let out = std::io::stdout();
    let mut l = out.lock();
    let _ = writeln!(l, "{}", line);
    let _ = l.flush();
}

fn summary_json(st: &Stats, done: bool, next_idx: u64) -> J {
    json!({
        "evaluations": st.evaluations,
        "nontrivial": st.nontrivial_hashes.len(),
        "distinct_outcomes": st.outcome_hashes.len(),
        "counters": st.counters,
        "fails_total": st.fails_total,
        "fail_classes": st.fail_classes,
        "panics": st.panics,
        "samples": st.samples,
        "done": done,
        "next_idx": next_idx,
    })
}

pub fn run_check<C: Check>(chk: &C, args: &Args) -> i32 {
    // silence the default panic message: panics are caught and reported as failures
    std::panic::set_hook(Box::new(|_| {}));

    if let Some(path) = &args.replay {
        let txt = std::fs::read_to_string(path).expect("read replay file");
        let v: J = serde_json::from_str(&txt).expect("replay json");
        let case_v = v.get("case").cloned().unwrap_or(v.clone());
        let case: C::Case = serde_json::from_value(case_v).expect("replay case shape");
        let mut out = Outcome::default();
        let r = catch_unwind(AssertUnwindSafe(|| chk.run(&case, &mut out)));
        if let Err(p) = r {
            out.fail("harness_panic", &[], panic_msg(&p));
        }
        for f in &out.fails {
            emit(&format!("FAIL {}", json!({"property": chk.id(), "fail": f})));
        }
        emit(&format!(
            "REPLAY property={} fails={}",
            chk.id(),
            out.fails.len()
        ));
        return if out.fails.is_empty() { 0 } else { 1 };
    }

    if let Some(k) = args.describe {
        if let Some(c) = chk.cases(args.tier).nth(k as usize) {
            emit(&format!("CASE {}", serde_json::to_string(&c).unwrap()));
        }
        return 0;
    }

    if args.list {
        let mut n = 0u64;
        for c in chk.cases(args.tier) {
            if n < 20 {
                emit(&serde_json::to_string(&c).unwrap());
            }
            n += 1;
        }
        emit(&format!("TOTAL {}", n));
        return 0;
    }

    let stats = Arc::new(Mutex::new(Stats::default()));
    let slot = Arc::new(Mutex::new(Slot {
        idx: 0,
        started: Instant::now(),
        case_json: String::new(),
        active: false,
    }));
    let cap = Duration::from_secs(chk.case_cap_s());
    {
        let stats = stats.clone();
        let slot = slot.clone();
        let id = chk.id();
        std::thread::spawn(move || loop {
            std::thread::sleep(Duration::from_millis(100));
            let (hang, idx, cj) = {
                let s = slot.lock().unwrap();
                (
                    s.active && s.started.elapsed() > cap,
                    s.idx,
                    s.case_json.clone(),
                )
            };
            if hang {
                let case: J = serde_json::from_str(&cj).unwrap_or(J::Null);
                let f = Fail {
                    kind: "hang".into(),
                    tags: vec![],
                    detail: format!("case did not finish within {} s", cap.as_secs()),
                };
                emit(&format!(
                    "FAIL {}",
                    json!({"property": id, "idx": idx, "case": case, "fail": f})
                ));
                let st = stats.lock().unwrap();
                emit(&format!("SUMMARY {}", summary_json(&st, false, idx + 1)));
                unsafe { libc::_exit(3) };
            }
        });
    }
    let progress = args
        .progress
        .as_ref()
        .map(|p| std::fs::OpenOptions::new().create(true).write(true).open(p).unwrap());

    let (pi, pn) = args.part;
    let mut idx: u64 = 0;
    for case in chk.cases(args.tier) {
        let my_idx = idx;
        idx += 1;
        if my_idx < args.resume {
            continue;
        }
        let cj = serde_json::to_string(&case).unwrap();
        let h = fnv(cj.as_bytes());
        if h % pn != pi {
            continue;
        }
        if let Some(f) = &progress {
            let _ = f.write_all_at(&my_idx.to_le_bytes(), 0);
        }
        {
            let mut s = slot.lock().unwrap();
            s.idx = my_idx;
            s.started = Instant::now();
            s.case_json.clear();
            s.case_json.push_str(&cj);
            s.active = true;
        }
        let mut out = Outcome::default();
        let t_case = Instant::now();
        let r = catch_unwind(AssertUnwindSafe(|| chk.run(&case, &mut out)));
        slot.lock().unwrap().active = false;
        if std::env::var("VH_TIMES").is_ok() && t_case.elapsed() > Duration::from_millis(300) {
            eprintln!("TIME part {} idx {} {} ms {}", pi, my_idx, t_case.elapsed().as_millis(), &cj[..cj.len().min(200)]);
        }
        let mut st = stats.lock().unwrap();
        if let Err(p) = r {
            // a panic that escaped the check's own catch_unwind around the subject is a
            // harness problem, reported as such (never a verdict)
            st.panics += 1;
            out.fail("harness_panic", &[], panic_msg(&p));
        }
        st.evaluations += 1;
        if out.nontrivial {
            st.nontrivial_hashes.insert(h);
        }
        if let Some(oh) = out.outcome_hash {
            st.outcome_hashes.insert(oh);
        }
        for (k, v) in &out.counters {
            *st.counters.entry(k.clone()).or_insert(0) += v;
        }
        if st.samples.len() < 3 && out.nontrivial {
            st.samples.push(serde_json::from_str(&cj).unwrap());
        }
        for f in &out.fails {
            st.fails_total += 1;
            // every failure class (kind + tags) is counted; the first 25 of each class per
            // worker are printed in full, so a frequent class can never hide a rare one
            let key = format!("{}|{}", f.kind, f.tags.join(","));
            let n = st.fail_classes.entry(key).or_insert(0);
            *n += 1;
            if *n <= 25 {
                let case_v: J = serde_json::from_str(&cj).unwrap();
                emit(&format!(
                    "FAIL {}",
                    json!({"property": chk.id(), "idx": my_idx, "case": case_v, "fail": f})
                ));
            }
        }
    }
    let st = stats.lock().unwrap();
    emit(&format!("SUMMARY {}", summary_json(&st, true, idx)));
    emit(&format!("SPACE {}", chk.space(args.tier)));
    0
}

pub fn panic_msg(p: &Box<dyn std::any::Any + Send>) -> String {
    if let Some(s) = p.downcast_ref::<&str>() {
        s.to_string()
    } else if let Some(s) = p.downcast_ref::<String>() {
        s.clone()
    } else {
        "panic (non-string payload)".to_string()
    }
}

/// Run the subject under catch_unwind; a panic becomes Err(message).
pub fn guarded<T>(f: impl FnOnce() -> T) -> Result<T, String> {
    catch_unwind(AssertUnwindSafe(f)).map_err(|p| panic_msg(&p))
}

pub fn parse_args(argv: &[String]) -> Args {
    let mut a = Args {
        tier: Tier::Quick,
        part: (0, 1),
        resume: 0,
        progress: None,
        replay: None,
        seed: 0,
        list: false,
        describe: None,
    };
    let mut i = 0;
    while i < argv.len() {
        match argv[i].as_str() {
            "--tier" => {
                i += 1;
                a.tier = if argv[i] == "thorough" {
                    Tier::Thorough
                } else {
                    Tier::Quick
                };
            }
            "--part" => {
                i += 1;
                let (x, y) = argv[i].split_once('/').expect("--part i/n");
                a.part = (x.parse().unwrap(), y.parse().unwrap());
            }
            "--resume" => {
                i += 1;
                a.resume = argv[i].parse().unwrap();
            }
            "--progress" => {
                i += 1;
                a.progress = Some(argv[i].clone());
            }
            "--replay" => {
                i += 1;
                a.replay = Some(argv[i].clone());
            }
            "--seed" => {
                i += 1;
                a.seed = argv[i].parse().unwrap_or(0);
            }
            "--list" => a.list = true,
            "--describe" => {
                i += 1;
                a.describe = Some(argv[i].parse().unwrap());
            }
            other => panic!("unknown argument {}", other),
        }
        i += 1;
    }
    a
}
