//! Query-side checks: C03 (bigWig range queries + histories), C04 (bigBed range queries),
//! C05 (R-tree = linear scan for every tree shape).
use crate::drive::*;
use crate::indep;
use crate::model::*;
use crate::refm::*;
use crate::sup::*;
use crate::wfam::{do_write_bed, do_write_wig};
use bigtools::utils::reopen::Reopen;
use bigtools::{BigBedRead, BigWigRead};
use serde::{Deserialize, Serialize};
use serde_json::json;
use std::io::{self, Cursor, Read, Seek, SeekFrom};
use std::sync::Arc;

/// In-memory file that can be reopened (independent cursor on the same bytes).
pub struct MemFile {
    pub data: Arc<Vec<u8>>,
    pub pos: u64,
}
impl MemFile {
    pub fn new(b: &[u8]) -> MemFile {
        MemFile {
            data: Arc::new(b.to_vec()),
            pos: 0,
        }
    }
}
impl Read for MemFile {
    fn read(&mut self, buf: &mut [u8]) -> io::Result<usize> {
        let p = (self.pos as usize).min(self.data.len());
        let n = buf.len().min(self.data.len() - p);
        buf[..n].copy_from_slice(&self.data[p..p + n]);
        self.pos += n as u64;
        Ok(n)
    }
}
impl Seek for MemFile {
    fn seek(&mut self, to: SeekFrom) -> io::Result<u64> {
        let n = match to {
            SeekFrom::Start(p) => p as i128,
            SeekFrom::Current(d) => self.pos as i128 + d as i128,
            SeekFrom::End(d) => self.data.len() as i128 + d as i128,
        };
        if n < 0 {
            return Err(io::Error::new(io::ErrorKind::InvalidInput, "negative seek"));
        }
        self.pos = n as u64;
        Ok(self.pos)
    }
}
impl Reopen for MemFile {
    fn reopen(&self) -> io::Result<Self> {
        Ok(MemFile {
            data: self.data.clone(),
            pos: 0,
        })
    }
}

/// In-memory file whose `read` stops at every multiple of `page` bytes (a legal short read: a paged
/// or chunked source, a socket, a Python file-like object): callers must loop or use read_exact.
pub struct PagedMem {
    pub inner: MemFile,
    pub page: u64,
}
impl PagedMem {
    pub fn new(b: &[u8], page: u64) -> PagedMem {
        PagedMem { inner: MemFile::new(b), page }
    }
}
impl Read for PagedMem {
    fn read(&mut self, buf: &mut [u8]) -> io::Result<usize> {
        let room = (self.page - self.inner.pos % self.page) as usize;
        let n = buf.len().min(room);
        self.inner.read(&mut buf[..n])
    }
}
impl Seek for PagedMem {
    fn seek(&mut self, to: SeekFrom) -> io::Result<u64> {
        self.inner.seek(to)
    }
}

/// In-memory file whose k-th read/seek (counted from the last `arm`) fails once with an I/O error.
/// The control block is shared with the harness so that it can arm, disarm and count.
#[derive(Default)]
pub struct FaultCtl {
    pub ops: std::sync::atomic::AtomicU64,
    /// u64::MAX = disarmed
    pub fail_at: std::sync::atomic::AtomicU64,
    pub fired: std::sync::atomic::AtomicU64,
}
impl FaultCtl {
    pub fn arm(&self, k: u64) {
        use std::sync::atomic::Ordering::SeqCst;
        self.ops.store(0, SeqCst);
        self.fired.store(0, SeqCst);
        self.fail_at.store(k, SeqCst);
    }
    pub fn disarm(&self) {
        self.fail_at.store(u64::MAX, std::sync::atomic::Ordering::SeqCst);
    }
    fn step(&self) -> io::Result<()> {
        use std::sync::atomic::Ordering::SeqCst;
        let n = self.ops.fetch_add(1, SeqCst);
        if n == self.fail_at.load(SeqCst) {
            self.fired.fetch_add(1, SeqCst);
            return Err(io::Error::new(io::ErrorKind::Other, "injected read fault"));
        }
        Ok(())
    }
}
pub struct FaultyMem {
    pub inner: MemFile,
    pub ctl: Arc<FaultCtl>,
}
impl Read for FaultyMem {
    fn read(&mut self, buf: &mut [u8]) -> io::Result<usize> {
        self.ctl.step()?;
        self.inner.read(buf)
    }
}
impl Seek for FaultyMem {
    fn seek(&mut self, to: SeekFrom) -> io::Result<u64> {
        self.ctl.step()?;
        self.inner.seek(to)
    }
}

// ---------------------------------------------------------------------------------------------
// C03

#[derive(Clone, Debug, Serialize, Deserialize)]
pub enum C03Case {
    /// all 153 ranges x access paths on one file
    Ranges(WigCase),
    /// all query sequences of length <= depth over the boundary alphabet on one reader instance
    Histories { file: WigCase, depth: usize, cached: bool },
    /// n one-item blocks through the caching reader: crosses the 5000-entry cache reset
    CacheReset { n: u32 },
    /// readers obtained by `reopen()` from one reader over a real file (ReopenableFile), each used
    /// by its own OS thread at the same time (supplementary sampling over OS schedules: the readers
    /// must not share a file cursor or any other state)
    ReopenThreads { threads: usize, compress: bool, cached: bool },
    /// chromosomes as long as u32 allows (items at 0, around 2^31 and at the very end): boundary
    /// alphabet ranges through the plain, caching and by-value paths
    Huge { ips: u32, bs: u32, compress: bool },
    /// the Python binding's records() (by path and from a file object) against the library's range
    /// query on the same file: every range of a small multi-chromosome file / a boundary alphabet
    /// on the u32-limit file, arguments given, absent and one-sided
    Py { huge: bool },
    /// one data block with `n` items (items_per_slot >= n): item offsets inside a block beyond
    /// 16-bit products (5 462 x 12 bytes = 65 544) and counts near the u16 limit
    BigSection { n: u32, compress: bool },
}

pub struct C03;

type Triple = (u32, u32, u32);

fn ref_interval(ch: &WChrom, s: u32, e: u32) -> Vec<Triple> {
    ch.items
        .iter()
        .filter(|i| i.e > i.s && i.e > s && i.s < e)
        .map(|i| (i.s.max(s), i.e.min(e), i.vb))
        .collect()
}

/// Remove from an answer the stored zero-length values lying in [s, e] (don't-care).
fn drop_zero_len(ch: &WChrom, s: u32, e: u32, got: Vec<Triple>) -> Vec<Triple> {
    got.into_iter()
        .filter(|g| {
            !(g.0 == g.1
                && g.0 >= s
                && g.0 <= e
                && ch.items.iter().any(|i| i.s == i.e && i.s == g.0 && i.vb == g.2))
        })
        .collect()
}

fn collect_wig<I: Iterator<Item = Result<bigtools::Value, bigtools::BBIReadError>>>(
    it: I,
) -> Result<Vec<Triple>, String> {
    let mut v = vec![];
    for x in it {
        let x = x.map_err(|e| format!("{}", e))?;
        v.push((x.start, x.end, x.value.to_bits()));
    }
    Ok(v)
}

/// The same answer consumed another way: `k` items with `next()`, the rest through the iterator's
/// `fold` (which `for_each`, `count`, `last`, `sum` ... are built on and which a type may override).
fn collect_folding<T, U, I: Iterator<Item = Result<T, bigtools::BBIReadError>>>(mut it: I, k: usize, conv: impl Fn(T) -> U) -> Result<Vec<U>, String> {
    let mut v = vec![];
    for _ in 0..k {
        match it.next() {
            None => return Ok(v),
            Some(x) => v.push(conv(x.map_err(|e| format!("{}", e))?)),
        }
    }
    let mut err = None;
    it.for_each(|x| match x {
        Ok(x) => v.push(conv(x)),
        Err(e) => err = Some(format!("{}", e)),
    });
    match err {
        Some(e) => Err(e),
        None => Ok(v),
    }
}

/// The same answer consumed through the adaptors built on `Iterator::nth` (which a type may override):
/// `pattern` 0 = repeated nth(0), 1 = repeated nth(1) (every second item), 2 = skip(2) then next().
/// Returns the items delivered; `expected_of` says which items of the full answer that must be.
fn collect_nth<T, U, I: Iterator<Item = Result<T, bigtools::BBIReadError>>>(mut it: I, pattern: usize, conv: impl Fn(T) -> U) -> Result<Vec<U>, String> {
    let mut v = vec![];
    match pattern {
        0 | 1 => {
            while let Some(x) = it.nth(pattern) {
                v.push(conv(x.map_err(|e| format!("{}", e))?));
            }
        }
        _ => {
            for x in it.skip(2) {
                v.push(conv(x.map_err(|e| format!("{}", e))?));
            }
        }
    }
    Ok(v)
}
fn expected_of<U: Clone>(full: &[U], pattern: usize) -> Vec<U> {
    match pattern {
        0 => full.to_vec(),
        1 => full.iter().skip(1).step_by(2).cloned().collect(),
        _ => full.iter().skip(2).cloned().collect(),
    }
}

fn cmp_answer(
    path: &str,
    ch: &WChrom,
    s: u32,
    e: u32,
    got: Result<Vec<Triple>, String>,
    tags: &[String],
    out: &mut Outcome,
) {
    match got {
        Err(err) => out.fail(
            "query_error",
            tags,
            format!("{} {} [{},{}): {}", path, ch.name, s, e, err),
        ),
        Ok(g) => {
            if s == e {
                out.count("dont_care_empty_range_queries", 1);
                return;
            }
            let g = drop_zero_len(ch, s, e, g);
            let want = ref_interval(ch, s, e);
            if g != want {
                out.fail(
                    "range_query_mismatch",
                    tags,
                    format!(
                        "{} {} [{},{}): got {:?}, expected {:?}",
                        path, ch.name, s, e, g, want
                    ),
                );
            }
        }
    }
}

fn cmp_values(
    path: &str,
    ch: &WChrom,
    s: u32,
    e: u32,
    got: Result<Vec<f32>, String>,
    tags: &[String],
    out: &mut Outcome,
) {
    let pb = wig_per_base(ch);
    match got {
        Err(err) => out.fail(
            "query_error",
            tags,
            format!("{} values {} [{},{}): {}", path, ch.name, s, e, err),
        ),
        Ok(v) => {
            let want: Vec<Option<f32>> = pb[s as usize..e as usize].to_vec();
            let ok = v.len() == want.len()
                && v.iter().zip(want.iter()).all(|(g, w)| match w {
                    None => g.is_nan(),
                    Some(w) => g.to_bits() == w.to_bits(),
                });
            if !ok {
                out.fail(
                    "values_mismatch",
                    tags,
                    format!(
                        "{} values {} [{},{}): got {:?}, expected {:?}",
                        path, ch.name, s, e, v, want
                    ),
                );
            }
        }
    }
}

fn c03_ranges(c: &WigCase, bytes: &[u8], out: &mut Outcome) {
    let tags = wig_tags(c);
    let r = guarded(|| {
        let open = || BigWigRead::open(MemFile::new(bytes)).map_err(|e| format!("{}", e));
        let mut plain = match open() {
            Ok(r) => r,
            Err(e) => {
                out.fail("open_failed", &tags, e);
                return;
            }
        };
        let mut cached = open().unwrap().cached();
        let mut reopened = plain.reopen().unwrap();
        let mut cached_reopened = cached.reopen().unwrap();
        for ch in &c.chroms {
            for s in 0..=ch.len {
                for e in s..=ch.len {
                    out.count("range_queries", 5);
                    let g = plain
                        .get_interval(&ch.name, s, e)
                        .map_err(|e| format!("{}", e))
                        .and_then(collect_wig);
                    cmp_answer("plain", ch, s, e, g, &tags, out);
                    // ... and with the first 0 / 1 / 2 items taken by next() and the rest by for_each
                    let k = ((s + 2 * e) % 3) as usize;
                    let g = plain.get_interval(&ch.name, s, e).map_err(|e| format!("{}", e)).and_then(|it| collect_folding(it, k, |x: bigtools::Value| (x.start, x.end, x.value.to_bits())));
                    cmp_answer("plain, next() then for_each", ch, s, e, g, &tags, out);
                    let g = open().and_then(|r| r.get_interval_move(&ch.name, s, e).map_err(|e| format!("{}", e))).and_then(|it| collect_folding(it, (k + 1) % 3, |x: bigtools::Value| (x.start, x.end, x.value.to_bits())));
                    cmp_answer("move, next() then for_each", ch, s, e, g, &tags, out);
                    out.count("range_queries_consumed_through_fold", 2);
                    // ... and through nth / skip, against the answer of the plain loop
                    if let Ok(full) = plain.get_interval(&ch.name, s, e).map_err(|e| format!("{}", e)).and_then(collect_wig) {
                        let pattern = ((s + e) % 3) as usize;
                        let conv = |x: bigtools::Value| (x.start, x.end, x.value.to_bits());
                        // count() and last() called on the iterator itself (a type may override either)
                        if let (Ok(a), Ok(b)) = (plain.get_interval(&ch.name, s, e).map(|it| it.count()), cached.get_interval(&ch.name, s, e).map(|it| it.last().and_then(|x| x.ok()).map(conv))) {
                            out.count("range_queries_consumed_through_count_and_last", 1);
                            if a != full.len() || b != full.last().cloned() {
                                out.fail("answer_depends_on_how_the_iterator_is_consumed", &tags, format!("{} [{},{}): count() {} and last() {:?}, the plain loop gives {:?}", ch.name, s, e, a, b, full));
                            }
                        }
                        for (what, got) in [
                            ("plain", plain.get_interval(&ch.name, s, e).map_err(|e| format!("{}", e)).and_then(|it| collect_nth(it, pattern, conv))),
                            ("cached", cached.get_interval(&ch.name, s, e).map_err(|e| format!("{}", e)).and_then(|it| collect_nth(it, (pattern + 1) % 3, conv))),
                        ] {
                            let pat = if what == "plain" { pattern } else { (pattern + 1) % 3 };
                            out.count("range_queries_consumed_through_nth", 1);
                            if got.as_ref().ok() != Some(&expected_of(&full, pat)) {
                                out.fail("answer_depends_on_how_the_iterator_is_consumed", &tags, format!("{} reader, {} [{},{}) consumed with {}: {:?}, the plain loop gives {:?}", what, ch.name, s, e, ["nth(0)", "nth(1)", "skip(2)"][pat], got, full));
                            }
                        }
                    }
                    let g = cached
                        .get_interval(&ch.name, s, e)
                        .map_err(|e| format!("{}", e))
                        .and_then(collect_wig);
                    cmp_answer("cached", ch, s, e, g, &tags, out);
                    let g = reopened
                        .get_interval(&ch.name, s, e)
                        .map_err(|e| format!("{}", e))
                        .and_then(collect_wig);
                    cmp_answer("reopened", ch, s, e, g, &tags, out);
                    let g = cached_reopened
                        .get_interval(&ch.name, s, e)
                        .map_err(|e| format!("{}", e))
                        .and_then(collect_wig);
                    cmp_answer("cached+reopened", ch, s, e, g, &tags, out);
                    // by-value iterator on a fresh reader
                    let g = open()
                        .and_then(|r| r.get_interval_move(&ch.name, s, e).map_err(|e| format!("{}", e)))
                        .and_then(collect_wig);
                    cmp_answer("move", ch, s, e, g, &tags, out);
                    let v = plain.values(&ch.name, s, e).map_err(|e| format!("{}", e));
                    cmp_values("plain", ch, s, e, v, &tags, out);
                    let v = cached.values(&ch.name, s, e).map_err(|e| format!("{}", e));
                    cmp_values("cached", ch, s, e, v, &tags, out);
                }
            }
            // ranges reaching beyond the chromosome end (bases there hold nothing) and a query on a
            // chromosome the file does not have (an error), after which the same readers must
            // still answer correctly
            let l = ch.len;
            for s in [0, l.saturating_sub(1), l, l + 2] {
                for e in [l + 1, l + 5, u32::MAX] {
                    out.count("range_queries_beyond_the_chromosome_end", 3);
                    let g = plain.get_interval(&ch.name, s, e).map_err(|e| format!("{}", e)).and_then(collect_wig);
                    cmp_answer("plain", ch, s, e, g, &tags, out);
                    let g = cached.get_interval(&ch.name, s, e).map_err(|e| format!("{}", e)).and_then(collect_wig);
                    cmp_answer("cached", ch, s, e, g, &tags, out);
                    let g = open().and_then(|r| r.get_interval_move(&ch.name, s, e).map_err(|e| format!("{}", e))).and_then(collect_wig);
                    cmp_answer("move", ch, s, e, g, &tags, out);
                }
            }
            for (what, rd_err) in [("plain", plain.get_interval("no_such_chromosome", 0, 5).is_err()), ("cached", cached.get_interval("no_such_chromosome", 0, 5).is_err())] {
                out.count("queries_on_an_absent_chromosome", 1);
                if !rd_err {
                    out.fail("absent_chromosome_query_answered", &tags, format!("{} reader answered a query on a chromosome the file does not have", what));
                }
            }
            let g = plain.get_interval(&ch.name, 0, l).map_err(|e| format!("{}", e)).and_then(collect_wig);
            cmp_answer("plain after a refused query", ch, 0, l, g, &tags, out);
            let g = cached.get_interval(&ch.name, 0, l).map_err(|e| format!("{}", e)).and_then(collect_wig);
            cmp_answer("cached after a refused query", ch, 0, l, g, &tags, out);
        }
    });
    if let Err(p) = r {
        out.fail("read_panicked", &tags, p);
    }
}

/// boundary-focused query alphabet: ranges built from {0, item starts/ends +-1, len}
fn query_alphabet(ch: &WChrom, max: usize) -> Vec<(u32, u32)> {
    let mut pts = std::collections::BTreeSet::new();
    pts.insert(0);
    pts.insert(ch.len);
    for i in &ch.items {
        for p in [i.s, i.e] {
            pts.insert(p);
            if p > 0 {
                pts.insert(p - 1);
            }
            if p < ch.len {
                pts.insert(p + 1);
            }
        }
    }
    let pts: Vec<u32> = pts.into_iter().collect();
    let mut q = vec![];
    // full span, then ranges between neighbouring points, then every 3rd pair
    q.push((0, ch.len));
    for w in pts.windows(2) {
        q.push((w[0], w[1]));
    }
    for i in 0..pts.len() {
        for j in (i + 2..pts.len()).step_by(3) {
            q.push((pts[i], pts[j]));
        }
    }
    q.truncate(max);
    q
}

fn c03_histories(c: &WigCase, depth: usize, cached: bool, bytes: &[u8], out: &mut Outcome) {
    let tags = wig_tags(c);
    let r = guarded(|| {
        // queries over all chromosomes
        let mut alpha: Vec<(usize, u32, u32)> = vec![];
        for (ci, ch) in c.chroms.iter().enumerate() {
            for (s, e) in query_alphabet(ch, if c.chroms.len() > 1 { 8 } else { 16 }) {
                alpha.push((ci, s, e));
            }
        }
        // zoom queries are operations of the history too (a reader caches index roots per kind);
        // encoded as chromosome index + 1000, answered against a fresh reader's answer
        let levels: Vec<u32> = BigWigRead::open(Cursor::new(bytes.to_vec())).map(|r| r.info().zoom_headers.iter().map(|z| z.reduction_level).collect()).unwrap_or_default();
        let mut fresh_zoom: std::collections::HashMap<(usize, u32, u32), Result<Vec<(u32, u32)>, String>> = std::collections::HashMap::new();
        if let Some(&lv) = levels.first() {
            for (ci, ch) in c.chroms.iter().enumerate() {
                for (s, e) in [(0u32, ch.len), (3, 9)] {
                    let mut fr = BigWigRead::open(Cursor::new(bytes.to_vec())).unwrap();
                    let ans = fr.get_zoom_interval(&ch.name, s, e, lv).map_err(|e| format!("{}", e)).and_then(|it| it.map(|z| z.map(|z| (z.start, z.end)).map_err(|e| format!("{}", e))).collect::<Result<Vec<_>, _>>());
                    fresh_zoom.insert((ci, s, e), ans);
                    alpha.push((ci + 1000, s, e));
                }
            }
            out.count("history_zoom_operations", fresh_zoom.len() as u64);
        }
        // operations that leave the reader in the middle of something: an iterator advanced by one
        // item and dropped (chromosome index + 2000), and a query that is refused (absent
        // chromosome, 3000); the queries after them must answer as on a fresh reader
        for (ci, ch) in c.chroms.iter().enumerate() {
            alpha.push((ci + 2000, 0, ch.len));
        }
        alpha.push((3000, 0, 5));
        // calls that use the underlying source behind the cache's back (the summary, the item
        // count and the schema are read through `raw_reader`), 4000; and `reopen()`: the history
        // continues on the reopened reader (which inherits the caches but is a fresh source), 5000
        alpha.push((4000, 0, 0));
        alpha.push((5000, 0, 0));
        out.count("history_alphabet_size", alpha.len() as u64);
        // enumerate all sequences of length exactly `depth` (prefixes cover shorter ones)
        let fresh_meta = {
            let mut rd = BigWigRead::open(MemFile::new(bytes)).unwrap();
            rd.get_summary().map(|x| format!("{:?}", x)).map_err(|e| format!("{}", e))
        };
        let n = alpha.len();
        let total = n.pow(depth as u32);
        let mut states = std::collections::HashSet::new();
        let mut seqs: Vec<Vec<(usize, u32, u32)>> = vec![];
        for code in 0..total {
            let mut seq = vec![];
            let mut x = code;
            for _ in 0..depth {
                seq.push(alpha[x % n]);
                x /= n;
            }
            seqs.push(seq);
        }
        if depth < 3 {
            // sandwiches: query, one operation that is not a range query, query -- every such triple
            let plain: Vec<(usize, u32, u32)> = alpha.iter().filter(|a| a.0 < 2000).cloned().collect();
            let special: Vec<(usize, u32, u32)> = alpha.iter().filter(|a| a.0 >= 1000).cloned().collect();
            for a in &plain {
                for m in &special {
                    for b in &plain {
                        seqs.push(vec![*a, *m, *b]);
                    }
                }
            }
            out.count("history_sandwiches", (plain.len() * special.len() * plain.len()) as u64);
        }
        let total = seqs.len();
        for seq in seqs {
            // one reader instance per history
            let mut answers: Vec<Vec<Triple>> = vec![];
            macro_rules! run {
                ($rd:expr) => {{
                    for (ci, s, e) in &seq {
                        if *ci >= 5000 {
                            match $rd.reopen() {
                                Ok(r2) => $rd = r2,
                                Err(e) => out.fail("reopen_failed", &tags, format!("history {:?}: {}", seq, e)),
                            }
                            out.count("history_reopens", 1);
                            continue;
                        }
                        if *ci >= 4000 {
                            let got = $rd.get_summary().map(|x| format!("{:?}", x)).map_err(|e| format!("{}", e));
                            if got != fresh_meta {
                                out.fail("metadata_depends_on_history", &tags, format!("history {:?}: {:?}, a fresh reader gives {:?}", seq, got, fresh_meta));
                            }
                            out.count("history_metadata_calls", 1);
                            continue;
                        }
                        if *ci >= 3000 {
                            if $rd.get_interval("no_such_chromosome", *s, *e).is_ok() {
                                out.fail("absent_chromosome_answered", &tags, format!("history {:?}", seq));
                            }
                            out.count("history_refused_operations", 1);
                            continue;
                        }
                        if *ci >= 2000 {
                            let ch = &c.chroms[*ci - 2000];
                            if let Ok(mut it) = $rd.get_interval(&ch.name, *s, *e) {
                                let _ = it.next();
                            }
                            out.count("history_abandoned_iterators", 1);
                            continue;
                        }
                        if *ci >= 1000 {
                            let ch = &c.chroms[*ci - 1000];
                            let lv = levels[0];
                            let got = $rd.get_zoom_interval(&ch.name, *s, *e, lv).map_err(|e| format!("{}", e)).and_then(|it| it.map(|z| z.map(|z| (z.start, z.end)).map_err(|e| format!("{}", e))).collect::<Result<Vec<_>, _>>());
                            let want = fresh_zoom.get(&(*ci - 1000, *s, *e)).unwrap();
                            if got != *want {
                                out.fail("zoom_answer_depends_on_history", &tags, format!("history {:?}: zoom query {} [{},{}) gives {:?}, a fresh reader gives {:?}", seq, ch.name, s, e, got, want));
                            }
                            continue;
                        }
                        let ch = &c.chroms[*ci];
                        let g = $rd
                            .get_interval(&ch.name, *s, *e)
                            .map_err(|e| format!("{}", e))
                            .and_then(collect_wig);
                        if let Ok(v) = &g {
                            answers.push(v.clone());
                        }
                        cmp_answer(
                            &format!("history {:?}", seq),
                            ch,
                            *s,
                            *e,
                            g,
                            &tags,
                            out,
                        );
                        // interleave a values() call: it moves the underlying cursor too
                        let v = $rd.values(&ch.name, *s, *e).map_err(|e| format!("{}", e));
                        cmp_values(&format!("history {:?}", seq), ch, *s, *e, v, &tags, out);
                    }
                }};
            }
            if cached {
                let mut rd = BigWigRead::open(MemFile::new(bytes)).unwrap().cached();
                run!(rd);
            } else {
                let mut rd = BigWigRead::open(MemFile::new(bytes)).unwrap();
                run!(rd);
            }
            out.count("history_transitions", seq.len() as u64);
            states.insert(fnv(format!("{:?}", answers).as_bytes()));
        }
        out.count("histories", total as u64);
        out.count("history_distinct_answer_vectors", states.len() as u64);
    });
    if let Err(p) = r {
        out.fail("read_panicked", &tags, p);
    }
}

fn c03_cache_reset(n: u32, out: &mut Outcome) {
    let items: Vec<WItem> = (0..n)
        .map(|i| WItem {
            s: 2 * i,
            e: 2 * i + 1,
            vb: ((i % 11) as f32 + 0.5).to_bits(),
        })
        .collect();
    let mut o = Opts::base();
    o.ips = 1;
    o.zoom = Zoom::Manual(vec![]);
    let ch = WChrom {
        name: "r".into(),
        len: 2 * n + 2,
        items,
    };
    let c = WigCase {
        chroms: vec![ch.clone()],
        extra_sizes: vec![],
        allow_ooo: false,
        opts: o,
    };
    let Some(bytes) = do_write_wig(&c, out) else { return };
    let r = guarded(|| {
        let mut cached = BigWigRead::open(Cursor::new(bytes.clone())).unwrap().cached();
        // 1. everything (fills the cache past its reset point)
        let g = cached
            .get_interval("r", 0, ch.len)
            .map_err(|e| format!("{}", e))
            .and_then(collect_wig);
        cmp_answer("cached full", &ch, 0, ch.len, g, &[], out);
        // 2. windows around the reset point and both file ends, each re-queried twice
        let probes: Vec<u32> = vec![0, 1, 2, 4998, 4999, 5000, 5001, 5002, n - 2, n - 1];
        for round in 0..2 {
            for &b in &probes {
                if b >= n {
                    continue;
                }
                for (s, e) in [
                    (2 * b, 2 * b + 1),
                    (2 * b, 2 * b + 3),
                    (2 * b.saturating_sub(1), 2 * b + 2),
                ] {
                    let e = e.min(ch.len);
                    out.count("range_queries", 1);
                    let g = cached
                        .get_interval("r", s, e)
                        .map_err(|e| format!("{}", e))
                        .and_then(collect_wig);
                    cmp_answer(&format!("cached round {}", round), &ch, s, e, g, &[], out);
                }
            }
            // refill in reverse order between the rounds
            for b in (0..n).rev().step_by(7) {
                let g = cached
                    .get_interval("r", 2 * b, 2 * b + 1)
                    .map_err(|e| format!("{}", e))
                    .and_then(collect_wig);
                cmp_answer("cached refill", &ch, 2 * b, 2 * b + 1, g, &[], out);
            }
        }
        out.count("cache_reset_scenarios", 1);
    });
    if let Err(p) = r {
        out.fail("read_panicked", &[], p);
    }
}

fn huge_wig(ips: u32, bs: u32, compress: bool) -> WigCase {
    let mut o = Opts::base();
    o.ips = ips;
    o.bs = bs;
    o.compress = compress;
    o.zoom = Zoom::Manual(vec![1 << 20]);
    crate::wfam::expand(&crate::wfam::FileCase::WigHuge { opts: o }).into_wig().unwrap()
}

fn c03_alphabet_ranges(c: &WigCase, bytes: &[u8], out: &mut Outcome) {
    let tags = wig_tags(c);
    let r = guarded(|| {
        let open = || BigWigRead::open(MemFile::new(bytes)).map_err(|e| format!("{}", e));
        let mut plain = open().unwrap();
        let mut cached = open().unwrap().cached();
        for ch in &c.chroms {
            for (s, e) in query_alphabet(ch, 200) {
                if s >= e {
                    continue;
                }
                out.count("range_queries", 3);
                let g = plain.get_interval(&ch.name, s, e).map_err(|e| format!("{}", e)).and_then(collect_wig);
                cmp_answer("plain", ch, s, e, g, &tags, out);
                let g = cached.get_interval(&ch.name, s, e).map_err(|e| format!("{}", e)).and_then(collect_wig);
                cmp_answer("cached", ch, s, e, g, &tags, out);
                let g = open().and_then(|r| r.get_interval_move(&ch.name, s, e).map_err(|e| format!("{}", e))).and_then(collect_wig);
                cmp_answer("move", ch, s, e, g, &tags, out);
            }
        }
    });
    if let Err(p) = r {
        out.fail("read_panicked", &tags, p);
    }
}

fn alphabet_points(items: &[(u32, u32)], len: u32) -> Vec<u32> {
    let mut pts = std::collections::BTreeSet::new();
    pts.insert(0u32);
    pts.insert(len);
    for (s, e) in items {
        for p in [*s, *e] {
            pts.insert(p);
            pts.insert(p.saturating_sub(1));
            pts.insert(p.saturating_add(1).min(len));
        }
    }
    pts.into_iter().collect()
}

fn c03_py(c: &WigCase, bytes: &[u8], out: &mut Outcome) {
    let tags = wig_tags(c);
    let mut queries = vec![];
    let mut expected = vec![];
    let r = guarded(|| {
        let mut rd = BigWigRead::open(Cursor::new(bytes.to_vec())).unwrap();
        for ch in &c.chroms {
            let items: Vec<(u32, u32)> = ch.items.iter().map(|i| (i.s, i.e)).collect();
            for q in crate::pyfam::py_queries_for(&ch.name, ch.len, &alphabet_points(&items, ch.len)) {
                let want = crate::pyfam::py_effective_range(ch.len, q.1, q.2).and_then(|(s, e)| {
                    rd.get_interval(&ch.name, s, e).ok().and_then(|it| {
                        let mut v = vec![];
                        for x in it {
                            let x = x.ok()?;
                            v.push(vec![x.start.to_string(), x.end.to_string(), format!("{}", x.value as f64)]);
                        }
                        Some(v)
                    })
                });
                queries.push(q);
                expected.push(want);
            }
        }
    });
    if let Err(p) = r {
        out.fail("read_panicked", &tags, p);
        return;
    }
    crate::pyfam::py_records_check(bytes, false, &queries, &expected, "bigWig", &tags, out);
}

fn c03_reopen_threads(threads: usize, compress: bool, cached: bool, out: &mut Outcome) {
    use std::io::Write as _;
    let n = 400u32;
    let items: Vec<WItem> = (0..n).map(|i| WItem { s: 3 * i, e: 3 * i + 2, vb: ((i % 13) as f32 + 0.25).to_bits() }).collect();
    let mut o = Opts::base();
    o.ips = 4;
    o.bs = 4;
    o.compress = compress;
    o.zoom = Zoom::Manual(vec![]);
    let ch = WChrom { name: "t".into(), len: 3 * n + 5, items };
    let c = WigCase { chroms: vec![ch.clone()], extra_sizes: vec![], allow_ooo: false, opts: o };
    let Some(bytes) = do_write_wig(&c, out) else { return };
    let mut tf = tempfile::NamedTempFile::new().expect("tempfile");
    tf.write_all(&bytes).unwrap();
    tf.flush().unwrap();
    let path = tf.path().to_path_buf();
    let tags = vec![if cached { "cached".to_string() } else { "plain".to_string() }];
    let r = guarded(|| {
        let first = BigWigRead::open_file(&path).expect("open_file");
        let problems: Arc<std::sync::Mutex<Vec<String>>> = Arc::new(std::sync::Mutex::new(vec![]));
        let nq = 1500usize;
        macro_rules! spawn_all {
            ($first:expr) => {{
                let first_reader = $first;
                let mut readers = vec![];
                for _ in 1..threads {
                    readers.push(first_reader.reopen().expect("reopen"));
                }
                readers.push(first_reader);
                let mut hs = vec![];
                for (ti, mut rd) in readers.into_iter().enumerate() {
                    let ch = ch.clone();
                    let problems = problems.clone();
                    hs.push(std::thread::spawn(move || {
                        let mut x = 0x9e3779b97f4a7c15u64.wrapping_mul(ti as u64 + 1);
                        for q in 0..nq {
                            // a fixed pseudo-random walk per thread (deterministic queries; the OS picks the interleaving)
                            x = x.wrapping_mul(6364136223846793005).wrapping_add(1442695040888963407);
                            let s = ((x >> 33) % ch.len as u64) as u32;
                            let w = 1 + ((x >> 20) % 60) as u32;
                            let e = (s + w).min(ch.len);
                            let res = std::panic::catch_unwind(std::panic::AssertUnwindSafe(|| rd.get_interval(&ch.name, s, e).map_err(|e| format!("{}", e)).and_then(collect_wig)));
                            let got = match res {
                                Ok(g) => g,
                                Err(_) => Err("panic".to_string()),
                            };
                            let want = ref_interval(&ch, s, e);
                            if got.as_ref().ok() != Some(&want) {
                                let mut p = problems.lock().unwrap();
                                if p.len() < 3 {
                                    p.push(format!("thread {} query {} [{},{}): got {:?}, expected {} values", ti, q, s, e, got.as_ref().map(|g| g.len()), want.len()));
                                }
                                return;
                            }
                        }
                    }));
                }
                for h in hs {
                    let _ = h.join();
                }
            }};
        }
        if cached {
            spawn_all!(first.cached());
        } else {
            spawn_all!(first);
        }
        out.count("reopened_reader_threads", threads as u64);
        out.count("supplementary_sampling_concurrent_queries", (threads * nq) as u64);
        let p = problems.lock().unwrap();
        if !p.is_empty() {
            out.fail("reopened_readers_interfere", &tags, p.join("; "));
        }
    });
    if let Err(p) = r {
        out.fail("read_panicked", &tags, p);
    }
}

fn q_opts() -> Vec<Opts> {
    let mut v = vec![];
    for (ips, bs, compress) in [
        (1u32, 2u32, true),
        (2, 2, false),
        (2, 3, true),
        (3, 256, false),
        (1024, 256, true),
        (1, 3, false),
    ] {
        let mut o = Opts::base();
        o.ips = ips;
        o.bs = bs;
        o.compress = compress;
        o.zoom = Zoom::Manual(vec![4]);
        v.push(o);
    }
    v
}

impl Check for C03 {
    type Case = C03Case;
    fn id(&self) -> &'static str {
        "C03"
    }
    fn cases(&self, tier: Tier) -> Box<dyn Iterator<Item = C03Case> + '_> {
        let quick = tier == Tier::Quick;
        let k = if quick { 3 } else { 4 };
        let opts = q_opts();
        let o1 = opts.clone();
        let singles = wig_layouts(k, L)
            .into_iter()
            .chain(core_wig_layouts().into_iter())
            .enumerate()
            .flat_map(move |(i, l)| {
                let pick: Vec<Opts> = if quick {
                    vec![o1[i % 6].clone(), o1[(i + 3) % 6].clone()]
                } else {
                    o1.clone()
                };
                pick.into_iter()
                    .map(move |o| {
                        C03Case::Ranges(WigCase {
                            chroms: vec![WChrom {
                                name: "c".into(),
                                len: L,
                                items: wig_items(&l, i, i / 3),
                            }],
                            extra_sizes: vec![],
                            allow_ooo: false,
                            opts: o,
                        })
                    })
                    .collect::<Vec<_>>()
            });
        let o2 = opts.clone();
        let multi = (0..3usize).flat_map(move |si| {
            let o2 = o2.clone();
            (0..8usize).flat_map(move |li| {
                let sets = chrom_sets();
                let (names, ooo, extra) = sets[si].clone();
                let core = core_wig_layouts();
                o2.clone().into_iter().map(move |o| {
                    C03Case::Ranges(WigCase {
                        chroms: names
                            .iter()
                            .enumerate()
                            .map(|(ci, n)| WChrom {
                                name: n.to_string(),
                                len: L,
                                items: wig_items(&core[(li + ci * 3) % core.len()], li + ci, ci),
                            })
                            .collect(),
                        extra_sizes: extra.clone(),
                        allow_ooo: ooo,
                        opts: o,
                    })
                })
            })
        });
        let depth = if quick { 2 } else { 3 };
        let o3 = opts.clone();
        let hist = core_wig_layouts().into_iter().enumerate().flat_map(move |(i, l)| {
            let o3 = o3.clone();
            [false, true].into_iter().flat_map(move |cached| {
                let l = l.clone();
                [o3[0].clone(), o3[2].clone()].into_iter().map(move |o| C03Case::Histories {
                    file: WigCase {
                        chroms: vec![
                            WChrom {
                                name: "c".into(),
                                len: L,
                                items: wig_items(&l, i, 0),
                            },
                            WChrom {
                                name: "d".into(),
                                len: L,
                                items: wig_items(&core_wig_layouts()[(i + 3) % 8], i + 1, 1),
                            },
                        ],
                        extra_sizes: vec![],
                        allow_ooo: false,
                        opts: o,
                    },
                    depth,
                    cached,
                })
            })
        });
        Box::new(
            singles
                .chain(multi)
                .chain(hist)
                .chain(std::iter::once(C03Case::CacheReset { n: 5003 }))
                .chain([(8usize, true, false), (8, false, true), (3, true, true), (16, false, false)].into_iter().map(|(threads, compress, cached)| C03Case::ReopenThreads { threads, compress, cached }))
                .chain([(1u32, 2u32, true), (1, 2, false), (2, 3, true), (1024, 256, false)].into_iter().map(|(ips, bs, compress)| C03Case::Huge { ips, bs, compress }))
                .chain([false, true].into_iter().map(|huge| C03Case::Py { huge }))
                .chain([(7000u32, true), (7000, false), (65535, false)].into_iter().map(|(n, compress)| C03Case::BigSection { n, compress }))
                .chain([(1u32, 2u32), (1024, 256)].into_iter().map(|(ips, bs)| {
                    let mut o = Opts::base();
                    o.ips = ips;
                    o.bs = bs;
                    o.zoom = Zoom::Manual(vec![4]);
                    C03Case::Ranges(crate::wfam::expand(&crate::wfam::FileCase::WigKaryo { n: if ips == 1 { 40 } else { 70 }, opts: o }).into_wig().unwrap())
                })),
        )
    }
    fn run(&self, case: &C03Case, out: &mut Outcome) {
        match case {
            C03Case::Ranges(c) => {
                let Some(bytes) = do_write_wig(c, out) else { return };
                if let Ok(d) = indep::decode(&bytes) {
                    if d.main.leaves.len() >= 2 {
                        out.count("files_with_2+_blocks", 1);
                    }
                    if d.main.levels >= 2 {
                        out.count("files_with_2+_index_levels", 1);
                    }
                }
                out.nontrivial = c.chroms.iter().map(|c| c.items.len()).sum::<usize>() >= 2;
                out.count("range_files", 1);
                c03_ranges(c, &bytes, out);
            }
            C03Case::Histories { file, depth, cached } => {
                let Some(bytes) = do_write_wig(file, out) else { return };
                out.nontrivial = true;
                c03_histories(file, *depth, *cached, &bytes, out);
            }
            C03Case::CacheReset { n } => {
                out.nontrivial = true;
                c03_cache_reset(*n, out);
            }
            C03Case::ReopenThreads { threads, compress, cached } => {
                out.nontrivial = true;
                c03_reopen_threads(*threads, *compress, *cached, out);
            }
            C03Case::Huge { ips, bs, compress } => {
                out.nontrivial = true;
                let c = huge_wig(*ips, *bs, *compress);
                let Some(bytes) = do_write_wig(&c, out) else { return };
                out.count("files_with_coordinates_up_to_u32_max", 1);
                c03_alphabet_ranges(&c, &bytes, out);
            }
            C03Case::BigSection { n, compress } => {
                out.nontrivial = true;
                let mut o = Opts::base();
                o.ips = 65535;
                o.compress = *compress;
                o.zoom = Zoom::Manual(vec![]);
                let ch = WChrom { name: "s".into(), len: 3 * n + 5, items: (0..*n).map(|i| WItem { s: 3 * i, e: 3 * i + 2, vb: ((i % 1009) as f32 * 0.125).to_bits() }).collect() };
                let c = WigCase { chroms: vec![ch.clone()], extra_sizes: vec![], allow_ooo: false, opts: o };
                let Some(bytes) = do_write_wig(&c, out) else { return };
                let tags = wig_tags(&c);
                let r = guarded(|| {
                    let mut plain = BigWigRead::open(MemFile::new(&bytes)).unwrap();
                    let mut cached = BigWigRead::open(MemFile::new(&bytes)).unwrap().cached();
                    let last = 3 * (n - 1);
                    let mut qs = vec![(0, ch.len), (last, ch.len), (last, last + 1), (0, 2), (3 * (n / 2), 3 * (n / 2) + 40)];
                    // around the items whose byte offset in the block crosses multiples of 65 536
                    for k in 1..=(*n as u64 * 12 / 65536) {
                        let i = (k * 65536 / 12) as u32;
                        if i + 3 < *n {
                            qs.push((3 * (i - 2), 3 * (i + 3)));
                            qs.push((3 * i, 3 * i + 2));
                        }
                    }
                    for (s, e) in qs {
                        out.count("range_queries", 2);
                        let g = plain.get_interval(&ch.name, s, e).map_err(|e| format!("{}", e)).and_then(collect_wig);
                        cmp_answer("plain", &ch, s, e, g, &tags, out);
                        let g = cached.get_interval(&ch.name, s, e).map_err(|e| format!("{}", e)).and_then(collect_wig);
                        cmp_answer("cached", &ch, s, e, g, &tags, out);
                        if e - s < 100_000 {
                            let v = plain.values(&ch.name, s, e).map_err(|e| format!("{}", e));
                            cmp_values("plain", &ch, s, e, v, &tags, out);
                        }
                    }
                    out.count("big_section_files", 1);
                });
                if let Err(p) = r {
                    out.fail("read_panicked", &tags, p);
                }
            }
            C03Case::Py { huge } => {
                out.nontrivial = true;
                let c = if *huge {
                    huge_wig(1, 2, true)
                } else {
                    let mut o = Opts::base();
                    o.ips = 1;
                    o.bs = 2;
                    o.zoom = Zoom::Manual(vec![4]);
                    // 12 chromosomes in karyotype order: the table's order is not the byte order of the names
                    crate::wfam::expand(&crate::wfam::FileCase::WigKaryo { n: 12, opts: o }).into_wig().unwrap()
                };
                let Some(bytes) = do_write_wig(&c, out) else { return };
                c03_py(&c, &bytes, out);
            }
        }
    }
    fn space(&self, tier: Tier) -> serde_json::Value {
        let q = tier == Tier::Quick;
        json!({
            "range_files_single": (wig_layouts(if q {3} else {4}, L).len() + 8) * if q {2} else {6},
            "range_files_multi": 3*8*6, "ranges_per_chromosome": 153,
            "access_paths": ["plain", "cached", "reopened", "cached+reopened", "get_interval_move", "values plain", "values cached"],
            "history_files": 8*2*2, "history_depth": if q {2} else {3},
            "cache_reset_blocks": 5003,
        })
    }
    fn case_cap_s(&self) -> u64 {
        120
    }
}

// ---------------------------------------------------------------------------------------------
// C04

#[derive(Clone, Debug, Serialize, Deserialize)]
pub enum C04Case {
    /// `bigbedtobed --chrom/--start/--end` and `bigtools intersect` on the built binaries
    Tool(BedCase),
    Ranges(BedCase),
    Histories { file: BedCase, depth: usize, cached: bool },
    /// u32-limit chromosomes: boundary alphabet ranges (see C03Case::Huge)
    Huge { ips: u32, bs: u32, compress: bool },
    /// n one-entry blocks through ONE caching reader: more distinct blocks than its cache holds
    /// (5 000), then the earliest blocks again
    CacheReset { n: u32 },
    /// the Python binding's records() against the library's range query (see C03Case::Py)
    Py { huge: bool },
}

pub struct C04;

fn huge_bed(ips: u32, bs: u32, compress: bool) -> BedCase {
    let mut o = Opts::base();
    o.ips = ips;
    o.bs = bs;
    o.compress = compress;
    o.zoom = Zoom::Manual(vec![1 << 20]);
    let mut c = crate::wfam::expand(&crate::wfam::FileCase::BedHuge { opts: o }).into_bed().unwrap();
    // a long early entry on the longest chromosome, so that spans nest across 2^31
    c.chroms[0].items.insert(1, BItem { s: 5, e: 4_000_000_000, rest: "long".into() });
    c
}

fn c04_alphabet_ranges(c: &BedCase, bytes: &[u8], out: &mut Outcome) {
    let tags = bed_tags(c);
    let r = guarded(|| {
        let open = || BigBedRead::open(MemFile::new(bytes)).map_err(|e| format!("{}", e));
        let mut plain = open().unwrap();
        let mut cached = open().unwrap().cached();
        for ch in &c.chroms {
            let items: Vec<(u32, u32)> = ch.items.iter().map(|i| (i.s, i.e)).collect();
            let pts = alphabet_points(&items, ch.len);
            for (i, &s) in pts.iter().enumerate() {
                for &e in &pts[i + 1..] {
                    out.count("range_queries", 3);
                    let g = plain.get_interval(&ch.name, s, e).map_err(|e| format!("{}", e)).and_then(collect_bed);
                    cmp_bed_answer("plain", ch, s, e, g, &tags, out);
                    let g = cached.get_interval(&ch.name, s, e).map_err(|e| format!("{}", e)).and_then(collect_bed);
                    cmp_bed_answer("cached", ch, s, e, g, &tags, out);
                    let g = open().and_then(|r| r.get_interval_move(&ch.name, s, e).map_err(|e| format!("{}", e))).and_then(collect_bed);
                    cmp_bed_answer("move", ch, s, e, g, &tags, out);
                }
            }
        }
    });
    if let Err(p) = r {
        out.fail("read_panicked", &tags, p);
    }
}

fn c04_py(c: &BedCase, bytes: &[u8], out: &mut Outcome) {
    let tags = bed_tags(c);
    let mut queries = vec![];
    let mut expected = vec![];
    let r = guarded(|| {
        let mut rd = BigBedRead::open(Cursor::new(bytes.to_vec())).unwrap();
        for ch in &c.chroms {
            let items: Vec<(u32, u32)> = ch.items.iter().map(|i| (i.s, i.e)).collect();
            for q in crate::pyfam::py_queries_for(&ch.name, ch.len, &alphabet_points(&items, ch.len)) {
                let want = crate::pyfam::py_effective_range(ch.len, q.1, q.2).and_then(|(s, e)| {
                    rd.get_interval(&ch.name, s, e).ok().and_then(|it| {
                        let mut v = vec![];
                        for x in it {
                            let x = x.ok()?;
                            let mut row = vec![x.start.to_string(), x.end.to_string()];
                            row.extend(x.rest.split_whitespace().map(|t| t.to_string()));
                            v.push(row);
                        }
                        Some(v)
                    })
                });
                queries.push(q);
                expected.push(want);
            }
        }
    });
    if let Err(p) = r {
        out.fail("read_panicked", &tags, p);
        return;
    }
    crate::pyfam::py_records_check(bytes, true, &queries, &expected, "bigBed", &tags, out);
}

type Ent = (u32, u32, String);

fn collect_bed<I: Iterator<Item = Result<bigtools::BedEntry, bigtools::BBIReadError>>>(
    it: I,
) -> Result<Vec<Ent>, String> {
    let mut v = vec![];
    for x in it {
        let x = x.map_err(|e| format!("{}", e))?;
        v.push((x.start, x.end, x.rest));
    }
    Ok(v)
}

/// must-include / must-exclude oracle; `got` must be a subsequence of the stored list.
fn cmp_bed_answer(
    path: &str,
    ch: &BChrom,
    s: u32,
    e: u32,
    got: Result<Vec<Ent>, String>,
    tags: &[String],
    out: &mut Outcome,
) {
    let g = match got {
        Err(err) => {
            out.fail(
                "read_error_after_accepted_write",
                tags,
                format!("{} {} [{},{}): {}", path, ch.name, s, e, err),
            );
            return;
        }
        Ok(g) => g,
    };
    // greedy subsequence match
    let mut matched = vec![false; ch.items.len()];
    let mut pos = 0usize;
    for ge in &g {
        let mut found = None;
        for j in pos..ch.items.len() {
            let it = &ch.items[j];
            if it.s == ge.0 && it.e == ge.1 && it.rest == ge.2 {
                found = Some(j);
                break;
            }
        }
        match found {
            Some(j) => {
                matched[j] = true;
                pos = j + 1;
            }
            None => {
                out.fail(
                    "range_query_order_or_unknown_entry",
                    tags,
                    format!(
                        "{} {} [{},{}): returned {:?} which is not the stored list in order (entry {:?})",
                        path, ch.name, s, e, g, ge
                    ),
                );
                return;
            }
        }
    }
    for (j, it) in ch.items.iter().enumerate() {
        let must = if it.e > it.s {
            it.s < e && it.e > s
        } else {
            s < it.s && it.s < e
        };
        let must_not = it.e < s || it.s > e;
        if must && !matched[j] {
            out.fail(
                "range_query_missed_entry",
                tags,
                format!(
                    "{} {} [{},{}): entry [{},{}) overlaps but is not returned (returned {:?})",
                    path, ch.name, s, e, it.s, it.e, g
                ),
            );
            return;
        }
        if must_not && matched[j] {
            out.fail(
                "range_query_disjoint_entry",
                tags,
                format!(
                    "{} {} [{},{}): entry [{},{}) lies wholly outside but is returned",
                    path, ch.name, s, e, it.s, it.e
                ),
            );
            return;
        }
        if !must && !must_not && matched[j] {
            out.count("dont_care_touching_entries_returned", 1);
        }
    }
}

fn c04_ranges(c: &BedCase, bytes: &[u8], out: &mut Outcome) {
    let tags = bed_tags(c);
    let r = guarded(|| {
        let open = || BigBedRead::open(MemFile::new(bytes)).map_err(|e| format!("{}", e));
        let mut plain = match open() {
            Ok(r) => r,
            Err(e) => {
                out.fail("open_failed", &tags, e);
                return;
            }
        };
        let mut cached = open().unwrap().cached();
        let mut reopened = cached.reopen().unwrap();
        for ch in &c.chroms {
            for s in 0..ch.len {
                for e in s + 1..=ch.len {
                    out.count("range_queries", 4);
                    let g = plain
                        .get_interval(&ch.name, s, e)
                        .map_err(|e| format!("{}", e))
                        .and_then(collect_bed);
                    cmp_bed_answer("plain", ch, s, e, g, &tags, out);
                    let k = ((s + 2 * e) % 3) as usize;
                    let g = plain.get_interval(&ch.name, s, e).map_err(|e| format!("{}", e)).and_then(|it| collect_folding(it, k, |x: bigtools::BedEntry| (x.start, x.end, x.rest)));
                    cmp_bed_answer("plain, next() then for_each", ch, s, e, g, &tags, out);
                    let g = open().and_then(|r| r.get_interval_move(&ch.name, s, e).map_err(|e| format!("{}", e))).and_then(|it| collect_folding(it, (k + 1) % 3, |x: bigtools::BedEntry| (x.start, x.end, x.rest)));
                    cmp_bed_answer("move, next() then for_each", ch, s, e, g, &tags, out);
                    out.count("range_queries_consumed_through_fold", 2);
                    if let Ok(full) = plain.get_interval(&ch.name, s, e).map_err(|e| format!("{}", e)).and_then(collect_bed) {
                        let pattern = ((s + e) % 3) as usize;
                        let conv = |x: bigtools::BedEntry| (x.start, x.end, x.rest);
                        if let (Ok(a), Ok(b)) = (plain.get_interval(&ch.name, s, e).map(|it| it.count()), cached.get_interval(&ch.name, s, e).map(|it| it.last().and_then(|x| x.ok()).map(conv))) {
                            out.count("range_queries_consumed_through_count_and_last", 1);
                            if a != full.len() || b != full.last().cloned() {
                                out.fail("answer_depends_on_how_the_iterator_is_consumed", &tags, format!("{} [{},{}): count() {} and last() {:?}, the plain loop gives {:?}", ch.name, s, e, a, b, full));
                            }
                        }
                        for (what, got) in [
                            ("plain", plain.get_interval(&ch.name, s, e).map_err(|e| format!("{}", e)).and_then(|it| collect_nth(it, pattern, conv))),
                            ("cached", cached.get_interval(&ch.name, s, e).map_err(|e| format!("{}", e)).and_then(|it| collect_nth(it, (pattern + 1) % 3, conv))),
                        ] {
                            let pat = if what == "plain" { pattern } else { (pattern + 1) % 3 };
                            out.count("range_queries_consumed_through_nth", 1);
                            if got.as_ref().ok() != Some(&expected_of(&full, pat)) {
                                out.fail("answer_depends_on_how_the_iterator_is_consumed", &tags, format!("{} reader, {} [{},{}) consumed with {}: {:?}, the plain loop gives {:?}", what, ch.name, s, e, ["nth(0)", "nth(1)", "skip(2)"][pat], got, full));
                            }
                        }
                    }
                    let g = cached
                        .get_interval(&ch.name, s, e)
                        .map_err(|e| format!("{}", e))
                        .and_then(collect_bed);
                    cmp_bed_answer("cached", ch, s, e, g, &tags, out);
                    let g = reopened
                        .get_interval(&ch.name, s, e)
                        .map_err(|e| format!("{}", e))
                        .and_then(collect_bed);
                    cmp_bed_answer("cached+reopened", ch, s, e, g, &tags, out);
                    let g = open()
                        .and_then(|r| r.get_interval_move(&ch.name, s, e).map_err(|e| format!("{}", e)))
                        .and_then(collect_bed);
                    cmp_bed_answer("move", ch, s, e, g, &tags, out);
                }
            }
            // ranges reaching beyond the chromosome end, a refused query, then the same readers again
            let l = ch.len;
            for s in [0, l.saturating_sub(1), l, l + 1, l + 2, l + 20] {
                for e in [l + 1, l + 5, l + 30, u32::MAX] {
                    if e <= s {
                        continue;
                    }
                    out.count("range_queries_beyond_the_chromosome_end", 3);
                    let g = plain.get_interval(&ch.name, s, e).map_err(|e| format!("{}", e)).and_then(collect_bed);
                    cmp_bed_answer("plain", ch, s, e, g, &tags, out);
                    let g = cached.get_interval(&ch.name, s, e).map_err(|e| format!("{}", e)).and_then(collect_bed);
                    cmp_bed_answer("cached", ch, s, e, g, &tags, out);
                    let g = open().and_then(|r| r.get_interval_move(&ch.name, s, e).map_err(|e| format!("{}", e))).and_then(collect_bed);
                    cmp_bed_answer("move", ch, s, e, g, &tags, out);
                }
            }
            for (what, rd_err) in [("plain", plain.get_interval("no_such_chromosome", 0, 5).is_err()), ("cached", cached.get_interval("no_such_chromosome", 0, 5).is_err())] {
                out.count("queries_on_an_absent_chromosome", 1);
                if !rd_err {
                    out.fail("absent_chromosome_query_answered", &tags, format!("{} reader answered a query on a chromosome the file does not have", what));
                }
            }
            let g = plain.get_interval(&ch.name, 0, l).map_err(|e| format!("{}", e)).and_then(collect_bed);
            cmp_bed_answer("plain after a refused query", ch, 0, l, g, &tags, out);
            let g = cached.get_interval(&ch.name, 0, l).map_err(|e| format!("{}", e)).and_then(collect_bed);
            cmp_bed_answer("cached after a refused query", ch, 0, l, g, &tags, out);
        }
    });
    if let Err(p) = r {
        out.fail("read_panicked", &tags, p);
    }
}

fn c04_histories(c: &BedCase, depth: usize, cached: bool, bytes: &[u8], out: &mut Outcome) {
    let tags = bed_tags(c);
    let r = guarded(|| {
        let mut alpha: Vec<(usize, u32, u32)> = vec![];
        for (ci, ch) in c.chroms.iter().enumerate() {
            let w = WChrom {
                name: ch.name.clone(),
                len: ch.len,
                items: ch.items.iter().map(|i| WItem { s: i.s, e: i.e, vb: 0 }).collect(),
            };
            for (s, e) in query_alphabet(&w, if c.chroms.len() > 1 { 8 } else { 16 }) {
                if s < e {
                    alpha.push((ci, s, e));
                }
            }
        }
        let levels: Vec<u32> = BigBedRead::open(Cursor::new(bytes.to_vec())).map(|r| r.info().zoom_headers.iter().map(|z| z.reduction_level).collect()).unwrap_or_default();
        let mut fresh_zoom: std::collections::HashMap<(usize, u32, u32), Result<Vec<(u32, u32)>, String>> = std::collections::HashMap::new();
        if let Some(&lv) = levels.first() {
            for (ci, ch) in c.chroms.iter().enumerate() {
                for (s, e) in [(0u32, ch.len), (3, 9)] {
                    let mut fr = BigBedRead::open(Cursor::new(bytes.to_vec())).unwrap();
                    let ans = fr.get_zoom_interval(&ch.name, s, e, lv).map_err(|e| format!("{}", e)).and_then(|it| it.map(|z| z.map(|z| (z.start, z.end)).map_err(|e| format!("{}", e))).collect::<Result<Vec<_>, _>>());
                    fresh_zoom.insert((ci, s, e), ans);
                    alpha.push((ci + 1000, s, e));
                }
            }
            out.count("history_zoom_operations", fresh_zoom.len() as u64);
        }
        for (ci, ch) in c.chroms.iter().enumerate() {
            alpha.push((ci + 2000, 0, ch.len.max(1)));
        }
        alpha.push((3000, 0, 5));
        // calls that use the underlying source behind the cache's back (the summary, the item
        // count and the schema are read through `raw_reader`), 4000; and `reopen()`: the history
        // continues on the reopened reader (which inherits the caches but is a fresh source), 5000
        alpha.push((4000, 0, 0));
        alpha.push((5000, 0, 0));
        let fresh_meta = {
            let mut rd = BigBedRead::open(MemFile::new(bytes)).unwrap();
            (|| -> Result<String, String> { let a = rd.get_summary().map_err(|e| format!("{}", e))?; let b = rd.item_count().map_err(|e| format!("{}", e))?; let c = rd.autosql().map_err(|e| format!("{}", e))?; Ok(format!("{:?} {} {:?}", a, b, c)) })()
        };
        let n = alpha.len();
        let total = n.pow(depth as u32);
        let mut states = std::collections::HashSet::new();
        let mut seqs: Vec<Vec<(usize, u32, u32)>> = vec![];
        for code in 0..total {
            let mut seq = vec![];
            let mut x = code;
            for _ in 0..depth {
                seq.push(alpha[x % n]);
                x /= n;
            }
            seqs.push(seq);
        }
        if depth < 3 {
            // sandwiches: query, one operation that is not a range query, query -- every such triple
            let plain: Vec<(usize, u32, u32)> = alpha.iter().filter(|a| a.0 < 2000).cloned().collect();
            let special: Vec<(usize, u32, u32)> = alpha.iter().filter(|a| a.0 >= 1000).cloned().collect();
            for a in &plain {
                for m in &special {
                    for b in &plain {
                        seqs.push(vec![*a, *m, *b]);
                    }
                }
            }
            out.count("history_sandwiches", (plain.len() * special.len() * plain.len()) as u64);
        }
        let total = seqs.len();
        for seq in seqs {
            let mut answers = vec![];
            macro_rules! run {
                ($rd:expr) => {{
                    for (ci, s, e) in &seq {
                        if *ci >= 5000 {
                            match $rd.reopen() {
                                Ok(r2) => $rd = r2,
                                Err(e) => out.fail("reopen_failed", &tags, format!("history {:?}: {}", seq, e)),
                            }
                            out.count("history_reopens", 1);
                            continue;
                        }
                        if *ci >= 4000 {
                            let got = (|| -> Result<String, String> { let a = $rd.get_summary().map_err(|e| format!("{}", e))?; let b = $rd.item_count().map_err(|e| format!("{}", e))?; let c = $rd.autosql().map_err(|e| format!("{}", e))?; Ok(format!("{:?} {} {:?}", a, b, c)) })();
                            if got != fresh_meta {
                                out.fail("metadata_depends_on_history", &tags, format!("history {:?}: {:?}, a fresh reader gives {:?}", seq, got, fresh_meta));
                            }
                            out.count("history_metadata_calls", 1);
                            continue;
                        }
                        if *ci >= 3000 {
                            if $rd.get_interval("no_such_chromosome", *s, *e).is_ok() {
                                out.fail("absent_chromosome_answered", &tags, format!("history {:?}", seq));
                            }
                            out.count("history_refused_operations", 1);
                            continue;
                        }
                        if *ci >= 2000 {
                            let ch = &c.chroms[*ci - 2000];
                            if let Ok(mut it) = $rd.get_interval(&ch.name, *s, *e) {
                                let _ = it.next();
                            }
                            out.count("history_abandoned_iterators", 1);
                            continue;
                        }
                        if *ci >= 1000 {
                            let ch = &c.chroms[*ci - 1000];
                            let lv = levels[0];
                            let got = $rd.get_zoom_interval(&ch.name, *s, *e, lv).map_err(|e| format!("{}", e)).and_then(|it| it.map(|z| z.map(|z| (z.start, z.end)).map_err(|e| format!("{}", e))).collect::<Result<Vec<_>, _>>());
                            let want = fresh_zoom.get(&(*ci - 1000, *s, *e)).unwrap();
                            if got != *want {
                                out.fail("zoom_answer_depends_on_history", &tags, format!("history {:?}: zoom query {} [{},{}) gives {:?}, a fresh reader gives {:?}", seq, ch.name, s, e, got, want));
                            }
                            continue;
                        }
                        let ch = &c.chroms[*ci];
                        let g = $rd
                            .get_interval(&ch.name, *s, *e)
                            .map_err(|e| format!("{}", e))
                            .and_then(collect_bed);
                        if let Ok(v) = &g {
                            answers.push(v.clone());
                        }
                        cmp_bed_answer(&format!("history {:?}", seq), ch, *s, *e, g, &tags, out);
                    }
                }};
            }
            if cached {
                let mut rd = BigBedRead::open(MemFile::new(bytes)).unwrap().cached();
                run!(rd);
            } else {
                let mut rd = BigBedRead::open(MemFile::new(bytes)).unwrap();
                run!(rd);
            }
            out.count("history_transitions", seq.len() as u64);
            states.insert(fnv(format!("{:?}", answers).as_bytes()));
        }
        out.count("histories", total as u64);
        out.count("history_distinct_answer_vectors", states.len() as u64);
    });
    if let Err(p) = r {
        out.fail("read_panicked", &tags, p);
    }
}

fn c04_opts() -> Vec<Opts> {
    let mut v = vec![];
    for ips in [1u32, 2, 3] {
        for bs in [2u32, 3] {
            let mut o = Opts::base();
            o.ips = ips;
            o.bs = bs;
            o.compress = (ips + bs) % 2 == 0;
            o.zoom = Zoom::Manual(vec![4]);
            v.push(o);
        }
    }
    v
}

impl Check for C04 {
    type Case = C04Case;
    fn id(&self) -> &'static str {
        "C04"
    }
    fn cases(&self, tier: Tier) -> Box<dyn Iterator<Item = C04Case> + '_> {
        let quick = tier == Tier::Quick;
        let k = if quick { 3 } else { 4 };
        let opts = c04_opts();
        let o1 = opts.clone();
        let singles = bed_layouts(k, L)
            .into_iter()
            .filter(move |l| !quick || bed_has_inversion(l))
            .chain(core_bed_layouts().into_iter())
            .enumerate()
            .flat_map(move |(i, l)| {
                let pick: Vec<Opts> = if quick {
                    vec![o1[i % 6].clone(), o1[(i + 1) % 6].clone(), o1[(i + 3) % 6].clone()]
                } else {
                    o1.clone()
                };
                pick.into_iter()
                    .map(move |o| {
                        C04Case::Ranges(BedCase {
                            chroms: vec![BChrom {
                                name: "c".into(),
                                len: L,
                                items: bed_items(&l, 1),
                            }],
                            extra_sizes: vec![],
                            allow_ooo: false,
                            autosql: None,
                            opts: o,
                        })
                    })
                    .collect::<Vec<_>>()
            });
        let o2 = opts.clone();
        let multi = (0..3usize).flat_map(move |si| {
            let o2 = o2.clone();
            (0..8usize).flat_map(move |li| {
                let sets = chrom_sets();
                let (names, ooo, extra) = sets[si].clone();
                let core = core_bed_layouts();
                o2.clone().into_iter().map(move |o| {
                    C04Case::Ranges(BedCase {
                        chroms: names
                            .iter()
                            .enumerate()
                            .map(|(ci, n)| BChrom {
                                name: n.to_string(),
                                len: L,
                                items: bed_items(&core[(li + ci * 3) % core.len()], li + ci),
                            })
                            .collect(),
                        extra_sizes: extra.clone(),
                        allow_ooo: ooo,
                        autosql: None,
                        opts: o,
                    })
                })
            })
        });
        let depth = if quick { 2 } else { 3 };
        let o3 = opts.clone();
        let hist = core_bed_layouts().into_iter().enumerate().flat_map(move |(i, l)| {
            let o3 = o3.clone();
            [false, true].into_iter().flat_map(move |cached| {
                let l = l.clone();
                [o3[0].clone(), o3[3].clone()].into_iter().map(move |o| C04Case::Histories {
                    file: BedCase {
                        chroms: vec![
                            BChrom {
                                name: "c".into(),
                                len: L,
                                items: bed_items(&l, 1),
                            },
                            BChrom {
                                name: "d".into(),
                                len: L,
                                items: bed_items(&core_bed_layouts()[(i + 3) % 8], 2),
                            },
                        ],
                        extra_sizes: vec![],
                        allow_ooo: false,
                        autosql: None,
                        opts: o,
                    },
                    depth,
                    cached,
                })
            })
        });
        let o4 = opts.clone();
        let tools = (0..3usize).flat_map(move |si| {
            let o4 = o4.clone();
            (0..8usize).step_by(if quick { 2 } else { 1 }).map(move |li| {
                let sets = chrom_sets();
                let (names, ooo, extra) = sets[si].clone();
                let core = core_bed_layouts();
                C04Case::Tool(BedCase {
                    chroms: names
                        .iter()
                        .enumerate()
                        .map(|(ci, n)| BChrom { name: n.to_string(), len: L, items: bed_items(&core[(li + ci * 3) % core.len()], li + ci + 1) })
                        .collect(),
                    extra_sizes: extra.clone(),
                    allow_ooo: ooo,
                    autosql: None,
                    opts: o4[(li + si) % 6].clone(),
                })
            })
        });
        let extra = [(1u32, 2u32, true), (1, 2, false), (2, 3, true), (1024, 256, false)]
            .into_iter()
            .map(|(ips, bs, compress)| C04Case::Huge { ips, bs, compress })
            .chain([false, true].into_iter().map(|huge| C04Case::Py { huge }))
            .chain(std::iter::once(C04Case::CacheReset { n: 5203 }))
            .chain((0..4u32).flat_map(|lay| {
                // entries that start inside the chromosome and end beyond it (accepted by the writer):
                // a query beyond the chromosome length still overlaps them
                [(1u32, 2u32), (1024, 256)].into_iter().map(move |(ips, bs)| {
                    let mut o = Opts::base();
                    o.ips = ips;
                    o.bs = bs;
                    o.zoom = Zoom::Manual(vec![4]);
                    C04Case::Ranges(crate::wfam::expand(&crate::wfam::FileCase::BedBeyondEnd { lay, opts: o }).into_bed().unwrap())
                })
            }))
            .chain([(1u32, 2u32), (1024, 256)].into_iter().map(|(ips, bs)| {
                // 40 chromosomes in karyotype order (chr1 .. chr40): every range on every one
                let mut o = Opts::base();
                o.ips = ips;
                o.bs = bs;
                o.zoom = Zoom::Manual(vec![4]);
                C04Case::Ranges(crate::wfam::expand(&crate::wfam::FileCase::BedKaryo { n: if ips == 1 { 40 } else { 70 }, opts: o }).into_bed().unwrap())
            }));
        Box::new(singles.chain(multi).chain(hist).chain(tools).chain(extra))
    }
    fn run(&self, case: &C04Case, out: &mut Outcome) {
        match case {
            C04Case::Tool(c) => {
                out.nontrivial = true;
                crate::clifam::c04_tool(c, out);
            }
            C04Case::Ranges(c) => {
                let Some(bytes) = do_write_bed(c, out) else { return };
                if let Ok(d) = indep::decode(&bytes) {
                    if d.main.leaves.len() >= 2 {
                        out.count("files_with_2+_blocks", 1);
                    }
                    if d.main.levels >= 2 {
                        out.count("files_with_2+_index_levels", 1);
                    }
                    // a block whose largest end is not its last entry's end
                    if d.bed_blocks.iter().any(|b| {
                        let last = b.last().map(|x| x.2).unwrap_or(0);
                        b.iter().any(|x| x.2 > last)
                    }) {
                        out.count("files_with_block_max_end_not_last", 1);
                    }
                }
                out.nontrivial = c.chroms.iter().map(|c| c.items.len()).sum::<usize>() >= 2;
                out.count("range_files", 1);
                c04_ranges(c, &bytes, out);
            }
            C04Case::Histories { file, depth, cached } => {
                let Some(bytes) = do_write_bed(file, out) else { return };
                out.nontrivial = true;
                c04_histories(file, *depth, *cached, &bytes, out);
            }
            C04Case::Huge { ips, bs, compress } => {
                out.nontrivial = true;
                let c = huge_bed(*ips, *bs, *compress);
                let Some(bytes) = do_write_bed(&c, out) else { return };
                out.count("files_with_coordinates_up_to_u32_max", 1);
                c04_alphabet_ranges(&c, &bytes, out);
            }
            C04Case::CacheReset { n } => {
                out.nontrivial = true;
                let mut o = Opts::base();
                o.ips = 1;
                o.zoom = Zoom::Manual(vec![]);
                let ch = BChrom { name: "r".into(), len: 2 * n + 100, items: (0..*n).map(|i| BItem { s: 2 * i, e: 2 * i + if i % 50 == 0 { 95 } else { 3 }, rest: format!("e{}", i) }).collect() };
                let c = BedCase { chroms: vec![ch.clone()], extra_sizes: vec![], allow_ooo: false, autosql: None, opts: o };
                let Some(bytes) = do_write_bed(&c, out) else { return };
                let tags = bed_tags(&c);
                let r = guarded(|| {
                    let mut cached = BigBedRead::open(Cursor::new(bytes.clone())).unwrap().cached();
                    let g = cached.get_interval("r", 0, ch.len).map_err(|e| format!("{}", e)).and_then(collect_bed);
                    cmp_bed_answer("cached full", &ch, 0, ch.len, g, &tags, out);
                    for round in 0..2 {
                        for b in [0u32, 1, 2, 49, 50, 51, 4998, 4999, 5000, 5001, 5002, n - 2, n - 1] {
                            for (s, e) in [(2 * b, 2 * b + 1), (2 * b, 2 * b + 25), (2 * b.saturating_sub(1), 2 * b + 2)] {
                                out.count("range_queries", 1);
                                let g = cached.get_interval("r", s, e.min(ch.len)).map_err(|e| format!("{}", e)).and_then(collect_bed);
                                cmp_bed_answer(&format!("cached round {}", round), &ch, s, e.min(ch.len), g, &tags, out);
                            }
                        }
                        for b in (0..*n).rev().step_by(7) {
                            let g = cached.get_interval("r", 2 * b, 2 * b + 1).map_err(|e| format!("{}", e)).and_then(collect_bed);
                            cmp_bed_answer("cached refill", &ch, 2 * b, 2 * b + 1, g, &tags, out);
                        }
                    }
                    out.count("cache_reset_scenarios", 1);
                });
                if let Err(p) = r {
                    out.fail("read_panicked", &tags, p);
                }
            }
            C04Case::Py { huge } => {
                out.nontrivial = true;
                let c = if *huge {
                    huge_bed(1, 2, true)
                } else {
                    let mut o = Opts::base();
                    o.ips = 1;
                    o.bs = 2;
                    o.zoom = Zoom::Manual(vec![4]);
                    crate::wfam::expand(&crate::wfam::FileCase::BedKaryo { n: 12, opts: o }).into_bed().unwrap()
                };
                let Some(bytes) = do_write_bed(&c, out) else { return };
                c04_py(&c, &bytes, out);
            }
        }
    }
    fn space(&self, tier: Tier) -> serde_json::Value {
        let q = tier == Tier::Quick;
        let k = if q { 3 } else { 4 };
        let n = bed_layouts(k, L).into_iter().filter(|l| !q || bed_has_inversion(l)).count();
        json!({
            "layouts": n, "k": k, "layout_filter": if q {"an earlier entry ends after a later one"} else {"none (all of BL(4))"},
            "(items_per_slot, block_size) per layout": if q {3} else {6},
            "ranges_per_chromosome": 136, "access_paths": ["plain", "cached", "cached+reopened", "get_interval_move"],
            "multi_chromosome_files": 3*8*6, "history_files": 8*2*2, "history_depth": if q {2} else {3},
        })
    }
    fn case_cap_s(&self) -> u64 {
        120
    }
}

// ---------------------------------------------------------------------------------------------
// C05

#[derive(Clone, Debug, Serialize, Deserialize)]
pub struct C05Case {
    pub n: u32,
    pub b: u32,
    pub nchrom: u32,
    pub bed: bool,
    /// bigBed only: every 4th item is long (ends after the next four items' ends), so block
    /// spans are not monotone in their end and nest inside each other
    #[serde(default)]
    pub nested: bool,
    /// reader-side fault histories: every read/seek of a query fails once, then the same reader
    /// is queried again
    #[serde(default)]
    pub faults: bool,
    /// item j sits at j * step + [1, 3) with step = 4.29e9 / n on a chromosome of u32::MAX bases
    #[serde(default)]
    pub spread: bool,
}

impl C05Case {
    fn spread(mut self) -> C05Case {
        self.spread = true;
        self
    }
}

pub struct C05;

/// answer of one query for the fault histories: I/O error, or the comparison with the linear scan
enum QOut {
    IoErr(String),
    Cmp(Result<(), String>),
}


fn c05_bed_q<R: bigtools::BBIFileRead>(
    rd: &mut BigBedRead<R>,
    name: &str,
    s: u32,
    e: u32,
    items: &[(u32, u32)],
) -> Result<(), String> {
    let g = rd
        .get_interval(name, s, e)
        .map_err(|e| format!("query error: {}", e))
        .and_then(collect_bed)?;
    let must: Vec<(u32, u32)> = items.iter().filter(|(a, b)| *a < e && *b > s).cloned().collect();
    let may: Vec<(u32, u32)> = items.iter().filter(|(a, b)| *a <= e && *b >= s).cloned().collect();
    let gg: Vec<(u32, u32)> = g.iter().map(|x| (x.0, x.1)).collect();
    let ok = gg.windows(2).all(|w| w[0].0 < w[1].0) && must.iter().all(|m| gg.contains(m)) && gg.iter().all(|x| may.contains(x));
    if ok {
        Ok(())
    } else {
        Err(format!("bigBed {} [{},{}): got {:?}, linear scan must {:?} may {:?}", name, s, e, gg, must, may))
    }
}

fn c05_wig_q<R: bigtools::BBIFileRead>(
    rd: &mut BigWigRead<R>,
    name: &str,
    s: u32,
    e: u32,
    items: &[(u32, u32)],
) -> Result<(), String> {
    let g = rd
        .get_interval(name, s, e)
        .map_err(|e| format!("query error: {}", e))
        .and_then(collect_wig)?;
    let want: Vec<(u32, u32)> =
        items.iter().filter(|(a, b)| *a < e && *b > s).map(|(a, b)| ((*a).max(s), (*b).min(e))).collect();
    let gg: Vec<(u32, u32)> = g.iter().map(|x| (x.0, x.1)).collect();
    if gg == want {
        Ok(())
    } else {
        Err(format!("bigWig {} [{},{}): got {:?}, linear scan {:?}", name, s, e, gg, want))
    }
}


/// Reader-side fault histories (E4 on the read path): for a plain and a caching reader and every
/// query of a small set, every read/seek issued by the query fails once; the failing call must
/// return an error or the right answer, and afterwards the *same reader* must answer the same
/// query and every whole-chromosome query correctly (or with an error) -- a reader that has
/// reported an I/O error must not serve a truncated answer later.
fn c05_fault_histories(c: &C05Case, bytes: &[u8], names: &[String], len: u32, items: &[Vec<(u32, u32)>], out: &mut Outcome) {
    let mut queries: Vec<(usize, u32, u32)> = vec![];
    for ci in 0..names.len() {
        queries.push((ci, 0, len));
        let m = items[ci].len() / 2;
        let (a, b) = items[ci][m];
        queries.push((ci, a, b));
        queries.push((ci, b.saturating_sub(1), len));
    }
    // zoom queries are histories of their own on the bigWig files
    for cached in [false, true] {
        for zoom in [None, Some(2u32)] {
            if zoom.is_some() && c.bed {
                continue;
            }
            for &(qc, qs, qe) in &queries {
                // one closure that runs a query on an existing reader
                macro_rules! run_all {
                    ($open:expr, $q:expr, $zq:expr) => {{
                        // count the operations of the fault-free query
                        let ctl = Arc::new(FaultCtl::default());
                        ctl.disarm();
                        let mut rd = $open(ctl.clone());
                        ctl.arm(u64::MAX - 1);
                        let first = if let Some(lv) = zoom { $zq(&mut rd, qc, qs, qe, lv) } else { $q(&mut rd, qc, qs, qe) };
                        let nops = ctl.ops.load(std::sync::atomic::Ordering::SeqCst);
                        match first {
                            QOut::Cmp(Ok(())) => {}
                            QOut::Cmp(Err(m)) => out.fail("index_search_differs_from_linear_scan", &[], m),
                            QOut::IoErr(e) => out.fail("query_error", &[], format!("fault-free query failed: {}", e)),
                        }
                        out.count("fault_free_query_operations", nops);
                        for k in 0..nops {
                            let ctl = Arc::new(FaultCtl::default());
                            ctl.disarm();
                            let mut rd = $open(ctl.clone());
                            ctl.arm(k);
                            let r1 = if let Some(lv) = zoom { $zq(&mut rd, qc, qs, qe, lv) } else { $q(&mut rd, qc, qs, qe) };
                            let fired = ctl.fired.load(std::sync::atomic::Ordering::SeqCst) > 0;
                            ctl.disarm();
                            out.count("reader_fault_histories", 1);
                            match r1 {
                                QOut::IoErr(_) => out.count("reader_faults_reported_as_error", 1),
                                QOut::Cmp(Ok(())) => out.count(if fired { "reader_faults_absorbed_with_right_answer" } else { "reader_fault_not_reached" }, 1),
                                QOut::Cmp(Err(m)) => out.fail(
                                    "wrong_answer_under_read_fault",
                                    &[],
                                    format!("{} reader, operation {} of {} failed once: {}", if cached { "caching" } else { "plain" }, k, nops, m),
                                ),
                            }
                            // the same reader afterwards: the same query, then every whole chromosome
                            let mut later: Vec<(usize, u32, u32)> = vec![(qc, qs, qe)];
                            for ci in 0..names.len() {
                                later.push((ci, 0, len));
                            }
                            for (lc, ls, le) in later {
                                match $q(&mut rd, lc, ls, le) {
                                    QOut::Cmp(Ok(())) => out.count("queries_after_a_read_fault_right", 1),
                                    QOut::IoErr(_) => out.count("queries_after_a_read_fault_error", 1),
                                    QOut::Cmp(Err(m)) => out.fail(
                                        "stale_state_after_read_error",
                                        &[],
                                        format!(
                                            "{} reader, after operation {} of {}{} [{},{}) failed once: {}",
                                            if cached { "caching" } else { "plain" },
                                            k,
                                            names[qc],
                                            if zoom.is_some() { " (zoom query)" } else { "" },
                                            qs,
                                            qe,
                                            m
                                        ),
                                    ),
                                }
                            }
                        }
                    }};
                }
                let mk = |ctl: Arc<FaultCtl>| FaultyMem { inner: MemFile::new(bytes), ctl };
                if c.bed {
                    let q = |rd: &mut dyn FnMut(&str, u32, u32) -> Result<Vec<Ent>, String>, ci: usize, s: u32, e: u32| -> QOut {
                        match rd(&names[ci], s, e) {
                            Err(e) => QOut::IoErr(e),
                            Ok(g) => {
                                let must: Vec<(u32, u32)> = items[ci].iter().filter(|(a, b)| *a < e && *b > s).cloned().collect();
                                let may: Vec<(u32, u32)> = items[ci].iter().filter(|(a, b)| *a <= e && *b >= s).cloned().collect();
                                let gg: Vec<(u32, u32)> = g.iter().map(|x| (x.0, x.1)).collect();
                                let ok = gg.windows(2).all(|w| w[0].0 < w[1].0) && must.iter().all(|m| gg.contains(m)) && gg.iter().all(|x| may.contains(x));
                                QOut::Cmp(if ok { Ok(()) } else { Err(format!("bigBed {} [{},{}): got {:?}, linear scan must {:?}", names[ci], s, e, gg, must)) })
                            }
                        }
                    };
                    if cached {
                        run_all!(
                            |ctl| BigBedRead::open(mk(ctl)).unwrap().cached(),
                            |rd: &mut BigBedRead<_>, ci, s, e| q(&mut |n, s, e| rd.get_interval(n, s, e).map_err(|e| format!("{}", e)).and_then(collect_bed), ci, s, e),
                            |_rd: &mut BigBedRead<_>, _ci: usize, _s: u32, _e: u32, _lv: u32| QOut::Cmp(Ok(()))
                        );
                    } else {
                        run_all!(
                            |ctl| BigBedRead::open(mk(ctl)).unwrap(),
                            |rd: &mut BigBedRead<_>, ci, s, e| q(&mut |n, s, e| rd.get_interval(n, s, e).map_err(|e| format!("{}", e)).and_then(collect_bed), ci, s, e),
                            |_rd: &mut BigBedRead<_>, _ci: usize, _s: u32, _e: u32, _lv: u32| QOut::Cmp(Ok(()))
                        );
                    }
                } else {
                    let q = |g: Result<Vec<Triple>, String>, ci: usize, s: u32, e: u32| -> QOut {
                        match g {
                            Err(e) => QOut::IoErr(e),
                            Ok(g) => {
                                let want: Vec<(u32, u32)> = items[ci].iter().filter(|(a, b)| *a < e && *b > s).map(|(a, b)| ((*a).max(s), (*b).min(e))).collect();
                                let gg: Vec<(u32, u32)> = g.iter().map(|x| (x.0, x.1)).collect();
                                QOut::Cmp(if gg == want { Ok(()) } else { Err(format!("bigWig {} [{},{}): got {:?}, linear scan {:?}", names[ci], s, e, gg, want)) })
                            }
                        }
                    };
                    // zoom answers are compared with the fault-free answer of a fresh plain reader
                    let zref = |ci: usize, s: u32, e: u32, lv: u32| -> Vec<(u32, u32)> {
                        let mut r = BigWigRead::open(Cursor::new(bytes.to_vec())).unwrap();
                        match r.get_zoom_interval(&names[ci], s, e, lv) {
                            Ok(it) => it.filter_map(|z| z.ok()).map(|z| (z.start, z.end)).collect(),
                            Err(_) => vec![],
                        }
                    };
                    let zq = |g: Result<Vec<(u32, u32)>, String>, ci: usize, s: u32, e: u32, lv: u32| -> QOut {
                        match g {
                            Err(e) => QOut::IoErr(e),
                            Ok(g) => {
                                let want = zref(ci, s, e, lv);
                                QOut::Cmp(if g == want { Ok(()) } else { Err(format!("bigWig zoom {} {} [{},{}): got {:?}, fault-free {:?}", lv, names[ci], s, e, g, want)) })
                            }
                        }
                    };
                    macro_rules! zcollect {
                        ($rd:expr, $ci:expr, $s:expr, $e:expr, $lv:expr) => {
                            $rd.get_zoom_interval(&names[$ci], $s, $e, $lv).map_err(|e| format!("{}", e)).and_then(|it| {
                                let mut v = vec![];
                                for z in it {
                                    let z = z.map_err(|e| format!("{}", e))?;
                                    v.push((z.start, z.end));
                                }
                                Ok(v)
                            })
                        };
                    }
                    if cached {
                        run_all!(
                            |ctl| BigWigRead::open(mk(ctl)).unwrap().cached(),
                            |rd: &mut BigWigRead<_>, ci: usize, s, e| q(rd.get_interval(&names[ci], s, e).map_err(|e| format!("{}", e)).and_then(collect_wig), ci, s, e),
                            |rd: &mut BigWigRead<_>, ci: usize, s, e, lv| zq(zcollect!(rd, ci, s, e, lv), ci, s, e, lv)
                        );
                    } else {
                        run_all!(
                            |ctl| BigWigRead::open(mk(ctl)).unwrap(),
                            |rd: &mut BigWigRead<_>, ci: usize, s, e| q(rd.get_interval(&names[ci], s, e).map_err(|e| format!("{}", e)).and_then(collect_wig), ci, s, e),
                            |rd: &mut BigWigRead<_>, ci: usize, s, e, lv| zq(zcollect!(rd, ci, s, e, lv), ci, s, e, lv)
                        );
                    }
                }
            }
        }
    }
}

impl Check for C05 {
    type Case = C05Case;
    fn id(&self) -> &'static str {
        "C05"
    }
    fn cases(&self, tier: Tier) -> Box<dyn Iterator<Item = C05Case> + '_> {
        let (nmax, bmax) = if tier == Tier::Quick { (20, 5) } else { (40, 7) };
        let mut v = vec![];
        for n in 1..=nmax {
            for b in 2..=bmax {
                for nchrom in 1..=3u32 {
                    if nchrom > n {
                        continue;
                    }
                    v.push(C05Case { n, b, nchrom, bed: false, nested: false, faults: false, spread: false });
                    if nchrom == 1 || n % 3 == 0 {
                        v.push(C05Case { n, b, nchrom, bed: true, nested: false, faults: false, spread: false });
                    }
                    if nchrom == 1 || n % 3 == 1 {
                        v.push(C05Case { n, b, nchrom, bed: true, nested: true, faults: false, spread: false });
                    }
                }
            }
        }
        // a few large fan-outs so that node counts near the u16 child count are not special
        v.push(C05Case { n: 300, b: 256, nchrom: 2, bed: false, nested: false, faults: false, spread: false });
        v.push(C05Case { n: 1000, b: 10, nchrom: 3, bed: false, nested: false, faults: false, spread: false });
        // an index node above the leaves with more than 170 children (more than one 4 KiB page of
        // 24-byte entries): 30 000 blocks under fan-out 172 (plain readers only, for the time it takes)
        v.push(C05Case { n: 30_000, b: 172, nchrom: 1, bed: false, nested: false, faults: false, spread: false });
        v.push(C05Case { n: 300, b: 7, nchrom: 2, bed: true, nested: true, faults: false, spread: false });
        // nodes with more than 32 and more than 64 children whose spans nest
        v.push(C05Case { n: 200, b: 64, nchrom: 1, bed: true, nested: true, faults: false, spread: false });
        v.push(C05Case { n: 300, b: 256, nchrom: 1, bed: true, nested: true, faults: false, spread: false });
        // the same trees spread over a chromosome as long as u32 allows (positions 2^31 apart)
        for (n, b) in [(40u32, 4u32), (9, 2), (200, 64)] {
            v.push(C05Case { n, b, nchrom: 1, bed: false, nested: false, faults: false, spread: false }.spread());
            v.push(C05Case { n, b, nchrom: 1, bed: true, nested: true, faults: false, spread: false }.spread());
        }
        // reader-side fault histories on trees of 1-4 levels
        let fns: &[u32] = if tier == Tier::Quick { &[1, 2, 3, 5, 9] } else { &[1, 2, 3, 4, 5, 8, 9, 17, 28] };
        for &n in fns {
            for b in [2u32, 3] {
                for nchrom in [1u32, 2] {
                    if nchrom > n {
                        continue;
                    }
                    v.push(C05Case { n, b, nchrom, bed: false, nested: false, faults: true, spread: false });
                    v.push(C05Case { n, b, nchrom, bed: true, nested: true, faults: true, spread: false });
                }
            }
        }
        Box::new(v.into_iter())
    }
    fn run(&self, c: &C05Case, out: &mut Outcome) {
        // block i of the file goes to chromosome floor(i*nchrom/n); inside a chromosome the j-th
        // item is [3j+1, 3j+3)
        // spread: every coordinate is multiplied by k so that the items reach u32::MAX
        let k: u32 = if c.spread { (u32::MAX as u64 / (3 * c.n as u64 + 16)) as u32 } else { 1 };
        let mut per: Vec<Vec<(u32, u32)>> = vec![vec![]; c.nchrom as usize];
        for i in 0..c.n {
            let ci = (i * c.nchrom / c.n) as usize;
            let j = per[ci].len() as u32;
            let e = if c.nested && j % 4 == 0 { 3 * j + 15 } else { 3 * j + 3 };
            per[ci].push(((3 * j + 1) * k, e * k));
        }
        let len = (3 * c.n + 16) * k;
        if c.spread {
            out.count("trees_over_a_u32_limit_chromosome", 1);
        }
        let mut o = Opts::base();
        o.ips = 1;
        o.bs = c.b;
        o.compress = c.n % 2 == 0;
        // spread trees: resolutions in proportion, so that the zoom levels stay small
        o.zoom = if c.spread { Zoom::Manual(vec![1 << 22, 1 << 24]) } else { Zoom::Manual(vec![2, 4]) };
        o.two_pass = c.n % 3 == 0;
        let names: Vec<String> = (0..c.nchrom).map(|i| format!("k{}", i)).collect();
        let mut file_items: Vec<Vec<(u32, u32)>> = per.clone();
        let bytes = if c.bed {
            let bc = BedCase {
                chroms: (0..c.nchrom as usize)
                    .map(|ci| BChrom {
                        name: names[ci].clone(),
                        len,
                        items: per[ci]
                            .iter()
                            .enumerate()
                            .map(|(j, (s, e))| BItem { s: *s, e: *e, rest: format!("i{}", j) })
                            .collect(),
                    })
                    .collect(),
                extra_sizes: vec![],
                allow_ooo: false,
                autosql: None,
                opts: o.clone(),
            };
            do_write_bed(&bc, out)
        } else {
            let wc = WigCase {
                chroms: (0..c.nchrom as usize)
                    .map(|ci| WChrom {
                        name: names[ci].clone(),
                        len,
                        items: per[ci]
                            .iter()
                            .enumerate()
                            .map(|(j, (s, e))| WItem { s: *s, e: *e, vb: (j as f32 + 1.0).to_bits() })
                            .collect(),
                    })
                    .collect(),
                extra_sizes: vec![],
                allow_ooo: false,
                opts: o.clone(),
            };
            do_write_wig(&wc, out)
        };
        let Some(bytes) = bytes else { return };
        // (1) independent walk of every tree
        let dec = match indep::decode(&bytes) {
            Ok(d) => d,
            Err(e) => {
                out.fail("index_undecodable", &[], e);
                return;
            }
        };
        for p in dec.problems.iter().take(3) {
            out.fail(&format!("index_malformed:{}", crate::wfam::slug(p)), &[], p.clone());
        }
        if dec.main.leaves.len() != c.n as usize {
            out.fail(
                "index_leaf_count",
                &[],
                format!("{} leaves in the main index, {} blocks written", dec.main.leaves.len(), c.n),
            );
        }
        // leaves in file order
        if dec.main.leaves.windows(2).any(|w| w[1].off <= w[0].off) {
            out.fail("index_leaf_order", &[], "main index leaves not in file order".into());
        }
        out.count(&format!("main_index_levels_{}", dec.main.levels.min(5)), 1);
        if dec.main.partial_nodes > 0 {
            out.count("trees_with_partial_nodes", 1);
        }
        if dec.main.levels >= 4 {
            out.count("trees_with_4+_levels", 1);
        }
        out.nontrivial = dec.main.levels >= 2;
        // expected leaf count per level: ceil division chain
        {
            let mut cnt = c.n as usize;
            let mut levels = 1;
            while cnt > c.b as usize {
                cnt = (cnt + c.b as usize - 1) / c.b as usize;
                levels += 1;
            }
            if dec.main.levels != levels {
                out.fail(
                    "index_depth",
                    &[],
                    format!("main index has {} levels, {} blocks with fan-out {} need {}", dec.main.levels, c.n, c.b, levels),
                );
            }
        }
        if c.faults {
            let r = guarded(|| c05_fault_histories(c, &bytes, &names, len, &file_items, out));
            if let Err(p) = r {
                out.fail("read_panicked", &[], p);
            }
            return;
        }
        // (2) every boundary query = linear scan
        let r = guarded(|| {
            let mut coords = std::collections::BTreeSet::new();
            coords.insert(0u32);
            coords.insert(len);
            let maxitems = per.iter().map(|p| p.len()).max().unwrap_or(0) as u32;
            // boundary coordinates: quick keeps all for n <= 20; large trees sample every block
            // boundary but only +-1 around it (still every boundary)
            let big = c.n > 60 || (c.spread && c.n > 12);
            // anchors (large trees only): blocks next to node boundaries of the two lowest levels
            let mut anchors = std::collections::BTreeSet::new();
            for j in 0..maxitems {
                let near = |m: u32| j % m == 0 || j % m == m - 1;
                if big && !(j < 2 || j + 2 >= maxitems || near(c.b) || near(c.b * c.b)) {
                    continue;
                }
                // (tens of thousands of blocks: every tenth node boundary of the lowest level)
                if c.n >= 20_000 && !(j < 2 || j + 2 >= maxitems || near(c.b * c.b) || (j / c.b) % 10 == 0) {
                    continue;
                }
                let long_end = if c.nested && j % 4 == 0 { 3 * j + 15 } else { 3 * j + 3 };
                for p in [3 * j + 1, 3 * j + 3, long_end] {
                    let p = p * k;
                    coords.insert(p.saturating_sub(1));
                    coords.insert(p);
                    coords.insert(p.saturating_add(1));
                    if j < 2 || j + 2 >= maxitems || (c.b * c.b < maxitems && near(c.b * c.b)) {
                        anchors.insert(p);
                    }
                }
            }
            let coords: Vec<u32> = coords.into_iter().filter(|x| *x <= len).collect();
            let far_ok = |s: u32, e: u32| anchors.contains(&s) && anchors.contains(&e);
            if c.bed {
                let mut rd = BigBedRead::open(Cursor::new(bytes.clone())).unwrap();
                for (ci, name) in names.iter().enumerate() {
                    for (ai, &s) in coords.iter().enumerate() {
                        for &e in coords[ai..].iter() {
                            if big && (e - s) > 12 * k && !far_ok(s, e) {
                                continue;
                            }
                            if s == e {
                                continue;
                            }
                            out.count("index_queries", 1);
                            if let Err(m) = c05_bed_q(&mut rd, name, s, e, &file_items[ci]) {
                                out.fail("index_search_differs_from_linear_scan", &[], m);
                            }
                            // the caching reader, fresh for this first query, then every whole
                            // chromosome: nodes cached while answering a narrow query must serve
                            // every later one
                            if (!big || e - s <= 4 * k) && c.n < 20_000 {
                                out.count("cached_first_query_histories", 1);
                                let mut cr = BigBedRead::open(Cursor::new(bytes.clone())).unwrap().cached();
                                if let Err(m) = c05_bed_q(&mut cr, name, s, e, &file_items[ci]) {
                                    out.fail("cached_index_search_differs_from_linear_scan", &[], format!("first query: {}", m));
                                }
                                // the same query again: every node it needs is now served from the cache
                                if let Err(m) = c05_bed_q(&mut cr, name, s, e, &file_items[ci]) {
                                    out.fail("cached_index_search_differs_from_linear_scan", &[], format!("same query repeated: {}", m));
                                }
                                // calls that move the underlying source without the cache knowing
                                // (the summary and the item count are read through `raw_reader`)
                                let _ = cr.get_summary();
                                let _ = cr.item_count();
                                out.count("cached_histories_with_a_metadata_call", 1);
                                for (cj, nm) in names.iter().enumerate() {
                                    if let Err(m) = c05_bed_q(&mut cr, nm, 0, len, &file_items[cj]) {
                                        out.fail(
                                            "cached_index_search_differs_from_linear_scan",
                                            &[],
                                            format!("after {} [{},{}): {}", name, s, e, m),
                                        );
                                    }
                                }
                            }
                        }
                    }
                }
            } else {
                let mut rd = BigWigRead::open(Cursor::new(bytes.clone())).unwrap();
                let levels: Vec<u32> = rd.info().zoom_headers.iter().map(|z| z.reduction_level).collect();
                for (ci, name) in names.iter().enumerate() {
                    // zoom records of this chromosome from the independent decoder
                    let zrecs: Vec<(u32, Vec<(u32, u32)>)> = dec
                        .zooms
                        .iter()
                        .map(|z| {
                            (
                                z.reduction,
                                z.blocks
                                    .iter()
                                    .flatten()
                                    .filter(|r| r.chrom == ci as u32)
                                    .map(|r| (r.start, r.end))
                                    .collect(),
                            )
                        })
                        .collect();
                    for (ai, &s) in coords.iter().enumerate() {
                        for &e in coords[ai..].iter() {
                            if big && (e - s) > 12 * k && !far_ok(s, e) {
                                continue;
                            }
                            out.count("index_queries", 1);
                            if s < e {
                                if let Err(m) = c05_wig_q(&mut rd, name, s, e, &file_items[ci]) {
                                    out.fail("index_search_differs_from_linear_scan", &[], m);
                                }
                                if (!big || e - s <= 4 * k) && c.n < 20_000 {
                                    out.count("cached_first_query_histories", 1);
                                    let mut cr = BigWigRead::open(Cursor::new(bytes.clone())).unwrap().cached();
                                    if let Err(m) = c05_wig_q(&mut cr, name, s, e, &file_items[ci]) {
                                        out.fail("cached_index_search_differs_from_linear_scan", &[], format!("first query: {}", m));
                                    }
                                    if let Err(m) = c05_wig_q(&mut cr, name, s, e, &file_items[ci]) {
                                        out.fail("cached_index_search_differs_from_linear_scan", &[], format!("same query repeated: {}", m));
                                    }
                                    for (cj, nm) in names.iter().enumerate() {
                                        if let Err(m) = c05_wig_q(&mut cr, nm, 0, len, &file_items[cj]) {
                                            out.fail(
                                                "cached_index_search_differs_from_linear_scan",
                                                &[],
                                                format!("after {} [{},{}): {}", name, s, e, m),
                                            );
                                        }
                                    }
                                }
                            }
                            for &lv in &levels {
                                let Some((_, all)) = zrecs.iter().find(|z| z.0 == lv) else { continue };
                                out.count("zoom_index_queries", 1);
                                let got = rd.get_zoom_interval(name, s, e, lv).map_err(|e| format!("{}", e)).and_then(|it| {
                                    let mut v = vec![];
                                    for z in it {
                                        let z = z.map_err(|e| format!("{}", e))?;
                                        v.push((z.start, z.end));
                                    }
                                    Ok(v)
                                });
                                match got {
                                    Err(err) => out.fail("query_error", &[], format!("zoom {} {} [{},{}): {}", lv, name, s, e, err)),
                                    Ok(g) => {
                                        let must: Vec<&(u32, u32)> = all.iter().filter(|(a, b)| *a < e && *b > s).collect();
                                        let ok = g.windows(2).all(|w| w[0].0 < w[1].0)
                                            && must.iter().all(|m| g.contains(m))
                                            && g.iter().all(|x| all.contains(x) && x.0 <= e && x.1 >= s);
                                        if !ok {
                                            out.fail(
                                                "zoom_index_search_differs_from_linear_scan",
                                                &[],
                                                format!("zoom {} {} [{},{}): got {:?}, linear scan must {:?}", lv, name, s, e, g, must),
                                            );
                                        }
                                    }
                                }
                            }
                        }
                    }
                }
                for z in &dec.zooms {
                    out.count(&format!("zoom_index_levels_{}", z.index.levels.min(5)), 1);
                }
            }
        });
        if let Err(p) = r {
            out.fail("read_panicked", &[], p);
        }
        file_items.clear();
    }
    fn space(&self, tier: Tier) -> serde_json::Value {
        let (nmax, bmax) = if tier == Tier::Quick { (20, 5) } else { (40, 7) };
        json!({
            "blocks_n": format!("1..{}", nmax), "fan_out_b": format!("2..{}", bmax),
            "chromosome_splits": [1, 2, 3], "file_types": ["bigWig (main + zoom [2],[4] indexes)", "bigBed (main index)"],
            "queries": "every (s,e) with s,e in {block starts, block ends} +-{0,1}, plus 0 and chromosome end, per chromosome",
            "extra": ["n=300 b=256 and n=1000 b=10: queries around node boundaries of the two lowest levels, all short ranges, and all pairs of anchor coordinates"],
        })
    }
    fn case_cap_s(&self) -> u64 {
        300
    }
}
