//! Text-side checks: C18 (indexer, FileView, chunking) and C19 (autoSql generation + parser totality).
use crate::drive::*;
use crate::model::*;
use crate::sup::*;
use bigtools::bed::autosql::bed_autosql;
use bigtools::bed::autosql::parse::parse_autosql;
use bigtools::bed::bedparser::{parse_bed, parse_bedgraph, BedFileStream, StreamingBedValues};
use bigtools::bed::indexer::index_chroms;
use bigtools::utils::file_view::FileView;
use bigtools::utils::split_file_into_chunks_by_size;
use bigtools::utils::streaming_linereader::StreamingLineReader;
use bigtools::BigBedRead;
use serde::{Deserialize, Serialize};
use serde_json::json;
use std::fs::File;
use std::io::{BufReader, Cursor, Read, Seek, SeekFrom, Write};

// =============================================================================================
// C18

#[derive(Clone, Debug, Serialize, Deserialize)]
pub enum C18Case {
    /// text file: chromosome name index per run, run lengths, which line is long and by how much,
    /// final newline, bed (true) or bedGraph columns
    Text {
        runs: Vec<(usize, usize)>,
        long_line: Option<(usize, usize)>,
        final_newline: bool,
        bed: bool,
        /// BED name column made of two-byte UTF-8 characters (probes can land inside a character)
        #[serde(default)]
        utf8: bool,
        /// lines end in CR LF
        #[serde(default)]
        crlf: bool,
        /// three-column BED (1), also with a trailing blank (2) or a trailing tab (3) on every line;
    /// 4: all columns, start and end written with a leading plus sign
        #[serde(default)]
        tail: u8,
        /// extra bytes on the long line (byte granularity; `long_line` pads in steps of 12)
        #[serde(default)]
        extra_pad: usize,
    },
    /// FileView over a 10-byte file: window [a, b)
    View { a: u64, b: u64, depth: usize },
}

pub struct C18;

const NAMES: [&str; 4] = ["chrA", "chrB", "chrC", "chrD"];

fn text_lines(runs: &[(usize, usize)], long_line: Option<(usize, usize)>, bed: bool, utf8: bool, extra_pad: usize) -> Vec<String> {
    let mut lines = vec![];
    let mut n = 0usize;
    for (ci, len) in runs {
        for j in 0..*len {
            let s = 10 * j + 1;
            let pad = match long_line {
                Some((at, factor)) if at == n => factor * 12 + extra_pad,
                _ => 0,
            };
            if bed && utf8 {
                lines.push(format!("{}\t{}\t{}\t\u{e9}{}{}", NAMES[*ci], s, s + 5, n, "\u{3b2}".repeat(pad / 2 + 3)));
            } else if bed {
                lines.push(format!("{}\t{}\t{}\tn{}{}", NAMES[*ci], s, s + 5, n, "x".repeat(pad)));
            } else {
                lines.push(format!("{}\t{}\t{}\t1.5{}", NAMES[*ci], s, s + 5, "0".repeat(pad)));
            }
            n += 1;
        }
    }
    lines
}

fn text_bytes(lines: &[String], final_newline: bool) -> Vec<u8> {
    let mut t = lines.join("\n");
    if final_newline && !lines.is_empty() {
        t.push('\n');
    }
    t.into_bytes()
}

/// reference indexer: offset of the first line of each run; None if a name has two runs
fn linear_index(lines: &[String]) -> Option<Vec<(u64, String)>> {
    let mut out: Vec<(u64, String)> = vec![];
    let mut off = 0u64;
    for l in lines {
        let name = l.split('\t').next().unwrap().to_string();
        if out.last().map(|x| x.1 != name).unwrap_or(true) {
            if out.iter().any(|x| x.1 == name) {
                return None;
            }
            out.push((off, name));
        }
        off += l.len() as u64 + 1;
    }
    Some(out)
}

fn records_serial(bytes: &[u8], bed: bool) -> Vec<String> {
    let mut v = vec![];
    if bed {
        let mut s = BedFileStream { bed: StreamingLineReader::new(BufReader::new(Cursor::new(bytes.to_vec()))), parse: parse_bed };
        while let Some(r) = s.next() {
            match r {
                Ok((c, e)) => v.push(format!("{} {} {} {}", c, e.start, e.end, e.rest)),
                Err(e) => v.push(format!("ERR {}", e)),
            }
        }
    } else {
        let mut s = BedFileStream { bed: StreamingLineReader::new(BufReader::new(Cursor::new(bytes.to_vec()))), parse: parse_bedgraph };
        while let Some(r) = s.next() {
            match r {
                Ok((c, e)) => v.push(format!("{} {} {} {}", c, e.start, e.end, e.value)),
                Err(e) => v.push(format!("ERR {}", e)),
            }
        }
    }
    v
}

fn records_view(path: &std::path::Path, start: u64, end: u64, bed: bool) -> Vec<String> {
    let f = FileView::new(File::open(path).unwrap(), start, end).unwrap();
    let mut v = vec![];
    if bed {
        let mut s = BedFileStream { bed: StreamingLineReader::new(BufReader::new(f)), parse: parse_bed };
        while let Some(r) = s.next() {
            match r {
                Ok((c, e)) => v.push(format!("{} {} {} {}", c, e.start, e.end, e.rest)),
                Err(e) => v.push(format!("ERR {}", e)),
            }
        }
    } else {
        let mut s = BedFileStream { bed: StreamingLineReader::new(BufReader::new(f)), parse: parse_bedgraph };
        while let Some(r) = s.next() {
            match r {
                Ok((c, e)) => v.push(format!("{} {} {} {}", c, e.start, e.end, e.value)),
                Err(e) => v.push(format!("ERR {}", e)),
            }
        }
    }
    v
}

fn c18_text(runs: &[(usize, usize)], long_line: Option<(usize, usize)>, final_newline: bool, bed: bool, utf8: bool, crlf: bool, tail: u8, extra_pad: usize, out: &mut Outcome) {
    let mut lines = text_lines(runs, long_line, bed, utf8, extra_pad);
    if tail == 4 {
        // coordinates written with a sign (`+12`): the integer parser of the rows takes them, so
        // whatever else looks at the rows has to take them as well
        for l in lines.iter_mut() {
            let f: Vec<&str> = l.splitn(4, '\t').collect();
            *l = format!("{}\t+{}\t+{}\t{}", f[0], f[1], f[2], f.get(3).unwrap_or(&""));
        }
    } else if tail > 0 {
        // the minimal BED: chromosome, start, end and nothing else
        for l in lines.iter_mut() {
            let three: Vec<&str> = l.split('\t').take(3).collect();
            *l = three.join("\t") + ["", "", " ", "\t"][tail as usize];
        }
    }
    if crlf {
        // CR LF line ends: the CR is the last byte of every terminated line
        let n = lines.len();
        for (i, l) in lines.iter_mut().enumerate() {
            if final_newline || i + 1 < n {
                l.push('\r');
            }
        }
    }
    let bytes = text_bytes(&lines, final_newline);
    let mut tf = tempfile::NamedTempFile::new().expect("tempfile");
    tf.write_all(&bytes).unwrap();
    tf.flush().unwrap();
    let path = tf.path().to_path_buf();
    if lines.is_empty() {
        // the empty file: the chunker must still give a partition of [0, 0) for every chunk count
        // (what the indexer says about a file without a line is not prescribed)
        out.nontrivial = true;
        out.count("empty_files", 1);
        let _ = guarded(|| index_chroms(File::open(&path).unwrap())).map_err(|p| out.fail("indexer_panicked", &["empty_file".to_string()], p));
        for n in [1u64, 2, 3, 6, 16, 1000] {
            out.count("chunkings", 1);
            match guarded(|| split_file_into_chunks_by_size(File::open(&path).unwrap(), n)) {
                Err(p) => out.fail("chunker_panicked", &["empty_file".to_string()], format!("chunks={}: {}", n, p)),
                Ok(Err(e)) => out.fail("chunker_error", &["empty_file".to_string()], format!("chunks={}: {}", n, e)),
                Ok(Ok(ch)) => {
                    if ch.is_empty() || ch.iter().any(|c| *c != (0, 0)) {
                        out.fail("chunks_not_a_line_aligned_partition", &["empty_file".to_string()], format!("chunks={} -> {:?} for an empty file", n, ch));
                    }
                }
            }
        }
        return;
    }
    let want = linear_index(&lines);
    let mut tags = vec![];
    if long_line.is_some() {
        tags.push("long_line".to_string());
    }
    if utf8 {
        tags.push("non_ascii_text".to_string());
    }
    if lines.len() < 6 {
        tags.push("fewer_than_6_lines".to_string());
    }
    out.nontrivial = runs.len() >= 2;
    if want.is_none() {
        out.count("non_grouped_files", 1);
    }
    // (a) indexer
    let got = guarded(|| index_chroms(File::open(&path).unwrap()));
    let idx = match got {
        Err(p) => {
            out.fail("indexer_panicked", &tags, p);
            None
        }
        Ok(Err(e)) => {
            out.fail("indexer_error_on_valid_file", &tags, format!("{}", e));
            None
        }
        Ok(Ok(g)) => {
            if want.is_none() && g.is_some() {
                // a bisecting indexer cannot see a second run of a name it never probes; the
                // consumer of the index (the parallel source) refuses such a file when it meets
                // the foreign line, which is checked here as well
                out.fail(
                    "non_grouped_file_not_reported",
                    &tags,
                    format!("index_chroms = {:?} for a file in which a chromosome has two runs: {:?}", g, runs),
                );
            } else if g != want {
                out.fail(
                    "index_differs_from_linear_scan",
                    &tags,
                    format!("index_chroms = {:?}, linear scan = {:?} ({} lines, {} bytes)", g, want, lines.len(), bytes.len()),
                );
            }
            g
        }
    };
    out.count("indexed_files", 1);
    // (c) chunking
    let size = bytes.len() as u64;
    let mut line_starts = std::collections::BTreeSet::new();
    let mut off = 0u64;
    for l in &lines {
        line_starts.insert(off);
        off += l.len() as u64 + 1;
    }
    let serial = records_serial(&bytes, bed);
    // every chunk count up to lines + 2; for files of at most 200 bytes also every count up to
    // bytes + 3 (more chunks than bytes: the chunk size rounds to 0) and a few far larger ones
    let mut counts: Vec<u64> = (1..=(lines.len() as u64 + 2)).collect();
    if size <= 200 {
        counts.extend((lines.len() as u64 + 3)..=(size + 3));
        counts.extend([2 * size + 1, 1000, 65_536]);
    }
    // a handle that has been read from before (someone sniffed the first line, or read it all): the
    // chunks are those of the file, not of what is left of the handle
    for n in [2u64, 3, lines.len() as u64] {
        let fresh = guarded(|| split_file_into_chunks_by_size(File::open(&path).unwrap(), n)).ok().and_then(|r| r.ok());
        for adv in [1u64, 7, size / 2, size] {
            out.count("chunkings_of_a_used_handle", 1);
            let got = guarded(|| {
                use std::io::{Seek, SeekFrom};
                let mut f = File::open(&path).unwrap();
                f.seek(SeekFrom::Start(adv.min(size))).unwrap();
                split_file_into_chunks_by_size(f, n)
            })
            .ok()
            .and_then(|r| r.ok());
            if got != fresh {
                out.fail("chunks_depend_on_the_handle_position", &tags, format!("chunks={} handle advanced by {}: {:?}, fresh handle {:?}", n, adv, got, fresh));
            }
        }
    }
    for n in counts {
        out.count("chunkings", 1);
        match guarded(|| split_file_into_chunks_by_size(File::open(&path).unwrap(), n)) {
            Err(p) => out.fail("chunker_panicked", &tags, format!("chunks={}: {}", n, p)),
            Ok(Err(e)) => out.fail("chunker_error", &tags, format!("chunks={}: {}", n, e)),
            Ok(Ok(ch)) => {
                let mut ok = !ch.is_empty() && ch[0].0 == 0 && ch.last().unwrap().1 == size;
                for w in ch.windows(2) {
                    ok &= w[0].1 == w[1].0;
                }
                for c in &ch {
                    ok &= c.0 <= c.1 && (line_starts.contains(&c.0) || c.0 == size);
                }
                if !ok {
                    out.fail(
                        "chunks_not_a_line_aligned_partition",
                        &tags,
                        format!("chunks={} -> {:?} for a file of {} bytes with line starts {:?}", n, ch, size, line_starts),
                    );
                    continue;
                }
                // (d) composition through per-chunk views
                let r = guarded(|| {
                    let mut all = vec![];
                    for (s, e) in &ch {
                        all.extend(records_view(&path, *s, *e, bed));
                    }
                    all
                });
                match r {
                    Err(p) => out.fail("view_panicked", &tags, p),
                    Ok(all) => {
                        if all != serial {
                            out.fail(
                                "chunk_views_differ_from_serial_stream",
                                &tags,
                                format!("chunks={:?}: {} records through views vs {} serial", ch, all.len(), serial.len()),
                            );
                        }
                    }
                }
            }
        }
    }
    // (d) composition through per-chromosome views, built as the parallel source builds them:
    // from the reference index (isolates FileView) and from the indexer's own answer
    if want.is_none() {
        if let Some(index) = &idx {
            // the file is not grouped but was indexed: some per-chromosome view must then contain
            // a line of another chromosome (which the parallel source refuses), otherwise lines
            // would be silently dropped or misattributed
            let r = guarded(|| {
                let mut foreign = false;
                let mut total = 0usize;
                for (i, (s, name)) in index.iter().enumerate() {
                    let e = index.get(i + 1).map(|x| x.0).unwrap_or(u64::MAX);
                    for rec in records_view(&path, *s, e, bed) {
                        total += 1;
                        if rec.split(' ').next() != Some(name.as_str()) {
                            foreign = true;
                        }
                    }
                }
                (foreign, total)
            });
            match r {
                Ok((foreign, total)) => {
                    if !foreign {
                        out.fail("non_grouped_file_silently_accepted", &tags, format!("index {:?} over a non-grouped file yields {} of {} records and no view sees a foreign line", index, total, lines.len()));
                    } else {
                        out.count("non_grouped_files_refused_downstream", 1);
                    }
                }
                Err(p) => out.fail("view_panicked", &tags, p),
            }
        }
    }
    for (label, index) in [("linear_index", want.clone()), ("index_chroms", idx)] {
        let Some(index) = index else { continue };
        let r = guarded(|| {
            let mut all = vec![];
            for (i, (s, _)) in index.iter().enumerate() {
                let e = index.get(i + 1).map(|x| x.0).unwrap_or(u64::MAX);
                all.extend(records_view(&path, *s, e, bed));
            }
            all
        });
        out.count("compositions", 1);
        match r {
            Err(p) => out.fail("view_panicked", &tags, p),
            Ok(all) => {
                if all != serial && label == "linear_index" {
                    out.fail(
                        "chromosome_views_differ_from_serial_stream",
                        &tags,
                        format!("{} records through per-chromosome views vs {} serial", all.len(), serial.len()),
                    );
                }
            }
        }
    }
}

// ---- FileView state exploration -----------------------------------------------------------

#[derive(Clone, Copy, Debug, PartialEq, Eq, Hash)]
enum VOp {
    Read(usize),
    Start(u64),
    Cur(i64),
    End(i64),
    /// the provided methods of Read / Seek, which an implementation may override
    ReadToEnd,
    ReadToString,
    ReadExact(usize),
    ReadVectored(usize, usize),
    Rewind,
    StreamPosition,
}

fn view_ops(len: i64) -> Vec<VOp> {
    let mut v = vec![VOp::Read(0), VOp::Read(1), VOp::Read(3), VOp::Read(100)];
    v.extend([VOp::ReadToEnd, VOp::ReadToString, VOp::ReadExact(2), VOp::ReadVectored(1, 2), VOp::Rewind, VOp::StreamPosition]);
    let mut ks = std::collections::BTreeSet::new();
    for k in [0, 1, -1, len - 1, len, len + 3, 100, -100, -len, -len - 1] {
        ks.insert(k);
    }
    for k in &ks {
        if *k >= 0 {
            v.push(VOp::Start(*k as u64));
        }
        v.push(VOp::Cur(*k));
        v.push(VOp::End(*k));
    }
    v
}

/// Apply `ops` to a fresh view and to the reference cursor; returns the final reference position
/// or a failure description.
fn run_view_history(path: &std::path::Path, content: &[u8], a: u64, b: u64, ops: &[VOp]) -> Result<u64, (String, String)> {
    let mut fv = FileView::new(File::open(path).unwrap(), a, b).map_err(|e| ("view_error".to_string(), format!("new: {}", e)))?;
    let win = &content[(a as usize).min(content.len())..(b as usize).min(content.len())];
    let len = win.len() as i64;
    let mut p: i64 = 0;
    for (i, op) in ops.iter().enumerate() {
        let ctx = |m: String| format!("window [{},{}) ops {:?} step {}: {}", a, b, ops, i, m);
        match op {
            VOp::Read(n) => {
                let mut buf = vec![0u8; *n];
                let got = fv.read(&mut buf).map_err(|e| ("view_read_error".to_string(), ctx(format!("{}", e))))?;
                let avail = (len - p).max(0) as usize;
                if got > avail.min(*n) {
                    return Err(("view_reads_outside_window".into(), ctx(format!("read({}) returned {} bytes at position {} of {}", n, got, p, len))));
                }
                if buf[..got] != win[p as usize..p as usize + got] {
                    return Err(("view_read_wrong_bytes".into(), ctx(format!("read({}) at {} returned {:?}", n, p, &buf[..got]))));
                }
                if got == 0 && *n > 0 && avail > 0 {
                    return Err(("view_premature_eof".into(), ctx(format!("read({}) returned 0 at position {} of {}", n, p, len))));
                }
                p += got as i64;
            }
            VOp::ReadToEnd | VOp::ReadToString => {
                let avail = (len - p).max(0) as usize;
                let want = &win[(p as usize).min(win.len())..];
                let got: Vec<u8> = if *op == VOp::ReadToEnd {
                    let mut buf = vec![];
                    fv.read_to_end(&mut buf).map_err(|e| ("view_read_error".to_string(), ctx(format!("read_to_end: {}", e))))?;
                    buf
                } else {
                    let mut st = String::new();
                    fv.read_to_string(&mut st).map_err(|e| ("view_read_error".to_string(), ctx(format!("read_to_string: {}", e))))?;
                    st.into_bytes()
                };
                if got != want {
                    return Err(("view_read_wrong_bytes".into(), ctx(format!("bulk read at {} returned {:?}, the window holds {:?}", p, got, want))));
                }
                p += avail as i64;
            }
            VOp::ReadExact(n) => {
                let avail = (len - p).max(0) as usize;
                let mut buf = vec![0u8; *n];
                match fv.read_exact(&mut buf) {
                    Ok(()) => {
                        if avail < *n || buf[..] != win[p as usize..p as usize + n] {
                            return Err(("view_read_wrong_bytes".into(), ctx(format!("read_exact({}) at {} of {} returned {:?}", n, p, len, buf))));
                        }
                        p += *n as i64;
                    }
                    Err(_) => {
                        if avail >= *n {
                            return Err(("view_premature_eof".into(), ctx(format!("read_exact({}) failed at position {} of {}", n, p, len))));
                        }
                        // a failed read_exact leaves the position unspecified: resynchronise
                        let np = fv.seek(SeekFrom::Current(0)).map_err(|e| ("view_unusable_after_failed_seek".to_string(), ctx(format!("{}", e))))?;
                        if np as i64 > len {
                            return Err(("view_seek_outside_window".into(), ctx(format!("position {} after failed read_exact", np))));
                        }
                        p = np as i64;
                    }
                }
            }
            VOp::ReadVectored(n1, n2) => {
                let avail = (len - p).max(0) as usize;
                let mut b1 = vec![0u8; *n1];
                let mut b2 = vec![0u8; *n2];
                let got = {
                    let mut io = [std::io::IoSliceMut::new(&mut b1), std::io::IoSliceMut::new(&mut b2)];
                    fv.read_vectored(&mut io).map_err(|e| ("view_read_error".to_string(), ctx(format!("read_vectored: {}", e))))?
                };
                let mut joined = b1.clone();
                joined.extend_from_slice(&b2);
                if got > avail.min(n1 + n2) {
                    return Err(("view_reads_outside_window".into(), ctx(format!("read_vectored returned {} bytes at position {} of {}", got, p, len))));
                }
                if joined[..got] != win[p as usize..p as usize + got] {
                    return Err(("view_read_wrong_bytes".into(), ctx(format!("read_vectored at {} returned {:?}", p, &joined[..got]))));
                }
                if got == 0 && avail > 0 {
                    return Err(("view_premature_eof".into(), ctx(format!("read_vectored returned 0 at position {} of {}", p, len))));
                }
                p += got as i64;
            }
            VOp::Rewind => {
                fv.rewind().map_err(|e| ("view_seek_error_in_range".to_string(), ctx(format!("rewind: {}", e))))?;
                p = 0;
            }
            VOp::StreamPosition => {
                let np = fv.stream_position().map_err(|e| ("view_seek_error_in_range".to_string(), ctx(format!("stream_position: {}", e))))?;
                if np as i64 != p {
                    return Err(("view_seek_wrong_position".into(), ctx(format!("stream_position reported {}, the cursor is at {}", np, p))));
                }
            }
            seek => {
                let (req, target) = match seek {
                    VOp::Start(k) => (SeekFrom::Start(*k), *k as i64),
                    VOp::Cur(d) => (SeekFrom::Current(*d), p + d),
                    VOp::End(d) => (SeekFrom::End(*d), len + d),
                    _ => unreachable!(),
                };
                let in_range = target >= 0 && target <= len;
                match fv.seek(req) {
                    Ok(np) => {
                        if in_range && np as i64 != target {
                            return Err(("view_seek_wrong_position".into(), ctx(format!("{:?} from {} reported {}, a {}-byte file reports {}", req, p, np, len, target))));
                        }
                        if np as i64 > len {
                            return Err(("view_seek_outside_window".into(), ctx(format!("{:?} reported {} beyond the window length {}", req, np, len))));
                        }
                        p = np as i64;
                    }
                    Err(e) => {
                        if in_range {
                            return Err(("view_seek_error_in_range".into(), ctx(format!("{:?}: {}", req, e))));
                        }
                        // out of range: an error is acceptable; resynchronise on the reported position
                        let np = fv.seek(SeekFrom::Current(0)).map_err(|e| ("view_unusable_after_failed_seek".to_string(), ctx(format!("{}", e))))?;
                        if np as i64 > len {
                            return Err(("view_seek_outside_window".into(), ctx(format!("position {} after failed seek", np))));
                        }
                        p = np as i64;
                    }
                }
            }
        }
    }
    Ok(p as u64)
}

fn c18_view(a: u64, b: u64, depth: usize, out: &mut Outcome) {
    let content: Vec<u8> = (0..10u8).map(|i| b'a' + i).collect();
    let mut tf = tempfile::NamedTempFile::new().expect("tempfile");
    tf.write_all(&content).unwrap();
    tf.flush().unwrap();
    let path = tf.path().to_path_buf();
    let len = (b.min(10) as i64 - a.min(10) as i64).max(0);
    let ops = view_ops(len);
    out.nontrivial = len > 0;
    let tags = vec![if a == 0 { "window_at_file_start".to_string() } else { "window_inside_file".to_string() }];
    // breadth-first over positions: state = reported position, reached by replaying a history
    let mut seen: std::collections::BTreeMap<u64, Vec<VOp>> = std::collections::BTreeMap::new();
    let mut frontier: std::collections::VecDeque<Vec<VOp>> = std::collections::VecDeque::new();
    seen.insert(0, vec![]);
    frontier.push_back(vec![]);
    let mut failed_kinds = std::collections::BTreeSet::new();
    while let Some(hist) = frontier.pop_front() {
        for op in &ops {
            let mut h = hist.clone();
            h.push(*op);
            out.count("view_transitions", 1);
            match guarded(|| run_view_history(&path, &content, a, b, &h)) {
                Err(p) => {
                    if failed_kinds.insert("view_panicked".to_string()) {
                        out.fail("view_panicked", &tags, format!("window [{},{}) ops {:?}: {}", a, b, h, p));
                    }
                }
                Ok(Err((k, d))) => {
                    if failed_kinds.insert(k.clone()) {
                        out.fail(&k, &tags, d);
                    }
                }
                Ok(Ok(pos)) => {
                    if !seen.contains_key(&pos) {
                        seen.insert(pos, h.clone());
                        frontier.push_back(h);
                    }
                }
            }
        }
    }
    out.count("view_states", seen.len() as u64);
    out.count("view_windows", 1);
    // all sequences up to `depth` without deduplication
    if depth >= 2 {
        let n = ops.len();
        let total = n.pow(depth as u32);
        for code in 0..total {
            let mut h = vec![];
            let mut x = code;
            for _ in 0..depth {
                h.push(ops[x % n]);
                x /= n;
            }
            out.count("view_transitions", depth as u64);
            out.count("view_histories", 1);
            match guarded(|| run_view_history(&path, &content, a, b, &h)) {
                Err(p) => {
                    if failed_kinds.insert("view_panicked".to_string()) {
                        out.fail("view_panicked", &tags, format!("window [{},{}) ops {:?}: {}", a, b, h, p));
                    }
                }
                Ok(Err((k, d))) => {
                    if failed_kinds.insert(k.clone()) {
                        out.fail(&k, &tags, d);
                    }
                }
                Ok(Ok(_)) => {}
            }
        }
    }
}

fn run_shapes(max_runs: usize, max_len: usize) -> Vec<Vec<(usize, usize)>> {
    // grouped: runs of chrA, chrB, ... each with length 1..max_len
    let mut out = vec![];
    fn rec(k: usize, max_runs: usize, max_len: usize, cur: &mut Vec<(usize, usize)>, out: &mut Vec<Vec<(usize, usize)>>) {
        if !cur.is_empty() {
            out.push(cur.clone());
        }
        if k == max_runs {
            return;
        }
        for l in 1..=max_len {
            cur.push((k, l));
            rec(k + 1, max_runs, max_len, cur, out);
            cur.pop();
        }
    }
    rec(0, max_runs, max_len, &mut vec![], &mut out);
    out.sort_by_key(|r| (r.iter().map(|x| x.1).sum::<usize>(), r.len()));
    out
}

/// grouped files whose runs are NOT in name order (legal when only starts must be sorted): the
/// index must list the runs in file order
fn unsorted_grouped_shapes() -> Vec<Vec<(usize, usize)>> {
    let mut v = vec![];
    for pat in [vec![1usize, 0], vec![0, 2, 1], vec![3, 2, 1, 0], vec![2, 0, 3, 1], vec![0, 1, 3, 2], vec![1, 0, 2]] {
        for l in 1..=3usize {
            for l2 in 1..=2usize {
                v.push(pat.iter().enumerate().map(|(i, c)| (*c, if i % 2 == 0 { l } else { l2 })).collect());
            }
        }
    }
    v
}

fn nongrouped_shapes() -> Vec<Vec<(usize, usize)>> {
    let mut v = vec![];
    for pat in [vec![0, 1, 0], vec![0, 1, 2, 0], vec![0, 1, 0, 1], vec![0, 1, 2, 1], vec![0, 1, 2, 3, 0]] {
        for l in 1..=2usize {
            for l2 in 1..=2usize {
                v.push(pat.iter().enumerate().map(|(i, c)| (*c, if i % 2 == 0 { l } else { l2 })).collect());
            }
        }
    }
    v
}

impl Check for C18 {
    type Case = C18Case;
    fn id(&self) -> &'static str {
        "C18"
    }
    fn cases(&self, tier: Tier) -> Box<dyn Iterator<Item = C18Case> + '_> {
        let quick = tier == Tier::Quick;
        let mut v = vec![];
        let shapes: Vec<Vec<(usize, usize)>> = run_shapes(4, if quick { 3 } else { 5 }).into_iter().chain(nongrouped_shapes().into_iter()).chain(unsorted_grouped_shapes().into_iter()).collect();
        for runs in shapes {
            let nlines: usize = runs.iter().map(|r| r.1).sum();
            let mut longs: Vec<Option<(usize, usize)>> = vec![None];
            for at in 0..nlines {
                // x800 / x1500: one line longer than one / two 8 KiB reader buffers
                for f in [3usize, 10, 40, 800, 1500] {
                    if quick && (f == 10 || f == 1500) {
                        continue;
                    }
                    longs.push(Some((at, f)));
                }
                // x100 000: a line of 1.2 MB (longer than any fixed read limit) on the files of
                // up to three runs of at most two lines
                if runs.len() <= 3 && runs.iter().all(|r| r.1 <= 2) {
                    longs.push(Some((at, 100_000)));
                }
            }
            for ll in longs {
                for final_newline in [true, false] {
                    for bed in [false, true] {
                        if quick && bed && ll.is_some() && !final_newline {
                            continue;
                        }
                        v.push(C18Case::Text { runs: runs.clone(), long_line: ll, final_newline, bed, utf8: false, crlf: false, tail: 0, extra_pad: 0 });
                        if ll.is_none() || ll.map(|x| x.1) == Some(3) {
                            v.push(C18Case::Text { runs: runs.clone(), long_line: ll, final_newline, bed, utf8: false, crlf: true, tail: 0, extra_pad: 0 });
                        }
                        if ll.is_none() {
                            v.push(C18Case::Text { runs: runs.clone(), long_line: ll, final_newline, bed, utf8: false, crlf: false, tail: 4, extra_pad: 0 });
                        }
                        if bed && ll.is_none() {
                            for (tail, crlf) in [(1u8, false), (1, true), (2, false), (3, false), (2, true)] {
                                v.push(C18Case::Text { runs: runs.clone(), long_line: ll, final_newline, bed, utf8: false, crlf, tail, extra_pad: 0 });
                            }
                        }
                        if bed && final_newline && (ll.is_none() || ll.map(|x| x.1) == Some(3)) {
                            v.push(C18Case::Text { runs: runs.clone(), long_line: ll, final_newline, bed, utf8: true, crlf: false, tail: 0, extra_pad: 0 });
                        }
                    }
                }
            }
        }
        // every alignment of a line end relative to the readers' 8 KiB buffers: a line of 16 200 ..
        // 16 600 bytes (step 1 byte; quick: step 2) at the start of a file of three runs, so that the
        // indexer's first probe lands in it 8 100 .. 8 300 bytes before its end, and the same line
        // as the first line of the second run
        for extra_pad in (0..=400usize).step_by(if quick { 2 } else { 1 }) {
            for (runs, at) in [(vec![(0usize, 2usize), (1, 2), (2, 1)], 0usize), (vec![(0, 1), (1, 2), (2, 2)], 1)] {
                let bed = extra_pad % 4 < 2;
                v.push(C18Case::Text { runs, long_line: Some((at, 1350)), final_newline: true, bed, utf8: false, crlf: false, tail: 0, extra_pad });
            }
        }
        // a line of two-byte characters across the readers' 8 KiB buffer ends, at both parities:
        // behind 0 .. 7 short lines (whose lengths differ), in the first and in the second run
        for at in 0..8usize {
            for runs in [vec![(0usize, 9usize), (1, 2), (2, 1)], vec![(0, at.max(1)), (1, 3), (2, 2)]] {
                v.push(C18Case::Text { runs, long_line: Some((at, 1350)), final_newline: at % 2 == 0, bed: true, utf8: true, crlf: false, tail: 0, extra_pad: 2 * (at % 2) });
            }
        }
        // the empty file
        v.push(C18Case::Text { runs: vec![], long_line: None, final_newline: false, bed: true, utf8: false, crlf: false, tail: 0, extra_pad: 0 });
        // one larger file: many lines per run, so that probes land well inside runs
        for final_newline in [true, false] {
            v.push(C18Case::Text { runs: vec![(0, 40), (1, 1), (2, 25), (3, 2)], long_line: Some((41, 40)), final_newline, bed: false, utf8: false, crlf: false, tail: 0, extra_pad: 0 });
            v.push(C18Case::Text { runs: vec![(0, 40), (1, 1), (2, 25), (3, 2)], long_line: Some((41, 40)), final_newline, bed: true, utf8: true, crlf: false, tail: 0, extra_pad: 0 });
        }
        let depth = if quick { 2 } else { 3 };
        for a in 0..=10u64 {
            for b in a..=12u64 {
                v.push(C18Case::View { a, b, depth });
            }
        }
        Box::new(v.into_iter())
    }
    fn run(&self, case: &C18Case, out: &mut Outcome) {
        match case {
            C18Case::Text { runs, long_line, final_newline, bed, utf8, crlf, tail, extra_pad } => c18_text(runs, *long_line, *final_newline, *bed, *utf8, *crlf, *tail, *extra_pad, out),
            C18Case::View { a, b, depth } => c18_view(*a, *b, *depth, out),
        }
    }
    fn space(&self, tier: Tier) -> serde_json::Value {
        let q = tier == Tier::Quick;
        json!({
            "run_shapes": run_shapes(4, if q {3} else {4}).len(), "max_runs": 4, "max_run_length": if q {3} else {4},
            "non_grouped_shapes": nongrouped_shapes().len(),
            "grouped_shapes_with_runs_not_in_name_order": unsorted_grouped_shapes().len(),
            "line_patterns": "uniform; one line longer by x3 / x10 / x40 / x800 (9.6 KB) / x1500 (18 KB) at every position",
            "final_newline": [true, false], "formats": ["bedGraph", "bed"],
            "chunk_counts": "1..lines+2 for every file",
            "view_windows": "all 0<=a<=b<=12, a<=10 over a 10-byte file",
            "view_ops": view_ops(10).len(), "view_history_depth": if q {2} else {3},
        })
    }
    fn case_cap_s(&self) -> u64 {
        120
    }
}

// =============================================================================================
// C19

#[derive(Clone, Debug, Serialize, Deserialize)]
pub enum C19Case {
    /// generated schema for n extra columns, through the library writer
    Generated { extra: usize },
    /// supplied schema, stored verbatim with its declared field count
    Supplied { idx: usize },
    /// a block of the short-string space: all strings of length `len` over the delimiter alphabet
    /// whose first character has index `first`, with each keyword prefix
    Strings { len: usize, first: usize },
    /// every truncation and single-token mutation of generated schema number `idx`
    Mutations { idx: usize },
    /// generated grammar schemas, block `block` of 64
    Grammar { block: usize },
    /// the bedtobigbed tool: schema generated from the first BED line
    ToolGenerated { extra: usize, threads: usize },
    /// the bedtobigbed tool with --autosql
    ToolSupplied { idx: usize },
    /// the supplied schema file starts with a byte order mark (as Windows editors save it): the
    /// text is stored as it is, mark included (what the field count is then is not prescribed)
    ToolSuppliedBom { idx: usize, stdin: bool },
    /// the bedtobigbed tool reading the BED from standard input (spelling 0..3 of the input
    /// argument), with --autosql (schema idx) or without
    ToolStdin { idx: Option<usize>, spelling: usize, extra: usize },
    /// schema generated from a first line whose `extra` columns are `width` bytes wide, BED from a
    /// file (stdin None) or from standard input
    ToolWide { stdin: Option<usize>, extra: usize, width: usize },
    /// the Python binding: write(..., autosql=) then sql(); sql() on an encoder-written file
    Py { idx: Option<usize>, extra: usize },
}

const STDIN_SPELLINGS: [&str; 3] = ["-", "stdin", "/dev/stdin"];

pub struct C19;

const ALPHA: [&str; 12] = ["a", " ", ";", "(", ")", "[", "]", ",", "\"", "\u{e9}", "\\", "\u{3000}"];
const PREFIXES: [&str; 6] = ["", "table t \"c\" (", "table t \"c\" ( enum(", "table t \"c\" ( set(", "table t \"c\" ( int x", "table t \"c\" ( int[ "];
const SUFFIXES: [&str; 3] = ["", " ) ", "; \"c\" )"];

fn supplied_schemas() -> Vec<(String, usize)> {
    vec![
        (crate::wfam::CUSTOM_AS.to_string(), 4),
        ("table t\n\"c\"\n(\nstring chrom; \"a\"\nuint chromStart; \"b\"\nuint chromEnd; \"c\"\n)".to_string(), 3),
        ("table bed6 \"six\" ( string chrom; \"\" uint chromStart; \"\" uint chromEnd; \"\" string name; \"\" uint score; \"\" char[1] strand; \"\" )".to_string(), 6),
        ("table e \"enum and set\" (\n string chrom; \"c\"\n uint chromStart; \"s\"\n uint chromEnd; \"e\"\n enum(a, b, c) kind; \"k\"\n set(x,y) flags; \"f\"\n int[3] fixed; \"arr\"\n uint n; \"count\"\n int[n] vals; \"var\"\n lstring blob; \"l\"\n)\n".to_string(), 9),
        // a helper declaration before the table: the table's fields are the declared columns
        ("simple point \"a helper type\" ( int x; \"x\" int y; \"y\" )\ntable main \"rows\" ( string chrom; \"c\" uint chromStart; \"s\" uint chromEnd; \"e\" string name; \"n\" uint score; \"v\" )".to_string(), 5),
        ("object big \"seven\" ( int a; \"\" int b; \"\" int c; \"\" int d; \"\" int e; \"\" int f; \"\" int g; \"\" )\ntable small \"rows\" ( string chrom; \"c\" uint chromStart; \"s\" uint chromEnd; \"e\" string name; \"n\" )".to_string(), 4),
        ("table idx \"indexes\" ( string chrom primary; \"c\" uint chromStart index; \"s\" uint chromEnd unique; \"e\" string name index[12]; \"n\" uint id auto; \"i\" )".to_string(), 5),
        // blanks that are not ASCII (no-break space, ideographic space, em space, line separator,
        // next line): white space like any other
        ("table\u{a0}nbsp\u{3000}\"five fields\"\u{2003}(\nstring\u{a0}chrom;\u{a0}\"c\"\n\u{3000}uint chromStart; \"s\"\u{2028}uint\u{2003}chromEnd; \"e\"\u{85}string name;\u{a0}\u{a0}\"n\"\nuint score; \"v\"\u{3000})\u{a0}\n".to_string(), 5),
        // a backslash is an ordinary character inside a comment, also right before the closing quote
        ("table paths\n\"where things are\"\n(\nstring chrom; \"c\"\nuint chromStart; \"s\"\nuint chromEnd; \"e\"\nstring dir; \"Source directory, e.g. C:\\data\\\"\nstring name; \"a \\ b\"\n)\n".to_string(), 5),
        // non-ASCII text inside comments (units, accented names, CJK)
        ("table unit\n\"Messwerte in \u{b5}m und \u{b0}C\"\n(\nstring chrom; \"Chromosom \u{2013} Name\"\nuint chromStart; \"d\u{e9}but\"\nuint chromEnd; \"\u{7d42}\u{4e86}\"\nstring name; \"\u{3b1}\u{3b2}\u{3b3}\"\nfloat score; \"\u{b1}1\"\nchar[1] strand; \"+/\u{2212}\"\n)\n".to_string(), 6),
        ("table t \"\u{e9}\" ( string chrom; \"\u{e9}\" uint chromStart; \"x\u{e9}\" uint chromEnd; \"\u{e9}x\" )".to_string(), 3),
        // schemas longer than the 8 KiB buffers between the file and the reader / writer (long
        // comments are ordinary in published schemas): total lengths 8191, 8192, 8193, 16385, 70001
        crate::wfam::long_schema(8191),
        crate::wfam::long_schema(8192),
        crate::wfam::long_schema(8193),
        crate::wfam::long_schema(16385),
        crate::wfam::long_schema(70001),
    ]
}

/// Grammar-based generator: declarations x field lists of <= 3 fields over every field form.
fn field_forms() -> Vec<String> {
    // `@` stands for the field name
    let mut v = vec![];
    for t in ["int", "uint", "short", "ushort", "byte", "ubyte", "float", "double", "char", "string", "lstring", "bigint"] {
        v.push(format!("{} @", t));
    }
    v.push("char[12] @".into());
    v.push("int[n] @".into());
    v.push("enum(a, b) @".into());
    v.push("enum(a) @".into());
    v.push("set(a,b,c) @".into());
    v.push("simple pt @".into());
    v.push("object pt @".into());
    v.push("simple pt[2] @".into());
    v.push("string @ primary".into());
    v.push("string @ index".into());
    v.push("string @ index[4]".into());
    v.push("string @ unique".into());
    v.push("uint @ auto".into());
    v.push("uint @ primary auto".into());
    v
}

fn grammar_schemas() -> Vec<(String, usize, usize)> {
    // (text, declarations, fields of the last declaration)
    let forms = field_forms();
    let f = |form: &String, name: &str| form.replace('@', name);
    let mut out = vec![];
    let decls = ["table", "simple", "object"];
    let mut n = 0usize;
    // 1 field: every form x every declaration type
    for d in decls {
        for a in &forms {
            out.push((format!("{} t{} \"c\" ( {}; \"x\" )", d, n % 7, f(a, "f0")), 1, 1));
            n += 1;
        }
    }
    // 2 and 3 fields: all pairs, and triples over a rotating third
    for (i, a) in forms.iter().enumerate() {
        for (j, b) in forms.iter().enumerate() {
            let d = decls[(i + j) % 3];
            out.push((format!("{} t \"c\"\n(\n{}; \"x\"\n{}; \"y\"\n)", d, f(a, "f0"), f(b, "f1")), 1, 2));
            let h = &forms[(i * 7 + j * 3) % forms.len()];
            out.push((format!("{} t \"three\" ( {}; \"x\" {}; \"\" {}; \"z\" )", d, f(a, "f0"), f(b, "f1"), f(h, "f2")), 1, 3));
        }
    }
    // several declarations
    for (i, a) in forms.iter().enumerate() {
        let b = &forms[(i + 5) % forms.len()];
        out.push((format!("simple pt \"p\" ( int x; \"\" int y; \"\" )\ntable t \"c\" ( {}; \"x\" {}; \"y\" )", f(a, "f0"), f(b, "f1")), 2, 2));
        out.push((
            format!("simple a \"\" ( {}; \"\" )\nobject b \"\" ( {}; \"\" )\ntable c \"\" ( int x; \"\" {}; \"\" {}; \"\" )", f(a, "f0"), f(b, "f0"), f(a, "f1"), f(b, "f2")),
            3,
            3,
        ));
    }
    out
}

fn tokenize(s: &str) -> Vec<String> {
    let mut toks = vec![];
    let mut cur = String::new();
    let mut in_q = false;
    for ch in s.chars() {
        if in_q {
            cur.push(ch);
            if ch == '"' {
                in_q = false;
                toks.push(std::mem::take(&mut cur));
            }
            continue;
        }
        match ch {
            '"' => {
                if !cur.is_empty() {
                    toks.push(std::mem::take(&mut cur));
                }
                cur.push(ch);
                in_q = true;
            }
            c if c.is_whitespace() => {
                if !cur.is_empty() {
                    toks.push(std::mem::take(&mut cur));
                }
            }
            ';' | '(' | ')' | '[' | ']' | ',' => {
                if !cur.is_empty() {
                    toks.push(std::mem::take(&mut cur));
                }
                toks.push(ch.to_string());
            }
            c => cur.push(c),
        }
    }
    if !cur.is_empty() {
        toks.push(cur);
    }
    toks
}

/// The parser is the subject: it must return (Ok or Err) without panicking.  Hangs / unbounded
/// growth are caught by the supervisor (wall cap and address-space cap).
fn parse_total(text: &str, tags: &[String], out: &mut Outcome) -> Option<Result<usize, String>> {
    out.count("parses", 1);
    match guarded(|| parse_autosql(text).map(|d| d.len()).map_err(|e| format!("{:?}", e))) {
        Ok(r) => {
            match &r {
                Ok(_) => out.count("parses_ok", 1),
                Err(_) => out.count("parses_err", 1),
            }
            Some(r)
        }
        Err(p) => {
            out.fail("parser_panicked", tags, format!("input {:?}: {}", text, p));
            None
        }
    }
}

fn c19_roundtrip(autosql: Option<String>, rest: &str, want_fields: usize, what: &str, out: &mut Outcome) {
    let mut o = Opts::base();
    o.zoom = Zoom::Manual(vec![]);
    let c = BedCase {
        chroms: vec![BChrom { name: "c".into(), len: 100, items: vec![BItem { s: 1, e: 9, rest: rest.to_string() }] }],
        extra_sizes: vec![],
        allow_ooo: false,
        autosql: autosql.clone(),
        opts: o,
    };
    let r = guarded(|| -> Result<(), (String, String)> {
        let bytes = write_bed(&c).map_err(|e| ("write_refused_valid_input".to_string(), e))?;
        let mut r = BigBedRead::open(Cursor::new(bytes)).map_err(|e| ("open_failed".to_string(), format!("{}", e)))?;
        let got = r.autosql().map_err(|e| ("read_error".to_string(), format!("{}", e)))?;
        let want = autosql.clone().unwrap_or_else(|| bigtools::bed::autosql::BED3.to_string());
        if got.as_deref() != Some(want.as_str()) {
            return Err(("autosql_not_verbatim".into(), format!("{}: stored {:?}", what, got)));
        }
        let fc = r.info().header.field_count as usize;
        if want_fields != usize::MAX && fc != want_fields {
            return Err(("field_count_mismatch".into(), format!("{}: header field_count {} but the schema declares {}", what, fc, want_fields)));
        }
        Ok(())
    });
    match r {
        Ok(Ok(())) => out.count("schema_roundtrips", 1),
        Ok(Err((k, d))) => out.fail(&k, &[], d),
        Err(p) => out.fail("write_or_read_panicked", &[], format!("{}: {}", what, p)),
    }
}

impl Check for C19 {
    type Case = C19Case;
    fn id(&self) -> &'static str {
        "C19"
    }
    fn cases(&self, tier: Tier) -> Box<dyn Iterator<Item = C19Case> + '_> {
        let quick = tier == Tier::Quick;
        let mut v = vec![];
        for extra in 0..=40 {
            v.push(C19Case::Generated { extra });
        }
        for idx in 0..supplied_schemas().len() {
            v.push(C19Case::Supplied { idx });
        }
        let g = grammar_schemas();
        for block in 0..(g.len() + 63) / 64 {
            v.push(C19Case::Grammar { block });
        }
        let core = if quick { 60 } else { 200 };
        for idx in 0..core.min(g.len()) {
            // spread over the generator's output
            v.push(C19Case::Mutations { idx: idx * (g.len() / core.min(g.len())) });
        }
        for extra in 0..=40 {
            v.push(C19Case::ToolGenerated { extra, threads: if extra % 2 == 0 { 1 } else { 3 } });
        }
        for idx in 0..supplied_schemas().len() {
            v.push(C19Case::ToolSupplied { idx });
            for spelling in 0..STDIN_SPELLINGS.len() {
                v.push(C19Case::ToolStdin { idx: Some(idx), spelling, extra: 1 });
            }
        }
        for idx in [0usize, 2, 4] {
            for stdin in [false, true] {
                v.push(C19Case::ToolSuppliedBom { idx, stdin });
            }
        }
        for idx in 0..supplied_schemas().len() {
            v.push(C19Case::Py { idx: Some(idx), extra: 1 + idx % 3 });
        }
        for extra in [0usize, 2] {
            v.push(C19Case::Py { idx: None, extra });
        }
        for extra in [0usize, 1, 2, 9] {
            for spelling in 0..STDIN_SPELLINGS.len() {
                v.push(C19Case::ToolStdin { idx: None, spelling, extra });
            }
        }
        // first lines of 8 190 .. 20 000 bytes
        for (extra, width) in [(9usize, 1000usize), (20, 1000), (40, 300), (8, 1023), (1, 8200), (2, 4093)] {
            v.push(C19Case::ToolWide { stdin: None, extra, width });
            for spelling in 0..STDIN_SPELLINGS.len() {
                if quick && spelling != extra % 3 {
                    continue;
                }
                v.push(C19Case::ToolWide { stdin: Some(spelling), extra, width });
            }
        }
        let maxlen = if quick { 5 } else { 6 }; // 12 tokens: 12^6 x 18 = 54 M parses (the 9-token alphabet reached length 7 with 86 M)
        for len in 0..=maxlen {
            if len == 0 {
                v.push(C19Case::Strings { len, first: 0 });
            } else {
                for first in 0..ALPHA.len() {
                    v.push(C19Case::Strings { len, first });
                }
            }
        }
        Box::new(v.into_iter())
    }
    fn run(&self, case: &C19Case, out: &mut Outcome) {
        out.nontrivial = true;
        match case {
            C19Case::Generated { extra } => {
                let rest: String = (0..*extra).map(|i| format!("v{}", i)).collect::<Vec<_>>().join("\t");
                let asql = bed_autosql(&rest);
                // declares exactly 3 + extra fields, as counted independently of the parser
                let declared = crate::wfam::declared_fields(&asql).unwrap_or(0);
                if declared != 3 + extra {
                    out.fail("generated_schema_field_count", &[], format!("{} extra columns: generated schema declares {} fields", extra, declared));
                }
                // distinct field names
                let mut names = vec![];
                for line in asql.lines() {
                    if let Some(semi) = line.find(';') {
                        let toks: Vec<&str> = line[..semi].split_whitespace().collect();
                        if let Some(n) = toks.last() {
                            names.push(n.to_string());
                        }
                    }
                }
                let mut dn = names.clone();
                dn.sort();
                dn.dedup();
                if dn.len() != names.len() {
                    out.fail("generated_schema_duplicate_field", &[], format!("{} extra columns: field names {:?}", extra, names));
                }
                // the parser accepts what the generator emits
                match parse_total(&asql, &[], out) {
                    Some(Ok(1)) => {}
                    Some(other) => out.fail("generated_schema_not_parsed", &[], format!("{} extra columns: parse result {:?}", extra, other)),
                    None => {}
                }
                if let Ok(Ok(d)) = guarded(|| parse_autosql(&asql).map_err(|e| format!("{:?}", e))) {
                    if d.last().map(|x| x.fields.len()) != Some(3 + extra) {
                        out.fail("generated_schema_parsed_field_count", &[], format!("{} extra columns: parser sees {:?} fields", extra, d.last().map(|x| x.fields.len())));
                    }
                }
                c19_roundtrip(Some(asql), &rest, 3 + extra, &format!("generated schema for {} extra columns", extra), out);
            }
            C19Case::Supplied { idx } => {
                let (s, n) = supplied_schemas()[*idx].clone();
                c19_roundtrip(Some(s), "x", n, &format!("supplied schema {}", idx), out);
                if *idx == 0 {
                    // supplied texts without any declaration (an empty or blank schema file): stored
                    // and returned as they are (the field count of such a text is not judged)
                    for blank in ["", "\n", " ", "\r\n", "\u{a0}", "\t\n\n"] {
                        c19_roundtrip(Some(blank.to_string()), "x", usize::MAX, &format!("blank supplied schema {:?}", blank), out);
                        out.count("blank_supplied_schemas", 1);
                    }
                }
                if *idx == 0 {
                    c19_roundtrip(None, "", 3, "library default", out);
                }
            }
            C19Case::ToolGenerated { extra, threads } => crate::clifam::c19_tool(*extra, None, *threads, out),
            C19Case::ToolSupplied { idx } => {
                let (text, n) = supplied_schemas()[*idx].clone();
                crate::clifam::c19_tool(1, Some((text, n)), 2, out)
            }
            C19Case::ToolSuppliedBom { idx, stdin } => {
                let (text, _) = supplied_schemas()[*idx].clone();
                crate::clifam::c19_tool_from(1, Some((format!("\u{feff}{}", text), usize::MAX)), 2, if *stdin { Some("-") } else { None }, out)
            }
            C19Case::Py { idx, extra } => {
                let schema = idx.map(|i| {
                    let (t, n) = supplied_schemas()[i].clone();
                    let ndecl = if t.starts_with("simple") || t.starts_with("object") { 2 } else { 1 };
                    (t, n, ndecl)
                });
                crate::pyfam::c19_py(schema, *extra, out)
            }
            C19Case::ToolWide { stdin, extra, width } => crate::clifam::c19_tool_wide(*extra, *width, None, 2, stdin.map(|i| STDIN_SPELLINGS[i]), out),
            C19Case::ToolStdin { idx, spelling, extra } => {
                let supplied = idx.map(|i| supplied_schemas()[i].clone());
                crate::clifam::c19_tool_from(*extra, supplied, 2, Some(STDIN_SPELLINGS[*spelling]), out)
            }
            C19Case::Grammar { block } => {
                let g = grammar_schemas();
                for (text, decls, fields) in g.iter().skip(block * 64).take(64) {
                    out.count("grammar_schemas", 1);
                    match parse_total(text, &[], out) {
                        Some(Ok(n)) if n == *decls => {
                            if let Ok(Ok(d)) = guarded(|| parse_autosql(text).map_err(|e| format!("{:?}", e))) {
                                if d.last().map(|x| x.fields.len()) != Some(*fields) {
                                    out.fail("well_formed_schema_wrong_field_count", &[], format!("{:?}: parser sees {:?} fields, generated {}", text, d.last().map(|x| x.fields.len()), fields));
                                }
                            }
                        }
                        Some(other) => out.fail("well_formed_schema_rejected", &[], format!("{:?}: parse result {:?}, generated {} declarations", text, other, decls)),
                        None => {}
                    }
                }
            }
            C19Case::Mutations { idx } => {
                let g = grammar_schemas();
                let (text, _, _) = &g[*idx % g.len()];
                // every truncation at character granularity
                let chars: Vec<(usize, char)> = text.char_indices().collect();
                for (i, _) in &chars {
                    parse_total(&text[..*i], &["truncation".to_string()], out);
                    out.count("truncations", 1);
                }
                // every single-token mutation
                let toks = tokenize(text);
                let delim = ["(", ")", "[", "]", ",", ";", "\"", "enum", "set", "index", "auto", "primary", ""];
                for i in 0..toks.len() {
                    let mut variants: Vec<Vec<String>> = vec![];
                    let mut t = toks.clone();
                    t.remove(i);
                    variants.push(t);
                    let mut t = toks.clone();
                    t.insert(i, toks[i].clone());
                    variants.push(t);
                    for d in delim {
                        let mut t = toks.clone();
                        t[i] = d.to_string();
                        variants.push(t);
                    }
                    // every truncation at token granularity
                    variants.push(toks[..i].to_vec());
                    for vtoks in variants {
                        out.count("token_mutations", 1);
                        parse_total(&vtoks.join(" "), &["token_mutation".to_string()], out);
                    }
                }
            }
            C19Case::Strings { len, first } => {
                let n = ALPHA.len();
                let tags = vec!["short_string".to_string()];
                let total = if *len == 0 { 1 } else { n.pow(*len as u32 - 1) };
                for code in 0..total {
                    let mut s = String::new();
                    if *len > 0 {
                        s.push_str(ALPHA[*first]);
                        let mut x = code;
                        for _ in 1..*len {
                            s.push_str(ALPHA[x % n]);
                            x /= n;
                        }
                    }
                    for p in PREFIXES {
                        for suf in SUFFIXES {
                            out.count("short_strings", 1);
                            parse_total(&format!("{}{}{}", p, s, suf), &tags, out);
                        }
                    }
                }
            }
        }
    }
    fn space(&self, tier: Tier) -> serde_json::Value {
        let q = tier == Tier::Quick;
        json!({
            "extra_column_counts": "0..=40", "supplied_schemas": supplied_schemas().len(),
            "grammar_schemas": grammar_schemas().len(), "field_forms": field_forms().len(),
            "mutation_core": if q {60} else {200},
            "short_strings": format!("all strings of length <= {} over {:?} x {} prefixes x {} suffixes", if q {5} else {6}, ALPHA, PREFIXES.len(), SUFFIXES.len()),
        })
    }
    fn case_cap_s(&self) -> u64 {
        30
    }
}
