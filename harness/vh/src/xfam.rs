//! C10: any well-formed BBI file is read correctly, whoever wrote it (independent encoder).
use crate::enc::*;
use crate::indep;
use crate::refm::close32;
use crate::sup::*;
use bigtools::{BigBedRead, BigWigRead, GenericBBIRead};
use serde::{Deserialize, Serialize};
use serde_json::json;
use std::io::Cursor;

#[derive(Clone, Debug, Serialize, Deserialize)]
pub struct C10Case {
    pub spec: EncSpec,
    /// drive the built converters on the file instead of the library readers
    #[serde(default)]
    pub tool: bool,
    /// large-section / many-section files (the spec is then only a template): 1 = one variable-step
    /// section of 60 000 items after a small one, 2 = fixed-step 60 000, 3 = bedGraph 60 000,
    /// 4 = 5 200 fixed-step sections read through ONE caching reader (more blocks than its cache holds)
    #[serde(default)]
    pub big: u32,
}

pub struct C10;

/// Files whose sections hold more items than 15- or 16-bit arithmetic survives, and files with
/// more blocks than the caching reader keeps: a few queries in the lower and upper part of the big
/// section / early and late blocks, plain and cached, against the encoded items.
fn c10_big(kind: u32, le: bool, tags: &[String], out: &mut Outcome) {
    let n = 60_000u32;
    let secs: Vec<WigSec> = match kind {
        1 => vec![WigSec::T1(vec![(0, 1, 9.0), (2, 3, 8.0)]), WigSec::T2(1, (0..n).map(|i| (10 + 2 * i, (i % 251) as f32 * 0.5 - 3.0)).collect())],
        2 => vec![WigSec::T1(vec![(0, 1, 9.0)]), WigSec::T3(10, 2, 1, (0..n).map(|i| (i % 127) as f32 * 0.25).collect())],
        3 => vec![WigSec::T1((0..n).map(|i| (2 * i, 2 * i + 1, (i % 509) as f32 * 0.125)).collect())],
        // kind 5: sections that END on coordinates whose four bytes read as a much smaller number in the
        // other byte order (65 536 = 00 01 00 00 reads as 256, 16 777 216 as 1, ...), one section each, in a
        // tree of fan-out 2 (three and more levels): the ends of inner index entries are such numbers
        5 => [8u32, 256, 65_536, 131_072, 262_144, 1_048_576, 16_777_216, 16_842_752, 33_554_432, 33_554_944]
            .into_iter()
            .enumerate()
            .map(|(k, p)| WigSec::T1(vec![(p - 6, p - 4, k as f32 + 0.5), (p - 3, p, k as f32 + 0.25)]))
            .collect(),
        _ => (0..5200u32).map(|k| WigSec::T3(100 * k, 10, 5, (0..10).map(|j| (k % 97) as f32 + j as f32 * 0.5).collect())).collect(),
    };
    let size = if kind == 5 { 40_000_000u32 } else { 600_000u32 };
    let spec = EncSpec {
        bed: false,
        le,
        compress: kind % 2 == 0,
        version: 4,
        chroms: vec![EncChrom { name: "big".into(), size, wig: secs, bed: vec![] }],
        chrom_block: 64,
        chrom_level_order: false,
        chrom_ids_in_given_order: false,
            chrom_ids_reverse_of_keys: false,
        fanout: if kind == 5 { 2 } else { 64 },
        placement: Placement::LevelOrder,
        zooms: vec![],
        zoom_ips: 4,
        zoom_blocks_span_chroms: false,
        trailing_magic: true,
        index_last: false,
        no_summary: false,
        autosql: None,
    };
    let enc = encode(&spec);
    let items = &enc.wig[0];
    let want_for = |s: u32, e: u32| -> Vec<(u32, u32, u32)> { items.iter().filter(|i| i.1 > s && i.0 < e).map(|i| (i.0.max(s), i.1.min(e), i.2.to_bits())).collect() };
    let last = items.last().map(|i| i.1).unwrap_or(0);
    let mut queries: Vec<(u32, u32)> = vec![(0, size), (0, 40), (last - 30, last), (last / 2 - 10, last / 2 + 10), (3 * (last / 4), 3 * (last / 4) + 25), (last - 1, last), (last / 3, last / 3 + 7)];
    if kind == 5 {
        // around every item, and from every item to the end
        queries.clear();
        for i in items.iter() {
            queries.extend([(i.0.saturating_sub(1), i.0 + 1), (i.0, i.1), (i.1 - 1, i.1 + 1), (i.0, size), (0, i.1)]);
        }
        queries.push((0, size));
    }
    if kind == 4 {
        // after the whole file has passed through the cache: the earliest blocks again
        queries.extend([(0, 45), (100, 150), (250, 460), (519_900, 520_000), (5, 6)]);
    }
    let r = guarded(|| {
        let mut plain = BigWigRead::open(Cursor::new(enc.bytes.clone())).map_err(|e| format!("{}", e))?;
        let mut cached = BigWigRead::open(Cursor::new(enc.bytes.clone())).map_err(|e| format!("{}", e))?.cached();
        for round in 0..2 {
            for &(s, e) in &queries {
                for which in ["plain", "cached"] {
                    let got: Result<Vec<(u32, u32, u32)>, String> = (|| {
                        let mut v = vec![];
                        let it = if which == "plain" { plain.get_interval("big", s, e).map_err(|e| format!("{}", e))?.collect::<Vec<_>>() } else { cached.get_interval("big", s, e).map_err(|e| format!("{}", e))?.collect::<Vec<_>>() };
                        for x in it {
                            let x = x.map_err(|e| format!("{}", e))?;
                            v.push((x.start, x.end, x.value.to_bits()));
                        }
                        Ok(v)
                    })();
                    out.count("big_file_queries", 1);
                    match got {
                        Err(err) => out.fail("query_error", tags, format!("{} reader, round {}, big [{},{}): {}", which, round, s, e, err)),
                        Ok(g) => {
                            let want = want_for(s, e);
                            if g != want {
                                out.fail("range_query_mismatch", tags, format!("{} reader, round {}, big [{},{}): {} values (first {:?}), encoded {} (first {:?})", which, round, s, e, g.len(), g.first(), want.len(), want.first()));
                            }
                        }
                    }
                }
                if e - s <= 1000 {
                    match cached.values("big", s, e) {
                        Err(err) => out.fail("query_error", tags, format!("values big [{},{}): {}", s, e, err)),
                        Ok(v) => {
                            let mut want = vec![f32::NAN; (e - s) as usize];
                            for i in items.iter().filter(|i| i.1 > s && i.0 < e) {
                                for b in i.0.max(s)..i.1.min(e) {
                                    want[(b - s) as usize] = i.2;
                                }
                            }
                            if v.len() != want.len() || v.iter().zip(want.iter()).any(|(a, b)| a.to_bits() != b.to_bits() && !(a.is_nan() && b.is_nan())) {
                                out.fail("values_mismatch", tags, format!("cached reader, round {}, values big [{},{}) differ from the encoded items", round, s, e));
                            }
                        }
                    }
                }
            }
        }
        Ok::<(), String>(())
    });
    match r {
        Ok(Ok(())) => {}
        Ok(Err(e)) => out.fail("well_formed_file_refused", tags, e),
        Err(p) => out.fail("read_panicked", tags, p),
    }
    out.count("big_section_files", 1);
}

pub const XL: u32 = 16;

pub fn wig_contents() -> Vec<Vec<EncChrom>> {
    let ch = |name: &str, wig: Vec<WigSec>| EncChrom { name: name.into(), size: XL, wig, bed: vec![] };
    vec![
        vec![ch("c", vec![WigSec::T1(vec![(0, 2, 1.0), (3, 5, 2.0), (9, 16, 3.5)])])],
        vec![
            ch("chr1", vec![WigSec::T1(vec![(0, 1, 1.0), (1, 2, 2.0)]), WigSec::T1(vec![(2, 3, 3.0), (3, 4, -4.0)])]),
            ch("chr10", vec![WigSec::T1(vec![(1, 6, 0.5)]), WigSec::T1(vec![(7, 8, -2.25), (12, 16, 8.0)])]),
            ch("chr2", vec![WigSec::T1(vec![(5, 10, 1.5), (10, 15, 2.5)])]),
        ],
        vec![ch(
            "c",
            vec![
                WigSec::T3(0, 2, 1, vec![1.0, 2.0, 3.0]),
                WigSec::T2(2, vec![(7, 4.0), (10, 5.0)]),
                WigSec::T1(vec![(12, 13, 6.0), (15, 16, 7.0)]),
            ],
        )],
        vec![
            ch("a", (0..5).map(|i| WigSec::T1(vec![(3 * i, 3 * i + 2, i as f32 + 1.0)])).collect()),
            ch("b", (0..4).map(|i| WigSec::T3(4 * i, 2, 2, vec![0.25 * (i as f32 + 1.0), -1.0])).collect()),
        ],
        // 8, 9 and 27 chromosomes: chromosome trees of three and more levels with full blocks
        (0..8).map(|i| ch(&format!("m{}", i), vec![WigSec::T1(vec![(i, i + 2, i as f32 + 1.0)])])).collect(),
        (0..9).map(|i| ch(&format!("n{:02}", i), vec![WigSec::T3(i, 3, 2, vec![1.0, i as f32])])).collect(),
        (0..27).map(|i| ch(&format!("p{:02}", i), vec![WigSec::T1(vec![(i % 10, i % 10 + 3, 0.5 * i as f32)])])).collect(),
        vec![
            ch("x1", vec![WigSec::T2(1, vec![(0, 1.0), (15, 2.0)])]),
            ch("x2", vec![WigSec::T3(1, 5, 3, vec![1.0, 2.0, 3.0])]),
            ch("x3", vec![WigSec::T1(vec![(0, 16, 9.0)])]),
            ch("x4", vec![WigSec::T2(3, vec![(2, -1.0)]), WigSec::T2(1, vec![(9, -2.0), (11, -3.0)])]),
        ],
    ]
}

pub fn bed_contents() -> Vec<Vec<EncChrom>> {
    let ch = |name: &str, bed: Vec<Vec<(u32, u32, &str)>>| EncChrom {
        name: name.into(),
        size: XL,
        wig: vec![],
        bed: bed.into_iter().map(|b| b.into_iter().map(|(s, e, r)| (s, e, r.to_string())).collect()).collect(),
    };
    vec![
        vec![ch("c", vec![vec![(0, 5, "n0"), (2, 3, "n1"), (9, 16, "n2")]])],
        vec![
            ch("chr1", vec![vec![(0, 16, "a\t5\t+"), (1, 2, "b\t6\t-")], vec![(3, 4, "c\t7\t+")]]),
            ch("chr10", vec![vec![(1, 6, "")], vec![(3, 16, ""), (3, 5, "")], vec![(9, 10, "")]]),
            ch("chr2", vec![vec![(4, 16, "x"), (5, 6, "y"), (5, 16, "z")], vec![(8, 9, "w")]]),
        ],
        vec![
            ch("a", (0..5).map(|i| vec![(3 * i + 1, 3 * i + 3, "k")]).collect()),
            ch("b", (0..4).map(|i| vec![(4 * i, 4 * i + 6, "l"), (4 * i + 1, 4 * i + 2, "m")]).collect()),
        ],
    ]
}

fn specs(tier: Tier) -> Vec<EncSpec> {
    let quick = tier == Tier::Quick;
    let mut v = vec![];
    // (version, compressed, total summary omitted although the version allows one)
    let formats: Vec<(u16, bool, bool)> = vec![
        (1, false, false),
        (2, false, false),
        (3, false, false),
        (3, true, false),
        (4, false, false),
        (4, true, false),
        (2, false, true),
        (4, true, true),
    ];
    let placements = [Placement::LevelOrder, Placement::DepthFirst, Placement::ChildrenFirst, Placement::Padded, Placement::Ragged, Placement::BlocksReversed];
    let fanouts: &[usize] = if quick { &[2, 8] } else { &[2, 3, 8] };
    let chrom_blocks: &[usize] = &[2, 3, 64];
    let mut contents: Vec<(bool, Vec<EncChrom>)> = wig_contents().into_iter().map(|c| (false, c)).collect();
    contents.extend(bed_contents().into_iter().map(|c| (true, c)));
    let mut n = 0usize;
    for (bed, content) in &contents {
        for le in [true, false] {
            for (version, compress, no_summary) in &formats {
                for &fanout in fanouts {
                    for placement in placements {
                        for &chrom_block in chrom_blocks {
                            // zoom variants rotate; index_last / trailing magic rotate
                            let zoom_variants: Vec<(Vec<u32>, usize, bool)> = if quick {
                                vec![match n % 3 {
                                    0 => (vec![], 2, false),
                                    1 => (vec![2, 4], 2, false),
                                    _ => (vec![2], 3, true),
                                }]
                            } else {
                                vec![(vec![], 2, false), (vec![2, 4], 2, false), (vec![2], 3, true)]
                            };
                            for (zooms, zips, zspan) in zoom_variants {
                                let index_last = placement == Placement::ChildrenFirst || n % 5 == 0;
                                v.push(EncSpec {
                                    bed: *bed,
                                    le,
                                    compress: *compress,
                                    version: *version,
                                    chroms: content.clone(),
                                    chrom_block,
                                    chrom_level_order: n % 2 == 1,
                                    chrom_ids_in_given_order: (n / 2) % 2 == 1 && chrom_block >= content.len(),
                                    chrom_ids_reverse_of_keys: (n / 4) % 2 == 1 && (n / 2) % 2 == 0,
                                    fanout,
                                    placement,
                                    zooms,
                                    zoom_ips: zips,
                                    zoom_blocks_span_chroms: zspan,
                                    trailing_magic: n % 2 == 0,
                                    index_last,
                                    no_summary: *no_summary,
                                    autosql: if *bed && n % 3 != 0 { Some(crate::wfam::CUSTOM_AS.to_string()) } else { None },
                                });
                                n += 1;
                            }
                        }
                    }
                }
            }
        }
    }
    v
}

fn feq(a: f64, b: f64) -> bool {
    a == b || (a.is_nan() && b.is_nan())
}

fn c10_wig(enc: &Encoded, spec: &EncSpec, cached: bool, paged: bool, tags: &[String], out: &mut Outcome) {
    macro_rules! body {
        ($rd:expr) => {{
            let rd = &mut $rd;
            let mut got_chroms: Vec<(String, u32)> = rd.chroms().iter().map(|c| (c.name.clone(), c.length)).collect();
            got_chroms.sort();
            let mut want_chroms: Vec<(String, u32)> = enc.chroms.iter().map(|c| (c.0.clone(), c.2)).collect();
            want_chroms.sort();
            if got_chroms != want_chroms {
                out.fail("chrom_table", tags, format!("chroms {:?}, encoded {:?}", got_chroms, want_chroms));
                return;
            }
            match rd.get_summary() {
                Err(e) => out.fail("summary_error", tags, format!("{}", e)),
                Ok(s) => {
                    let ok = match &enc.summary {
                        Some((b, mn, mx, sum, sq)) => s.bases_covered == *b && feq(s.min_val, *mn) && feq(s.max_val, *mx) && feq(s.sum, *sum) && feq(s.sum_squares, *sq),
                        None => s.bases_covered == 0 && s.sum == 0.0,
                    };
                    if !ok || s.total_items != enc.data_count {
                        out.fail("summary_mismatch", tags, format!("summary {:?}, encoded {:?} count {}", s, enc.summary, enc.data_count));
                    }
                }
            }
            for (name, id, size) in &enc.chroms {
                let items = &enc.wig[*id as usize];
                for s in 0..=*size {
                    for e in s..=*size {
                        out.count("range_queries", 1);
                        let got: Result<Vec<(u32, u32, u32)>, String> = rd
                            .get_interval(name, s, e)
                            .map_err(|e| format!("{}", e))
                            .and_then(|it| it.map(|v| v.map(|v| (v.start, v.end, v.value.to_bits())).map_err(|e| format!("{}", e))).collect());
                        match got {
                            Err(err) => {
                                out.fail("query_error", tags, format!("{} [{},{}): {}", name, s, e, err));
                                return;
                            }
                            Ok(g) => {
                                if s < e {
                                    let want: Vec<(u32, u32, u32)> = items.iter().filter(|i| i.1 > s && i.0 < e).map(|i| (i.0.max(s), i.1.min(e), i.2.to_bits())).collect();
                                    if g != want {
                                        out.fail("range_query_mismatch", tags, format!("{} [{},{}): got {:?}, encoded {:?}", name, s, e, g, want));
                                        return;
                                    }
                                }
                            }
                        }
                    }
                }
                // per-base values over the whole chromosome and a few sub-ranges
                for (s, e) in [(0, *size), (1, *size - 1), (5, 11)] {
                    match rd.values(name, s, e) {
                        Err(err) => out.fail("query_error", tags, format!("values {} [{},{}): {}", name, s, e, err)),
                        Ok(v) => {
                            let mut want = vec![f32::NAN; (e - s) as usize];
                            for i in items {
                                for b in i.0.max(s)..i.1.min(e) {
                                    want[(b - s) as usize] = i.2;
                                }
                            }
                            if v.len() != want.len() || v.iter().zip(want.iter()).any(|(a, b)| a.to_bits() != b.to_bits() && !(a.is_nan() && b.is_nan())) {
                                out.fail("values_mismatch", tags, format!("values {} [{},{}): {:?} vs {:?}", name, s, e, v, want));
                            }
                        }
                    }
                }
                // zoom levels
                for (res, recs) in &enc.zooms {
                    let mine: Vec<&ZRecE> = recs.iter().filter(|r| r.chrom == *id).collect();
                    for (s, e) in [(0u32, *size), (0, 1), (3, 9), (*size - 1, *size), (8, 8)] {
                        out.count("zoom_queries", 1);
                        let got: Result<Vec<bigtools::ZoomRecord>, String> = rd
                            .get_zoom_interval(name, s, e, *res)
                            .map_err(|e| format!("{}", e))
                            .and_then(|it| it.map(|v| v.map_err(|e| format!("{}", e))).collect());
                        match got {
                            Err(err) => {
                                out.fail("zoom_query_error", tags, format!("zoom {} {} [{},{}): {}", res, name, s, e, err));
                                return;
                            }
                            Ok(g) => {
                                let must: Vec<&&ZRecE> = mine.iter().filter(|r| r.start < e && r.end > s).collect();
                                let mut ok = g.windows(2).all(|w| w[0].start < w[1].start);
                                for m in &must {
                                    ok &= g.iter().any(|x| {
                                        x.start == m.start
                                            && x.end == m.end
                                            && x.summary.bases_covered == m.valid as u64
                                            && close32(x.summary.min_val as f32, m.min as f64, 0.0)
                                            && close32(x.summary.max_val as f32, m.max as f64, 0.0)
                                            && close32(x.summary.sum as f32, m.sum as f64, 0.0)
                                            && close32(x.summary.sum_squares as f32, m.sumsq as f64, 0.0)
                                    });
                                }
                                for x in &g {
                                    ok &= mine.iter().any(|m| m.start == x.start && m.end == x.end) && x.end >= s && x.start <= e;
                                }
                                if !ok {
                                    out.fail("zoom_query_mismatch", tags, format!("zoom {} {} [{},{}): got {:?}, encoded must-include {:?}", res, name, s, e, g.iter().map(|x| (x.start, x.end)).collect::<Vec<_>>(), must.iter().map(|m| (m.start, m.end)).collect::<Vec<_>>()));
                                    return;
                                }
                            }
                        }
                    }
                }
            }
            let levels: Vec<u32> = rd.info().zoom_headers.iter().map(|z| z.reduction_level).collect();
            if levels != spec.zooms {
                out.fail("zoom_levels", tags, format!("zoom levels {:?}, encoded {:?}", levels, spec.zooms));
            }
        }};
    }
    if paged {
        // a source whose reads stop at every 7th byte (legal short reads): same answers required
        match BigWigRead::open(crate::qfam::PagedMem::new(&enc.bytes, 7)) {
            Err(e) => out.fail("well_formed_file_refused", tags, format!("BigWigRead::open on a short-reading source: {}", e)),
            Ok(rd) => {
                let mut rd = rd;
                body!(rd);
            }
        }
        return;
    }
    let open = BigWigRead::open(Cursor::new(enc.bytes.clone()));
    match open {
        Err(e) => out.fail("well_formed_file_refused", tags, format!("BigWigRead::open: {}", e)),
        Ok(rd) => {
            if cached {
                let mut rd = rd.cached();
                body!(rd);
            } else {
                let mut rd = rd;
                body!(rd);
            }
        }
    }
}

fn c10_bed(enc: &Encoded, spec: &EncSpec, cached: bool, paged: bool, tags: &[String], out: &mut Outcome) {
    macro_rules! body {
        ($rd:expr) => {{
            let rd = &mut $rd;
            let mut got_chroms: Vec<(String, u32)> = rd.chroms().iter().map(|c| (c.name.clone(), c.length)).collect();
            got_chroms.sort();
            let mut want_chroms: Vec<(String, u32)> = enc.chroms.iter().map(|c| (c.0.clone(), c.2)).collect();
            want_chroms.sort();
            if got_chroms != want_chroms {
                out.fail("chrom_table", tags, format!("chroms {:?}, encoded {:?}", got_chroms, want_chroms));
                return;
            }
            match rd.get_summary() {
                Err(e) => out.fail("summary_error", tags, format!("{}", e)),
                Ok(s) => {
                    let ok = match &enc.summary {
                        Some((b, mn, mx, sum, sq)) => s.bases_covered == *b && feq(s.min_val, *mn) && feq(s.max_val, *mx) && feq(s.sum, *sum) && feq(s.sum_squares, *sq),
                        None => s.bases_covered == 0 && s.sum == 0.0,
                    };
                    if !ok || s.total_items != enc.data_count {
                        out.fail("summary_mismatch", tags, format!("summary {:?}, encoded {:?} count {}", s, enc.summary, enc.data_count));
                    }
                }
            }
            match rd.item_count() {
                Ok(n) if n == enc.data_count => {}
                other => out.fail("item_count", tags, format!("item_count {:?}, encoded {}", other.map_err(|e| format!("{}", e)), enc.data_count)),
            }
            match rd.autosql() {
                Ok(a) if a == spec.autosql => {}
                other => out.fail("autosql", tags, format!("autosql {:?}, encoded {:?}", other.map_err(|e| format!("{}", e)), spec.autosql)),
            }
            for (name, id, size) in &enc.chroms {
                let items = &enc.bed[*id as usize];
                for s in 0..*size {
                    for e in s + 1..=*size {
                        out.count("range_queries", 1);
                        let got: Result<Vec<(u32, u32, String)>, String> = rd
                            .get_interval(name, s, e)
                            .map_err(|e| format!("{}", e))
                            .and_then(|it| it.map(|v| v.map(|v| (v.start, v.end, v.rest)).map_err(|e| format!("{}", e))).collect());
                        match got {
                            Err(err) => {
                                out.fail("query_error", tags, format!("{} [{},{}): {}", name, s, e, err));
                                return;
                            }
                            Ok(g) => {
                                let must: Vec<&(u32, u32, String)> = items.iter().filter(|i| i.0 < e && i.1 > s).collect();
                                let may: Vec<&(u32, u32, String)> = items.iter().filter(|i| i.0 <= e && i.1 >= s).collect();
                                // order: a subsequence of the encoded order
                                let mut pos = 0;
                                let mut ok = true;
                                for x in &g {
                                    match may[pos.min(may.len())..].iter().position(|m| *m == x) {
                                        Some(p) => pos += p + 1,
                                        None => ok = false,
                                    }
                                }
                                ok &= must.iter().all(|m| g.contains(m));
                                if !ok {
                                    out.fail("range_query_mismatch", tags, format!("{} [{},{}): got {:?}, must {:?}", name, s, e, g, must));
                                    return;
                                }
                            }
                        }
                    }
                }
                for (res, recs) in &enc.zooms {
                    let mine: Vec<&ZRecE> = recs.iter().filter(|r| r.chrom == *id).collect();
                    for (s, e) in [(0u32, *size), (3, 9)] {
                        out.count("zoom_queries", 1);
                        let got: Result<Vec<bigtools::ZoomRecord>, String> = rd
                            .get_zoom_interval(name, s, e, *res)
                            .map_err(|e| format!("{}", e))
                            .and_then(|it| it.map(|v| v.map_err(|e| format!("{}", e))).collect());
                        match got {
                            Err(err) => {
                                out.fail("zoom_query_error", tags, format!("zoom {} {} [{},{}): {}", res, name, s, e, err));
                                return;
                            }
                            Ok(g) => {
                                let must: Vec<&&ZRecE> = mine.iter().filter(|r| r.start < e && r.end > s).collect();
                                let ok = must.iter().all(|m| g.iter().any(|x| x.start == m.start && x.end == m.end && x.summary.bases_covered == m.valid as u64 && close32(x.summary.sum as f32, m.sum as f64, 0.0)))
                                    && g.iter().all(|x| mine.iter().any(|m| m.start == x.start && m.end == x.end));
                                if !ok {
                                    out.fail("zoom_query_mismatch", tags, format!("zoom {} {} [{},{})", res, name, s, e));
                                    return;
                                }
                            }
                        }
                    }
                }
            }
        }};
    }
    if paged {
        match BigBedRead::open(crate::qfam::PagedMem::new(&enc.bytes, 7)) {
            Err(e) => out.fail("well_formed_file_refused", tags, format!("BigBedRead::open on a short-reading source: {}", e)),
            Ok(rd) => {
                let mut rd = rd;
                body!(rd);
            }
        }
        return;
    }
    match BigBedRead::open(Cursor::new(enc.bytes.clone())) {
        Err(e) => out.fail("well_formed_file_refused", tags, format!("BigBedRead::open: {}", e)),
        Ok(rd) => {
            if cached {
                let mut rd = rd.cached();
                body!(rd);
            } else {
                let mut rd = rd;
                body!(rd);
            }
        }
    }
}

impl Check for C10 {
    type Case = C10Case;
    fn id(&self) -> &'static str {
        "C10"
    }
    fn cases(&self, tier: Tier) -> Box<dyn Iterator<Item = C10Case> + '_> {
        let step = if tier == Tier::Quick { 9 } else { 3 };
        let tools: Vec<C10Case> = specs(tier).into_iter().step_by(step).map(|spec| C10Case { spec, tool: true, big: 0 }).collect();
        let template = specs(tier).into_iter().next().unwrap();
        let bigs = [1u32, 2, 3, 4, 5].into_iter().flat_map(move |big| {
            let t = template.clone();
            [true, false].into_iter().map(move |le| {
                let mut spec = t.clone();
                spec.le = le;
                C10Case { spec, tool: false, big }
            })
        });
        Box::new(specs(tier).into_iter().map(|spec| C10Case { spec, tool: false, big: 0 }).chain(tools.into_iter()).chain(bigs))
    }
    fn run(&self, case: &C10Case, out: &mut Outcome) {
        let spec = &case.spec;
        if case.big > 0 {
            out.nontrivial = true;
            let tags = vec![if spec.le { "little_endian".to_string() } else { "big_endian".to_string() }, format!("big_{}", case.big)];
            c10_big(case.big, spec.le, &tags, out);
            return;
        }
        let enc = encode(spec);
        out.nontrivial = true;
        out.outcome_hash = Some(fnv(&enc.bytes));
        let mut tags = vec![];
        tags.push(if spec.le { "little_endian".to_string() } else { "big_endian".to_string() });
        tags.push(format!("placement_{:?}", spec.placement).to_lowercase());
        if spec.index_last && !spec.trailing_magic {
            tags.push("index_node_ends_file".into());
        }
        // cross-check encoder against the independent decoder first: a disagreement here is a
        // harness defect, never a verdict on bigtools
        match indep::decode(&enc.bytes) {
            Err(e) => {
                out.fail("harness_panic", &[], format!("independent decoder rejects the encoder's file: {}", e));
                return;
            }
            Ok(d) => {
                let names: Vec<(String, u32, u32)> = d.chroms.clone();
                let mut ok = names == enc.chroms && d.le == spec.le && d.version == spec.version;
                if spec.bed {
                    for (id, want) in enc.bed.iter().enumerate() {
                        let got: Vec<(u32, u32, String)> = d.bed_blocks.iter().flatten().filter(|e| e.0 == id as u32).map(|e| (e.1, e.2, e.3.clone())).collect();
                        ok &= &got == want;
                    }
                } else {
                    for (id, want) in enc.wig.iter().enumerate() {
                        let got: Vec<(u32, u32, u32)> = d.wig_sections.iter().filter(|s| s.chrom == id as u32).flat_map(|s| s.items.iter().map(|i| (i.0, i.1, i.2.to_bits()))).collect();
                        let want: Vec<(u32, u32, u32)> = want.iter().map(|i| (i.0, i.1, i.2.to_bits())).collect();
                        ok &= got == want;
                    }
                }
                ok &= d.zooms.len() == enc.zooms.len();
                for (dz, ez) in d.zooms.iter().zip(enc.zooms.iter()) {
                    let got: Vec<(u32, u32, u32)> = dz.blocks.iter().flatten().map(|r| (r.chrom, r.start, r.end)).collect();
                    let want: Vec<(u32, u32, u32)> = ez.1.iter().map(|r| (r.chrom, r.start, r.end)).collect();
                    ok &= got == want;
                }
                let structural: Vec<&String> = d.problems.iter().filter(|p| !(p.contains("not contiguous") || p.contains("neither the chromosome tree") || p.contains("outside [fullDataOffset") || p.contains("offsets data") || p.contains("bigWig with non-zero") || p.contains("trailing magic") || (spec.placement == Placement::Ragged && p.contains("unbalanced R-tree")))).collect();
                if !ok || !structural.is_empty() {
                    out.fail("harness_panic", &[], format!("encoder/decoder cross-check failed: ok={} problems={:?}", ok, structural));
                    return;
                }
                out.count(&format!("main_index_levels_{}", d.main.levels.min(5)), 1);
                if d.main.levels >= 3 {
                    out.count("files_with_3+_index_levels", 1);
                }
            }
        }
        if case.tool {
            c10_tool(&enc, spec, &tags, out);
            return;
        }
        out.count("encoded_files", 1);
        if !spec.le {
            out.count("big_endian_files", 1);
        }
        if spec.compress {
            out.count("compressed_files", 1);
        }
        if spec.version == 1 {
            out.count("version1_files", 1);
        }
        if spec.version >= 2 && spec.no_summary {
            out.count("files_v2plus_without_summary", 1);
        }
        if spec.chrom_block < spec.chroms.len() {
            out.count("multi_level_chrom_tree_files", 1);
        }
        // generic open
        match guarded(|| GenericBBIRead::open(Cursor::new(enc.bytes.clone())).map(|g| matches!(g, GenericBBIRead::BigBed(_)))) {
            Ok(Ok(is_bed)) if is_bed == spec.bed => {}
            other => out.fail("well_formed_file_refused", &tags, format!("GenericBBIRead::open: {:?}", other.map(|r| r.map_err(|e| format!("{}", e))))),
        }
        for (cached, paged) in [(false, false), (true, false), (false, true)] {
            if paged {
                out.count("files_read_through_a_short_reading_source", 1);
            }
            let r = guarded(|| {
                let mut o = Outcome::default();
                if spec.bed {
                    c10_bed(&enc, spec, cached, paged, &tags, &mut o);
                } else {
                    c10_wig(&enc, spec, cached, paged, &tags, &mut o);
                }
                o
            });
            match r {
                Ok(o) => {
                    for f in o.fails {
                        out.fail(&f.kind, &f.tags, format!("{}{}", if cached { "cached: " } else if paged { "short-reading source: " } else { "" }, f.detail));
                    }
                    for (k, v) in o.counters {
                        out.count(&k, v);
                    }
                }
                Err(p) => out.fail("reader_panicked_on_well_formed_file", &tags, format!("{}{}", if cached { "cached: " } else { "" }, p)),
            }
        }
    }
    fn space(&self, tier: Tier) -> serde_json::Value {
        let q = tier == Tier::Quick;
        json!({
            "byte_orders": 2, "version_x_compression": ["v1 raw", "v2 raw", "v3 raw", "v3 zlib", "v4 raw", "v4 zlib", "v2 raw without total summary", "v4 zlib without total summary"],
            "section_types": "bedGraph, variable step, fixed step, mixed per chromosome; 8 bigWig contents (1-4, 8, 9 and 27 chromosomes), 3 bigBed contents",
            "chrom_tree_block_sizes": if q { vec![2, 3, 64] } else { vec![2, 3, 64] }, "chrom_tree_node_order": ["depth first", "level order"],
            "rtree_fanouts": if q { vec![2, 8] } else { vec![2, 3, 8] },
            "node_placements": ["level order", "depth first", "children before header (non-leaf root ends the index)", "padded"],
            "zoom_variants": "none; [2,4] per-chromosome blocks; [2] blocks spanning chromosomes",
            "index_last_and_no_trailing_magic": "rotated",
            "queries": "all 153 ranges per chromosome (plain + cached), values(), zoom queries, summary, chroms, autosql, item count",
            "files": specs(tier).len(),
        })
    }
}

// ---------------------------------------------------------------------------------------------
// C20 file generator: encoder-written bigWig / bigBed files on a 12-base chromosome plus a JSON
// manifest of their content, consumed by py/c20_values.py (which drives the built extension).

pub fn gen_c20(dir: &str, thorough: bool) {
    use crate::model::{bed_layouts, wig_layouts};
    const CL: u32 = 12;
    std::fs::create_dir_all(dir).unwrap();
    let mut manifest = vec![];
    let wl: Vec<Vec<(u32, u32)>> = wig_layouts(3, CL).into_iter().filter(|l| l.iter().all(|(s, e)| e > s)).collect();
    let bl: Vec<Vec<(u32, u32)>> = bed_layouts(3, CL).into_iter().filter(|l| l.iter().all(|(s, e)| e > s)).collect();
    let nw = if thorough { 400 } else { 20 };
    let nb = if thorough { 300 } else { 16 };
    let pick = |n: usize, total: usize| -> Vec<usize> { (0..n).map(|i| (i * total / n + i * 7) % total).collect() };
    let vals = [1.0f32, 2.0, -3.0, 0.5, 4.0, -0.25];
    for (k, li) in pick(nw, wl.len()).into_iter().enumerate() {
        let items: Vec<(u32, u32, f32)> = wl[li].iter().enumerate().map(|(i, (s, e))| (*s, *e, vals[(i + k) % vals.len()])).collect();
        let spec = EncSpec {
            bed: false,
            le: k % 4 != 3,
            compress: k % 2 == 0,
            version: 4,
            chroms: vec![EncChrom { name: "c".into(), size: CL, wig: items.chunks(2).map(|c| WigSec::T1(c.to_vec())).collect(), bed: vec![] }],
            chrom_block: 64,
            chrom_level_order: false,
            chrom_ids_in_given_order: false,
            chrom_ids_reverse_of_keys: false,
            fanout: 2,
            placement: Placement::LevelOrder,
            zooms: vec![2, 4],
            zoom_ips: 2,
            zoom_blocks_span_chroms: false,
            trailing_magic: true,
            index_last: false,
            no_summary: false,
            autosql: None,
        };
        let path = format!("{}/w{}.bw", dir, k);
        std::fs::write(&path, encode(&spec).bytes).unwrap();
        // the same file with its zoom levels listed coarsest first (levels are found by value)
        let twin = format!("{}/w{}t.bw", dir, k);
        let mut tspec = spec.clone();
        tspec.zooms.reverse();
        std::fs::write(&twin, encode(&tspec).bytes).unwrap();
        let mut pb: Vec<Option<f32>> = vec![None; CL as usize];
        for (s, e, v) in &items {
            for b in *s..*e {
                pb[b as usize] = Some(*v);
            }
        }
        manifest.push(json!({"path": path, "twin": twin, "kind": "bigwig", "chrom": "c", "length": CL, "per_base": pb, "items": items}));
    }
    for (k, li) in pick(nb, bl.len()).into_iter().enumerate() {
        let entries: Vec<(u32, u32, String)> = bl[li].iter().enumerate().map(|(i, (s, e))| (*s, *e, format!("e{}", i))).collect();
        let spec = EncSpec {
            bed: true,
            le: k % 4 != 3,
            compress: k % 2 == 0,
            version: 4,
            chroms: vec![EncChrom { name: "c".into(), size: CL, wig: vec![], bed: entries.chunks(2).map(|c| c.to_vec()).collect() }],
            chrom_block: 64,
            chrom_level_order: false,
            chrom_ids_in_given_order: false,
            chrom_ids_reverse_of_keys: false,
            fanout: 2,
            placement: Placement::LevelOrder,
            zooms: vec![2, 4],
            zoom_ips: 2,
            zoom_blocks_span_chroms: false,
            trailing_magic: true,
            index_last: false,
            no_summary: false,
            autosql: None,
        };
        let path = format!("{}/b{}.bb", dir, k);
        std::fs::write(&path, encode(&spec).bytes).unwrap();
        let twin = format!("{}/b{}t.bb", dir, k);
        let mut tspec = spec.clone();
        tspec.zooms.reverse();
        std::fs::write(&twin, encode(&tspec).bytes).unwrap();
        let mut depth = vec![0u32; CL as usize];
        for (s, e, _) in &entries {
            for b in *s..*e {
                depth[b as usize] += 1;
            }
        }
        let pb: Vec<Option<f32>> = depth.iter().map(|d| if *d > 0 { Some(*d as f32) } else { None }).collect();
        manifest.push(json!({"path": path, "twin": twin, "kind": "bigbed", "chrom": "c", "length": CL, "per_base": pb, "items": entries}));
    }
    // chromosomes of 17 x 1 000 001 and 17 x 1 000 003 bases covered by one interval: binned requests
    // whose span exceeds 2^24 (not representable in single precision) and whose bins end exactly on
    // the chromosome's ends
    let mut big = vec![];
    for (k, w) in [1_000_001u32, 1_000_003].into_iter().enumerate() {
        let len = 17 * w;
        for bed in [false, true] {
            let spec = EncSpec {
                bed,
                le: true,
                compress: k == 0,
                version: 4,
                chroms: vec![EncChrom { name: "c".into(), size: len, wig: if bed { vec![] } else { vec![WigSec::T1(vec![(0, len, 1.5)])] }, bed: if bed { vec![vec![(0, len, "whole".to_string())]] } else { vec![] } }],
                chrom_block: 64,
                chrom_level_order: false,
                chrom_ids_in_given_order: false,
                chrom_ids_reverse_of_keys: false,
                fanout: 2,
                placement: Placement::LevelOrder,
                zooms: vec![],
                zoom_ips: 2,
                zoom_blocks_span_chroms: false,
                trailing_magic: true,
                index_last: false,
                no_summary: false,
                autosql: None,
            };
            let path = format!("{}/big{}_{}.{}", dir, k, w, if bed { "bb" } else { "bw" });
            std::fs::write(&path, encode(&spec).bytes).unwrap();
            big.push(json!({"path": path, "kind": if bed { "bigbed" } else { "bigwig" }, "length": len, "width": w, "value": if bed { 1.0 } else { 1.5 }}));
        }
    }
    std::fs::write(format!("{}/manifest_big.json", dir), serde_json::to_string(&big).unwrap()).unwrap();
    // a 64-base chromosome whose value (bigWig) / depth (bigBed) at base p is p + 1: the extremes
    // of any range sit on its first and last base, so bins that together do not span the whole
    // range show up in the minimum / maximum whatever way fractional widths are rounded
    let mut frac = vec![];
    for bed in [false, true] {
        let len = 64u32;
        let spec = EncSpec {
            bed,
            le: true,
            compress: bed,
            version: 4,
            chroms: vec![EncChrom {
                name: "c".into(),
                size: len,
                wig: if bed { vec![] } else { vec![WigSec::T1((0..len).map(|p| (p, p + 1, (p + 1) as f32)).collect())] },
                bed: if bed { vec![(0..len).map(|q| (q, len, format!("e{}", q))).collect()] } else { vec![] },
            }],
            chrom_block: 64,
            chrom_level_order: false,
            chrom_ids_in_given_order: false,
            chrom_ids_reverse_of_keys: false,
            fanout: 4,
            placement: Placement::LevelOrder,
            zooms: vec![],
            zoom_ips: 2,
            zoom_blocks_span_chroms: false,
            trailing_magic: true,
            index_last: false,
            no_summary: false,
            autosql: None,
        };
        let path = format!("{}/frac.{}", dir, if bed { "bb" } else { "bw" });
        std::fs::write(&path, encode(&spec).bytes).unwrap();
        frac.push(json!({"path": path, "kind": if bed { "bigbed" } else { "bigwig" }, "length": len}));
    }
    std::fs::write(format!("{}/manifest_frac.json", dir), serde_json::to_string(&frac).unwrap()).unwrap();
    std::fs::write(format!("{}/manifest.json", dir), serde_json::to_string(&manifest).unwrap()).unwrap();
    println!("GENERATED {}", manifest.len());
}

/// C10 tool part: the converters on encoder-written files.
fn c10_tool(enc: &Encoded, spec: &EncSpec, tags: &[String], out: &mut Outcome) {
    use crate::clifam::{run_in, workdir};
    let wd = workdir();
    let dir = wd.path();
    std::fs::write(dir.join("f.bb"), &enc.bytes).unwrap();
    let tool = if spec.bed { "bigbedtobed" } else { "bigwigtobedgraph" };
    let mut want = String::new();
    // the converters walk chromosomes in the order of the chromosome tree (key order)
    for (name, id, _) in &enc.chroms {
        if spec.bed {
            for (s, e, rest) in &enc.bed[*id as usize] {
                if rest.is_empty() {
                    want.push_str(&format!("{}\t{}\t{}\n", name, s, e));
                } else {
                    want.push_str(&format!("{}\t{}\t{}\t{}\n", name, s, e, rest));
                }
            }
        } else {
            for (s, e, v) in &enc.wig[*id as usize] {
                want.push_str(&format!("{}\t{}\t{}\t{}\n", name, s, e, v.to_bits()));
            }
        }
    }
    for threads in [1usize, 3] {
        let a: Vec<String> = vec![tool.to_string(), "f.bb".into(), format!("o{}.txt", threads), "-t".into(), threads.to_string()];
        let r = run_in(dir, &a);
        out.count("tool_convert_runs", 1);
        if r.timed_out || r.code != Some(0) {
            out.fail("converter_refuses_well_formed_file", tags, format!("{:?}: exit {:?} stderr {}", a, r.code, r.stderr.chars().take(300).collect::<String>()));
            continue;
        }
        let text = std::fs::read_to_string(dir.join(format!("o{}.txt", threads))).unwrap_or_default();
        let got: String = if spec.bed {
            text
        } else {
            let mut g = String::new();
            for l in text.lines() {
                let f: Vec<&str> = l.split('\t').collect();
                if f.len() == 4 {
                    g.push_str(&format!("{}\t{}\t{}\t{}\n", f[0], f[1], f[2], f[3].parse::<f32>().map(|x| x.to_bits()).unwrap_or(0xdead)));
                } else {
                    g.push_str(l);
                    g.push('\n');
                }
            }
            g
        };
        if got != want {
            out.fail("converter_output_differs_from_encoded_content", tags, format!("{:?}: got {:?}, encoded {:?}", a, got.chars().take(300).collect::<String>(), want.chars().take(300).collect::<String>()));
        }
    }
    // the same file named by a descriptor path, its directory entry already removed: a well-formed
    // file is one whatever it is called
    {
        std::fs::write(dir.join("g.bb"), &enc.bytes).unwrap();
        let script = format!("exec 3<g.bb; rm -f g.bb; exec ./{} /proc/self/fd/3 ofd.txt -t 1", tool);
        let r = std::process::Command::new("/bin/bash").arg("-c").arg(&script).current_dir(dir).stdin(std::process::Stdio::null()).stdout(std::process::Stdio::null()).stderr(std::process::Stdio::piped()).output();
        out.count("tool_convert_runs", 1);
        out.count("tool_convert_runs_on_a_descriptor_path", 1);
        match r {
            Err(e) => out.fail("harness_panic", &[], format!("bash: {}", e)),
            Ok(o) => {
                let a = std::fs::read_to_string(dir.join("ofd.txt")).unwrap_or_default();
                let b = std::fs::read_to_string(dir.join("o1.txt")).unwrap_or_default();
                if o.status.code() != Some(0) {
                    out.fail("converter_refuses_well_formed_file", tags, format!("{} on /proc/self/fd/3 (an unlinked file): exit {:?} stderr {}", tool, o.status.code(), String::from_utf8_lossy(&o.stderr).chars().take(300).collect::<String>()));
                } else if a != b {
                    out.fail("converter_output_differs_from_encoded_content", tags, format!("{} on /proc/self/fd/3: {} bytes, on the path {} bytes", tool, a.len(), b.len()));
                }
            }
        }
    }
    if !spec.bed {
        let a: Vec<String> = vec!["bigwiginfo".into(), "f.bb".into()];
        let r = run_in(dir, &a);
        out.count("tool_convert_runs", 1);
        let swapped = r.stdout.lines().find_map(|l| l.strip_prefix("isSwapped: ").map(|x| x.trim().to_string()));
        let ver = r.stdout.lines().find_map(|l| l.strip_prefix("version: ").map(|x| x.trim().to_string()));
        if r.code != Some(0) || swapped != Some(if spec.le { "0".to_string() } else { "1".to_string() }) || ver != Some(spec.version.to_string()) {
            out.fail("info_tool_misreports_header", tags, format!("{:?}: exit {:?} isSwapped {:?} version {:?} for le={} version={}", a, r.code, swapped, ver, spec.le, spec.version));
        }
    }
}
