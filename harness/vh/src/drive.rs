//! Drivers for the real writers/readers: in-memory sink (plain / recording / fault injecting),
//! runtime construction, option plumbing.
use crate::model::*;
use bigtools::beddata::BedParserStreamingIterator;
use bigtools::{BBIDataProcessor, BBIDataSource, BBIProcessError, BBIWriteOptions, BedEntry, BigBedWrite, BigWigWrite, InputSortType, ProcessDataError, Value};
use serde::{Deserialize, Serialize};
use std::collections::HashMap;
use std::io::{self, Seek, SeekFrom, Write};
use std::sync::{Arc, Mutex};

#[derive(Clone, Debug, Serialize, Deserialize, PartialEq, Eq)]
pub enum Op {
    Write(Vec<u8>),
    /// absolute position after the seek, plus the request for the record
    Seek(u64),
    Flush,
}

#[derive(Clone, Copy, Debug, Serialize, Deserialize, PartialEq, Eq)]
pub enum FaultMode {
    /// the k-th operation fails once, everything later succeeds
    Once,
    /// the k-th operation and every later one fail
    Sticky,
    /// the k-th operation, if a write of more than one byte, is accepted only partially (short
    /// write, Ok(n < len)); later operations succeed
    Short,
}

#[derive(Default)]
pub struct SinkInner {
    pub buf: Vec<u8>,
    pub pos: u64,
    pub log: Option<Vec<Op>>,
    pub ops: u64,
    pub fault_at: Option<(u64, FaultMode)>,
    pub faults_injected: u64,
    /// every write call accepts at most this many bytes (a legal short write; callers must loop)
    pub max_write: Option<usize>,
    pub short_writes: u64,
}

thread_local! {
    /// set by a case runner: sinks created by `write_wig` / `write_bed` on this thread accept at
    /// most this many bytes per write call
    pub static SINK_CAP: std::cell::Cell<Option<usize>> = std::cell::Cell::new(None);
}

#[derive(Clone, Default)]
pub struct Sink(pub Arc<Mutex<SinkInner>>);

impl Sink {
    pub fn new() -> Sink {
        Sink::default()
    }
    pub fn recording() -> Sink {
        let s = Sink::default();
        s.0.lock().unwrap().log = Some(vec![]);
        s
    }
    /// recording sink over a destination that already holds `old` (rewritten in place, not truncated)
    pub fn recording_over(old: &[u8]) -> Sink {
        let s = Sink::recording();
        s.0.lock().unwrap().buf = old.to_vec();
        s
    }
    pub fn recording_faulting(k: u64, mode: FaultMode) -> Sink {
        let s = Sink::recording();
        s.0.lock().unwrap().fault_at = Some((k, mode));
        s
    }
    pub fn faulting(k: u64, mode: FaultMode) -> Sink {
        let s = Sink::default();
        s.0.lock().unwrap().fault_at = Some((k, mode));
        s
    }
    /// plain sink, or a short-writing one when the case runner set SINK_CAP
    pub fn for_case() -> Sink {
        let s = Sink::default();
        s.0.lock().unwrap().max_write = SINK_CAP.with(|c| c.get());
        s
    }
    pub fn short_writes(&self) -> u64 {
        self.0.lock().unwrap().short_writes
    }
    pub fn bytes(&self) -> Vec<u8> {
        self.0.lock().unwrap().buf.clone()
    }
    pub fn log(&self) -> Vec<Op> {
        self.0.lock().unwrap().log.clone().unwrap_or_default()
    }
    pub fn ops(&self) -> u64 {
        self.0.lock().unwrap().ops
    }
    pub fn faults_injected(&self) -> u64 {
        self.0.lock().unwrap().faults_injected
    }
}

impl SinkInner {
    /// returns Some(err) if this operation must fail
    fn gate(&mut self) -> Option<FaultMode> {
        let k = self.ops;
        self.ops += 1;
        match self.fault_at {
            Some((at, FaultMode::Once)) if k == at => Some(FaultMode::Once),
            Some((at, FaultMode::Sticky)) if k >= at => Some(FaultMode::Sticky),
            Some((at, FaultMode::Short)) if k == at => Some(FaultMode::Short),
            _ => None,
        }
    }
    fn do_write(&mut self, data: &[u8]) {
        let pos = self.pos as usize;
        if self.buf.len() < pos {
            self.buf.resize(pos, 0);
        }
        let end = pos + data.len();
        if self.buf.len() < end {
            self.buf.resize(end, 0);
        }
        self.buf[pos..end].copy_from_slice(data);
        self.pos = end as u64;
    }
}

fn injected() -> io::Error {
    io::Error::new(io::ErrorKind::Other, "injected fault")
}

impl Write for Sink {
    fn write(&mut self, data: &[u8]) -> io::Result<usize> {
        let mut g = self.0.lock().unwrap();
        match g.gate() {
            Some(FaultMode::Short) if data.len() > 1 => {
                g.faults_injected += 1;
                let n = data.len() / 2;
                let part = &data[..n];
                if let Some(l) = &mut g.log {
                    l.push(Op::Write(part.to_vec()));
                }
                g.do_write(part);
                return Ok(n);
            }
            Some(FaultMode::Short) => {}
            Some(_) => {
                g.faults_injected += 1;
                return Err(injected());
            }
            None => {}
        }
        let data = match g.max_write {
            Some(m) if data.len() > m => {
                g.short_writes += 1;
                &data[..m]
            }
            _ => data,
        };
        if let Some(l) = &mut g.log {
            l.push(Op::Write(data.to_vec()));
        }
        g.do_write(data);
        Ok(data.len())
    }
    fn flush(&mut self) -> io::Result<()> {
        let mut g = self.0.lock().unwrap();
        match g.gate() {
            Some(FaultMode::Short) | None => {}
            Some(_) => {
                g.faults_injected += 1;
                return Err(injected());
            }
        }
        if let Some(l) = &mut g.log {
            l.push(Op::Flush);
        }
        Ok(())
    }
}

impl Seek for Sink {
    fn seek(&mut self, to: SeekFrom) -> io::Result<u64> {
        let mut g = self.0.lock().unwrap();
        match g.gate() {
            Some(FaultMode::Short) | None => {}
            Some(_) => {
                g.faults_injected += 1;
                return Err(injected());
            }
        }
        let new = match to {
            SeekFrom::Start(p) => p as i128,
            SeekFrom::Current(d) => g.pos as i128 + d as i128,
            SeekFrom::End(d) => g.buf.len() as i128 + d as i128,
        };
        if new < 0 {
            return Err(io::Error::new(io::ErrorKind::InvalidInput, "negative seek"));
        }
        g.pos = new as u64;
        if let Some(l) = &mut g.log {
            l.push(Op::Seek(new as u64));
        }
        Ok(g.pos)
    }
}

/// Materialise the destination image after the first k logged operations.
pub fn image_after(log: &[Op], k: usize) -> Vec<u8> {
    image_after_over(&[], log, k)
}

/// The same over a destination that held `old` before the first operation.
pub fn image_after_over(old: &[u8], log: &[Op], k: usize) -> Vec<u8> {
    let mut s = SinkInner::default();
    s.buf = old.to_vec();
    for op in &log[..k] {
        match op {
            Op::Write(d) => s.do_write(d),
            Op::Seek(p) => s.pos = *p,
            Op::Flush => {}
        }
    }
    s.buf
}

pub fn make_runtime(rt: Rt) -> tokio::runtime::Runtime {
    match rt {
        Rt::Current => tokio::runtime::Builder::new_current_thread()
            .build()
            .expect("runtime"),
        Rt::Multi(n) => tokio::runtime::Builder::new_multi_thread()
            .worker_threads(n)
            .build()
            .expect("runtime"),
    }
}

pub fn bbi_options(o: &Opts, allow_ooo: bool) -> BBIWriteOptions {
    let mut b = BBIWriteOptions::default();
    b.compress = o.compress;
    b.items_per_slot = o.ips;
    b.block_size = o.bs;
    b.inmemory = o.inmemory;
    b.channel_size = o.chan;
    b.input_sort_type = if allow_ooo {
        InputSortType::START
    } else {
        InputSortType::ALL
    };
    match &o.zoom {
        Zoom::AutoDefault => {}
        Zoom::Auto { initial, max } => {
            b.initial_zoom_size = *initial;
            b.max_zooms = *max;
        }
        Zoom::Manual(v) => b.manual_zoom_sizes = Some(v.clone()),
    }
    b
}

pub fn wig_size_map(c: &WigCase) -> HashMap<String, u32> {
    let mut m = HashMap::new();
    for ch in &c.chroms {
        m.insert(ch.name.clone(), ch.len);
    }
    for (n, l) in &c.extra_sizes {
        m.insert(n.clone(), *l);
    }
    m
}

pub fn wig_stream(c: &WigCase) -> Vec<(String, Value)> {
    let mut v = vec![];
    for ch in &c.chroms {
        for it in &ch.items {
            v.push((
                ch.name.clone(),
                Value {
                    start: it.s,
                    end: it.e,
                    value: it.v(),
                },
            ));
        }
    }
    v
}

pub fn wig_text(c: &WigCase) -> String {
    let mut t = String::new();
    for ch in &c.chroms {
        for it in &ch.items {
            // `{}` prints the shortest decimal that parses back to the same f32 bits
            t.push_str(&format!("{}\t{}\t{}\t{}\n", ch.name, it.s, it.e, it.v()));
        }
    }
    t
}

fn scratch_file(text: &str) -> Result<tempfile::NamedTempFile, String> {
    use std::io::Write as _;
    let mut f = tempfile::NamedTempFile::new().map_err(|e| format!("HARNESS tempfile: {}", e))?;
    f.write_all(text.as_bytes()).map_err(|e| format!("HARNESS tempfile: {}", e))?;
    f.flush().map_err(|e| format!("HARNESS tempfile: {}", e))?;
    Ok(f)
}

#[derive(Debug)]
pub struct NoSourceError;
impl std::fmt::Display for NoSourceError {
    fn fmt(&self, f: &mut std::fmt::Formatter<'_>) -> std::fmt::Result {
        write!(f, "never")
    }
}
impl std::error::Error for NoSourceError {}

/// A data source that starts every chromosome it is given, with or without values (as
/// `bigwigmerge` does for a chromosome whose values are all filtered out).
pub struct StartedSource<V> {
    pub chroms: Vec<(String, Vec<V>)>,
}
impl<V: Clone + Send + 'static> BBIDataSource for StartedSource<V> {
    type Value = V;
    type Error = NoSourceError;
    fn process_to_bbi<
        P: BBIDataProcessor<Value = V> + Send + 'static,
        StartProcessing: FnMut(String) -> Result<P, ProcessDataError>,
        Advance: FnMut(P),
    >(
        &mut self,
        runtime: &tokio::runtime::Runtime,
        start_processing: &mut StartProcessing,
        advance: &mut Advance,
    ) -> Result<(), BBIProcessError<NoSourceError>> {
        for (c, vals) in &self.chroms {
            let mut p = start_processing(c.clone())?;
            for i in 0..vals.len() {
                runtime.block_on(p.do_process(vals[i].clone(), vals.get(i + 1)))?;
            }
            advance(p);
        }
        Ok(())
    }
}

/// Run the real bigWig writer on the case into `sink`.  Ok(()) / Err(display of the error).
pub fn write_wig_into(c: &WigCase, sink: Sink) -> Result<(), String> {
    let mut w = BigWigWrite::new(sink, wig_size_map(c));
    w.options = bbi_options(&c.opts, c.allow_ooo);
    let rt = make_runtime(c.opts.rt);
    let ooo = c.allow_ooo;
    macro_rules! go {
        ($mk:expr) => {{
            if c.opts.two_pass {
                w.write_multipass(|| Ok($mk), rt).map_err(|e| format!("{}", e))
            } else {
                w.write($mk, rt).map_err(|e| format!("{}", e))
            }
        }};
    }
    match c.opts.src {
        SrcKind::Iter => {
            let stream = wig_stream(c);
            go!(BedParserStreamingIterator::wrap_infallible_iter(stream.clone().into_iter(), ooo))
        }
        SrcKind::SerialText => {
            let text = wig_text(c);
            go!(BedParserStreamingIterator::from_bedgraph_file(std::io::Cursor::new(text.clone().into_bytes()), ooo))
        }
        SrcKind::ParallelFile => {
            let f = scratch_file(&wig_text(c))?;
            let path = f.path().to_path_buf();
            let idx = bigtools::bed::indexer::index_chroms(std::fs::File::open(&path).map_err(|e| format!("HARNESS {}", e))?)
                .map_err(|e| format!("indexer: {}", e))?
                .ok_or_else(|| "indexer: a grouped file was reported as not grouped".to_string())?;
            go!(bigtools::beddata::BedParserParallelStreamingIterator::new(idx.clone(), ooo, path.clone(), bigtools::bed::bedparser::parse_bedgraph))
        }
        SrcKind::Started => {
            let chroms: Vec<(String, Vec<Value>)> = c.chroms.iter().map(|ch| (ch.name.clone(), ch.items.iter().map(|it| Value { start: it.s, end: it.e, value: it.v() }).collect())).collect();
            go!(StartedSource { chroms: chroms.clone() })
        }
    }
}

pub fn write_wig(c: &WigCase) -> Result<Vec<u8>, String> {
    let sink = Sink::for_case();
    write_wig_into(c, sink.clone())?;
    Ok(sink.bytes())
}

pub fn bed_size_map(c: &BedCase) -> HashMap<String, u32> {
    let mut m = HashMap::new();
    for ch in &c.chroms {
        m.insert(ch.name.clone(), ch.len);
    }
    for (n, l) in &c.extra_sizes {
        m.insert(n.clone(), *l);
    }
    m
}

pub fn bed_stream(c: &BedCase) -> Vec<(String, BedEntry)> {
    let mut v = vec![];
    for ch in &c.chroms {
        for it in &ch.items {
            v.push((
                ch.name.clone(),
                BedEntry {
                    start: it.s,
                    end: it.e,
                    rest: it.rest.clone(),
                },
            ));
        }
    }
    v
}

pub fn bed_text(c: &BedCase) -> String {
    let mut t = String::new();
    for ch in &c.chroms {
        for it in &ch.items {
            if it.rest.is_empty() {
                t.push_str(&format!("{}\t{}\t{}\n", ch.name, it.s, it.e));
            } else {
                t.push_str(&format!("{}\t{}\t{}\t{}\n", ch.name, it.s, it.e, it.rest));
            }
        }
    }
    t
}

pub fn write_bed_into(c: &BedCase, sink: Sink) -> Result<(), String> {
    let mut w = BigBedWrite::new(sink, bed_size_map(c));
    w.options = bbi_options(&c.opts, c.allow_ooo);
    w.autosql = c.autosql.clone();
    let rt = make_runtime(c.opts.rt);
    let ooo = c.allow_ooo;
    macro_rules! go {
        ($mk:expr) => {{
            if c.opts.two_pass {
                w.write_multipass(|| Ok($mk), rt).map_err(|e| format!("{}", e))
            } else {
                w.write($mk, rt).map_err(|e| format!("{}", e))
            }
        }};
    }
    match c.opts.src {
        SrcKind::Iter => {
            let stream = bed_stream(c);
            go!(BedParserStreamingIterator::wrap_infallible_iter(stream.clone().into_iter(), ooo))
        }
        SrcKind::SerialText => {
            let text = bed_text(c);
            go!(BedParserStreamingIterator::from_bed_file(std::io::Cursor::new(text.clone().into_bytes()), ooo))
        }
        SrcKind::ParallelFile => {
            let f = scratch_file(&bed_text(c))?;
            let path = f.path().to_path_buf();
            let idx = bigtools::bed::indexer::index_chroms(std::fs::File::open(&path).map_err(|e| format!("HARNESS {}", e))?)
                .map_err(|e| format!("indexer: {}", e))?
                .ok_or_else(|| "indexer: a grouped file was reported as not grouped".to_string())?;
            go!(bigtools::beddata::BedParserParallelStreamingIterator::new(idx.clone(), ooo, path.clone(), bigtools::bed::bedparser::parse_bed))
        }
        SrcKind::Started => {
            let chroms: Vec<(String, Vec<BedEntry>)> = c.chroms.iter().map(|ch| (ch.name.clone(), ch.items.iter().map(|it| BedEntry { start: it.s, end: it.e, rest: it.rest.clone() }).collect())).collect();
            go!(StartedSource { chroms: chroms.clone() })
        }
    }
}

pub fn write_bed(c: &BedCase) -> Result<Vec<u8>, String> {
    let sink = Sink::for_case();
    write_bed_into(c, sink.clone())?;
    Ok(sink.bytes())
}

// ---------------------------------------------------------------------------------------------
// input-derived feature tags (computed before running the case; used to key known findings)

pub fn wig_tags(c: &WigCase) -> Vec<String> {
    let mut t = vec![];
    let mut only_zero = true;
    let mut edge_zero = false;
    for ch in &c.chroms {
        for it in &ch.items {
            if it.s == it.e {
                if it.s == 0 || it.s == ch.len {
                    edge_zero = true;
                }
            } else {
                only_zero = false;
            }
        }
    }
    if edge_zero {
        t.push("zero_length_at_chrom_edge".to_string());
    }
    if only_zero {
        t.push("only_zero_length_values".to_string());
    }
    t
}

pub fn bed_tags(c: &BedCase) -> Vec<String> {
    let mut t = vec![];
    if c.chroms.iter().any(|ch| ch.items.iter().any(|i| i.s == 0 && i.e == 0)) {
        t.push("bed_entry_0_0".to_string());
    }
    t
}
