//! Command-line level checks: C16 (conversion round trips), and the tool parts of C15 (merge),
//! C17 (average/values over bed) and C13 (exit status).  The built binaries are spawned as
//! processes; their directory comes from VH_CLI_DIR.
use crate::enc::*;
use crate::indep;
use crate::sup::*;
use bigtools::{BigBedRead, BigWigRead};
use serde::{Deserialize, Serialize};
use serde_json::json;
use std::path::{Path, PathBuf};
use std::process::{Command, Stdio};
use std::time::Duration;
use wait_timeout::ChildExt;

pub fn cli_dir() -> PathBuf {
    PathBuf::from(std::env::var("VH_CLI_DIR").unwrap_or_else(|_| "/verif/.cache/target-cli/release".to_string()))
}

pub struct Ran {
    pub code: Option<i32>,
    pub stderr: String,
    pub stdout: String,
    pub timed_out: bool,
}

/// Run `argv[0]` (resolved inside `dir`) with the remaining arguments; 60 s cap.
pub fn run_in(dir: &Path, argv: &[String]) -> Ran {
    run_in_stdin(dir, argv, None)
}

/// Like `run_in`, with the process limited to `nofile` open file descriptors (`ulimit -n`).
pub fn run_in_nofile(dir: &Path, argv: &[String], nofile: u32) -> Ran {
    let exe = dir.join(&argv[0]);
    let out = Command::new("/bin/sh")
        .arg("-c")
        .arg(format!("ulimit -n {}; exec \"$0\" \"$@\"", nofile))
        .arg(&exe)
        .args(&argv[1..])
        .current_dir(dir)
        .stdin(Stdio::null())
        .stdout(Stdio::null())
        .stderr(Stdio::piped())
        .output();
    match out {
        Ok(o) => Ran { code: o.status.code(), stderr: String::from_utf8_lossy(&o.stderr).to_string(), stdout: String::new(), timed_out: false },
        Err(e) => Ran { code: None, stderr: format!("HARNESS spawn: {}", e), stdout: String::new(), timed_out: false },
    }
}

/// Like `run_in`, with standard input taken from the named file of the directory.
pub fn run_in_stdin(dir: &Path, argv: &[String], stdin_file: Option<&str>) -> Ran {
    let exe = dir.join(&argv[0]);
    let stdin = match stdin_file {
        None => Stdio::null(),
        Some(f) => match std::fs::File::open(dir.join(f)) {
            Ok(f) => Stdio::from(f),
            Err(e) => return Ran { code: None, stderr: format!("HARNESS stdin file: {}", e), stdout: String::new(), timed_out: false },
        },
    };
    // stdout goes to a file (the info tools print there; a pipe could fill up)
    let out_path = dir.join(".stdout");
    let out_file = match std::fs::File::create(&out_path) {
        Ok(f) => f,
        Err(e) => return Ran { code: None, stderr: format!("HARNESS stdout file: {}", e), stdout: String::new(), timed_out: false },
    };
    let mut child = match Command::new(&exe).args(&argv[1..]).current_dir(dir).stdin(stdin).stdout(Stdio::from(out_file)).stderr(Stdio::piped()).spawn() {
        Ok(c) => c,
        Err(e) => return Ran { code: None, stderr: format!("HARNESS spawn {:?}: {}", exe, e), stdout: String::new(), timed_out: false },
    };
    match child.wait_timeout(Duration::from_secs(60)).unwrap() {
        Some(st) => {
            let mut err = String::new();
            if let Some(mut s) = child.stderr.take() {
                use std::io::Read;
                let _ = s.read_to_string(&mut err);
            }
            Ran { code: st.code(), stderr: err, stdout: std::fs::read_to_string(&out_path).unwrap_or_default(), timed_out: false }
        }
        None => {
            let _ = child.kill();
            let _ = child.wait();
            Ran { code: None, stderr: String::new(), stdout: String::new(), timed_out: true }
        }
    }
}

/// A scratch directory with symlinks to every tool (also under the UCSC spellings).
pub fn workdir() -> tempfile::TempDir {
    let d = tempfile::tempdir().expect("tempdir");
    let src = cli_dir();
    for (link, target) in [
        ("bedgraphtobigwig", "bedgraphtobigwig"),
        ("bedGraphToBigWig", "bedgraphtobigwig"),
        ("bedtobigbed", "bedtobigbed"),
        ("bedToBigBed", "bedtobigbed"),
        ("bigwigtobedgraph", "bigwigtobedgraph"),
        ("bigWigToBedGraph", "bigwigtobedgraph"),
        ("bigbedtobed", "bigbedtobed"),
        ("bigBedToBed", "bigbedtobed"),
        ("bigwigmerge", "bigwigmerge"),
        ("bigWigMerge", "bigwigmerge"),
        ("bigwigaverageoverbed", "bigwigaverageoverbed"),
        ("bigWigAverageOverBed", "bigwigaverageoverbed"),
        ("bigwigvaluesoverbed", "bigwigvaluesoverbed"),
        ("bigwiginfo", "bigwiginfo"),
        ("bigbedinfo", "bigbedinfo"),
        ("bigtools", "bigtools"),
    ] {
        let _ = std::os::unix::fs::symlink(src.join(target), d.path().join(link));
    }
    d
}

fn s(x: &str) -> String {
    x.to_string()
}

// =============================================================================================
// C16

#[derive(Clone, Debug, Serialize, Deserialize)]
pub struct C16Case {
    pub bed: bool,
    pub input: usize,
    pub threads: usize,
    pub parallel: String,
    pub single_pass: bool,
    pub inmemory: bool,
    pub uncompressed: bool,
    pub block_size: u32,
    pub zooms: bool,
    pub multicall: bool,
    pub ucsc: bool,
    /// the text comes on standard input (named `-`, `stdin` or `/dev/stdin`, by rotation)
    #[serde(default)]
    pub stdin: bool,
}

pub struct C16;

fn bedgraph_inputs() -> Vec<(String, String)> {
    // (text, chrom sizes)
    // chrUn carries values spelled with more digits than a double holds, a hair off the midpoint
    // between two neighbouring singles (text -> f64 -> f32 rounds them to the wrong neighbour);
    // chr10 is longer than the first chromosome and has a value beyond the first one's length;
    // chrX_KI270442v1 has upper-case letters in its name (restricted queries name it)
    let sizes = "chr1\t1000\nchr10\t2000\nchr2\t500\nchrUn\t77\nchrX_KI270442v1\t300\n".to_string();
    let t1 = "chr1\t0\t5\t1.5\nchr1\t5\t6\t-2.25\nchr1\t10\t20\t0.06792\nchr1\t20\t21\t3\nchr1\t999\t1000\t14254\nchr10\t7\t1500\t0.5\nchr10\t1600\t1700\t4\nchr2\t1\t2\t1\nchr2\t2\t3\t1\nchr2\t400\t500\t-0.001\nchrUn\t0\t1\t16777217.0000000000000001\nchrUn\t1\t2\t1.00000005960464477539062500000001\nchrUn\t2\t3\t37.500001907348633\nchrUn\t3\t4\t1.0000000596046448\nchrUn\t4\t5\t8.5070596e37\nchrX_KI270442v1\t0\t3\t7\nchrX_KI270442v1\t250\t300\t8\n".to_string();
    let t2 = t1.trim_end().to_string();
    let mut t3 = String::new();
    for i in 0..30 {
        t3.push_str(&format!("chr1\t{}\t{}\t{}\n", i * 7, i * 7 + 3, (i % 5) as f32 * 0.25 + 0.125));
    }
    let mut t4 = String::new();
    let mut sizes4 = String::new();
    // (names that differ only in case: A1 / a1)
    for c in ["A1", "a1", "a2", "b", "c", "d10"] {
        t4.push_str(&format!("{}\t0\t10\t1\n{}\t10\t50\t2.5\n", c, c));
        sizes4.push_str(&format!("{}\t100\n", c));
    }
    // non-finite values are outside C01's domain but legal in a file: the converters must still
    // print the same text whatever the thread count
    let t5 = "chr1\t0\t5\tinf\nchr1\t5\t6\t-inf\nchr1\t10\t20\tNaN\nchr10\t7\t8\t1\nchr2\t1\t2\tNaN\nchr2\t2\t3\t2\n".to_string();
    // input 5 (used by four explicit configurations only): more records on one chromosome than a
    // section's 16-bit item count can express, converted with --items-per-slot 70000
    let mut t6 = String::new();
    for i in 0..70_000u32 {
        t6.push_str(&format!("chr1\t{}\t{}\t{}\n", 2 * i, 2 * i + 1, (i % 97) as f32 * 0.5));
    }
    t6.push_str("chr10\t7\t9\t1\nchr2\t1\t2\t2\n");
    let sizes6 = "chr1\t200000\nchr10\t2000\nchr2\t500\n".to_string();
    vec![(t1, sizes.clone()), (t2, sizes.clone()), (t3, sizes.clone()), (t4, sizes4), (t5, sizes), (t6, sizes6)]
}

fn bed_inputs() -> Vec<(String, String)> {
    let sizes = "chr1\t1000\nchr10\t2000\nchr2\t500\nchrUn\t77\nchrX_KI270442v1\t300\n".to_string();
    let b1 = "chr1\t0\t5\tn1\t10\t+\nchr1\t2\t600\tn2\t20\t-\nchr1\t2\t3\tn3\t0\t+\nchr1\t999\t1000\tn4\t5\t-\nchr10\t7\t1500\tlong\t1\t+\nchr10\t1600\t1700\tfar\t2\t-\nchr2\t1\t2\tx\t1\t+\nchr2\t1\t2\tx\t1\t+\nchr2\t400\t500\ty\t2\t-\nchrX_KI270442v1\t0\t3\tup\t7\t+\nchrX_KI270442v1\t250\t300\tUP\t8\t-\n".to_string();
    let b2 = "chr1\t0\t5\nchr1\t5\t6\nchr10\t7\t1500\nchr2\t400\t500\n".to_string();
    let b3 = "chr1\t10\t100\tgene\t900\t+\t20\t90\t255,0,0\t2\t10,20,\t0,70,\nchr2\t5\t50\tg2\t1\t-\t5\t50\t0\t1\t45,\t0,\n".to_string();
    let b4 = b1.trim_end().to_string();
    // input 4 (explicit configurations only): the second and third chromosome carry more than 1 MiB of
    // text each in rows of 9 KB (longer than the 8 KiB buffers, crossing every 64 KiB / 1 MiB mark of
    // whatever stages a chromosome's text before it reaches the output)
    // (the first chromosome has 60 000 short rows, so that it still owns the output while the later ones are staged)
    let mut b5 = String::new();
    for i in 0..60_000u32 {
        b5.push_str(&format!("chr1\t{}\t{}\tr{}\n", i / 100, i / 100 + 5, i));
    }
    for (c, n) in [("chr10", 150u32), ("chr2", 130)] {
        for i in 0..n {
            let name: String = (0..9000u32).map(|k| (b'a' + ((i * 7 + k * 13 + k / 97) % 26) as u8) as char).collect();
            b5.push_str(&format!("{}\t{}\t{}\t{}\t{}\n", c, 3 * i, 3 * i + 10, name, i));
        }
    }
    vec![(b1, sizes.clone()), (b2, sizes.clone()), (b3, sizes.clone()), (b4, sizes.clone()), (b5, sizes)]
}

fn parse_bg(text: &str) -> Result<Vec<(String, u32, u32, u32)>, String> {
    let mut v = vec![];
    for l in text.lines() {
        let f: Vec<&str> = l.split('\t').collect();
        if f.len() != 4 {
            return Err(format!("bedGraph line {:?} does not have 4 columns", l));
        }
        v.push((
            f[0].to_string(),
            f[1].parse::<u32>().map_err(|_| format!("bad start in {:?}", l))?,
            f[2].parse::<u32>().map_err(|_| format!("bad end in {:?}", l))?,
            f[3].parse::<f32>().map_err(|_| format!("bad value in {:?}", l))?.to_bits(),
        ));
    }
    Ok(v)
}

fn c16_all(quick: bool) -> Vec<C16Case> {
    let mut v = vec![];
    let mut n = 0usize;
    for bed in [false, true] {
        for input in 0..(if bed { 4 } else { 5 }) {
            for threads in [1usize, 2, 3, 6, 16] {
                for parallel in ["auto", "yes", "no"] {
                    for single_pass in [false, true] {
                        for inmemory in [false, true] {
                            for uncompressed in [false, true] {
                                for block_size in [2u32, 256] {
                                    for zooms in [false, true] {
                                        for multicall in [false, true] {
                                            for ucsc in [false, true] {
                                                for stdin in [false, true] {
                                                    // standard input: the tools ignore --parallel and always make one pass
                                                    if stdin && !(parallel == "auto" && (threads == 1 || threads == 6)) {
                                                        continue;
                                                    }
                                                    n += 1;
                                                    if quick && n % 19 != 0 {
                                                        continue;
                                                    }
                                                    v.push(C16Case { bed, input, threads, parallel: s(parallel), single_pass, inmemory, uncompressed, block_size, zooms, multicall, ucsc, stdin });
                                                }
                                            }
                                        }
                                    }
                                }
                            }
                        }
                    }
                }
            }
        }
    }
    // --sorted start with chromosomes out of name order
    for bed in [false, true] {
        v.push(C16Case { bed, input: 96, threads: 4, parallel: s("yes"), single_pass: false, inmemory: false, uncompressed: false, block_size: 256, zooms: false, multicall: false, ucsc: false, stdin: false });
    }
    // BED text through a pipe named like a file
    for (ucsc, threads) in [(false, 1usize), (true, 4)] {
        v.push(C16Case { bed: true, input: 97, threads, parallel: s("auto"), single_pass: true, inmemory: false, uncompressed: false, block_size: 256, zooms: false, multicall: false, ucsc, stdin: false });
    }
    // many chromosomes through the multi-threaded to-text converter under a limit of 64 open files
    for ucsc in [false, true] {
        v.push(C16Case { bed: false, input: 98, threads: 4, parallel: s("auto"), single_pass: false, inmemory: true, uncompressed: false, block_size: 256, zooms: false, multicall: false, ucsc, stdin: false });
    }
    // inputs of more than 200 MB with the default --parallel auto (input 99 is generated by the case)
    for (bed, threads, single_pass, ucsc) in [(false, 3usize, false, false), (true, 6, false, true)] {
        v.push(C16Case { bed, input: 99, threads, parallel: s("auto"), single_pass, inmemory: false, uncompressed: false, block_size: 256, zooms: false, multicall: ucsc, ucsc, stdin: false });
    }
    for (threads, parallel, single_pass, ucsc) in [(1usize, "no", false, false), (6, "yes", true, true)] {
        v.push(C16Case { bed: true, input: 4, threads, parallel: s(parallel), single_pass, inmemory: false, uncompressed: threads == 6, block_size: 256, zooms: false, multicall: ucsc, ucsc, stdin: false });
    }
    for (threads, parallel, single_pass, ucsc) in [(1usize, "no", false, false), (6, "yes", false, true), (2, "auto", true, false), (16, "no", true, true)] {
        v.push(C16Case { bed: false, input: 5, threads, parallel: s(parallel), single_pass, inmemory: threads == 6, uncompressed: threads == 2, block_size: 256, zooms: false, multicall: ucsc, ucsc, stdin: false });
    }
    v
}

/// An input of more than 200 000 000 bytes with the default `--parallel auto`: the converters then
/// switch to the per-chromosome parallel source on their own.  The conversion must succeed and the
/// file must hold every record (totals, and records read back at both ends of each chromosome).
fn c16_over_200mb(c: &C16Case, out: &mut Outcome) {
    use std::io::Write as _;
    let wd = workdir();
    let dir = wd.path();
    let per = if c.bed { [4_600_000u32, 3_900_000] } else { [4_900_000u32, 4_300_000] };
    {
        let mut f = std::io::BufWriter::with_capacity(1 << 20, std::fs::File::create(dir.join("in.txt")).unwrap());
        for (ci, n) in per.iter().enumerate() {
            for i in 0..*n {
                if c.bed {
                    writeln!(f, "chr{}\t{}\t{}\tname{}\t{}\t+", ci + 1, 2 * i, 2 * i + 3, i, i % 1000).unwrap();
                } else {
                    writeln!(f, "chr{}\t{}\t{}\t{}", ci + 1, 2 * i, 2 * i + 1, (i % 97) as f32 * 0.5).unwrap();
                }
            }
        }
    }
    let size = std::fs::metadata(dir.join("in.txt")).map(|m| m.len()).unwrap_or(0);
    if size < 200_000_000 {
        out.fail("harness_panic", &[], format!("the large input has only {} bytes", size));
        return;
    }
    std::fs::write(dir.join("sizes"), "chr1\t20000000\nchr2\t20000000\n").unwrap();
    let tool = if c.bed { if c.ucsc { "bedToBigBed" } else { "bedtobigbed" } } else if c.ucsc { "bedGraphToBigWig" } else { "bedgraphtobigwig" };
    let mut argv: Vec<String> = if c.multicall { vec![s("bigtools"), s(tool)] } else { vec![s(tool)] };
    argv.extend([s("in.txt"), s("sizes"), s("out.bb"), s("-t"), c.threads.to_string()]);
    if c.single_pass {
        argv.push(s("--single-pass"));
    }
    let tags = vec![if c.bed { s("bed") } else { s("bedgraph") }, s("input_over_200_mb"), s("parallel_auto")];
    let r = run_in(dir, &argv);
    out.count("process_runs", 1);
    out.count("conversions_of_inputs_over_200_mb", 1);
    if r.timed_out || r.code != Some(0) {
        out.fail("conversion_failed", &tags, format!("{:?} on a {} byte input: exit {:?} timed_out {} stderr {}", argv, size, r.code, r.timed_out, r.stderr.chars().take(300).collect::<String>()));
        return;
    }
    let path = dir.join("out.bb");
    let res = guarded(|| -> Result<(), String> {
        let total: u64 = per.iter().map(|n| *n as u64).sum();
        if c.bed {
            let mut rd = BigBedRead::open_file(&path).map_err(|e| format!("{}", e))?;
            let n = rd.item_count().map_err(|e| format!("{}", e))?;
            if n != total {
                return Err(format!("item count {} for {} input lines", n, total));
            }
            for (ci, cn) in per.iter().enumerate() {
                for (a, b, first_i) in [(0u32, 10u32, 0u32), (2 * (cn - 3), 2 * cn + 3, cn - 4)] {
                    let got: Vec<(u32, u32, String)> = rd.get_interval(&format!("chr{}", ci + 1), a, b).map_err(|e| format!("{}", e))?.map(|e| e.map(|e| (e.start, e.end, e.rest))).collect::<Result<_, _>>().map_err(|e| format!("{}", e))?;
                    // entries that only touch the range may or may not be returned
                    let got: Vec<(u32, u32, String)> = got.into_iter().filter(|g| g.0 < b && g.1 > a).collect();
                    let want: Vec<(u32, u32, String)> = (first_i..*cn).filter(|i| 2 * i < b && 2 * i + 3 > a).map(|i| (2 * i, 2 * i + 3, format!("name{}\t{}\t+", i, i % 1000))).collect();
                    if got != want {
                        return Err(format!("chr{} [{},{}): {} entries {:?}, expected {:?}", ci + 1, a, b, got.len(), got.first(), want.first()));
                    }
                }
            }
        } else {
            let mut rd = BigWigRead::open_file(&path).map_err(|e| format!("{}", e))?;
            let sm = rd.get_summary().map_err(|e| format!("{}", e))?;
            if sm.bases_covered != total {
                return Err(format!("{} bases covered for {} one-base input lines", sm.bases_covered, total));
            }
            for (ci, cn) in per.iter().enumerate() {
                for (a, b, first_i) in [(0u32, 10u32, 0u32), (2 * (cn - 3), 2 * cn + 3, cn - 4)] {
                    let got: Vec<(u32, u32, u32)> = rd.get_interval(&format!("chr{}", ci + 1), a, b).map_err(|e| format!("{}", e))?.map(|e| e.map(|e| (e.start, e.end, e.value.to_bits()))).collect::<Result<_, _>>().map_err(|e| format!("{}", e))?;
                    let want: Vec<(u32, u32, u32)> = (first_i..*cn).filter(|i| 2 * i < b && 2 * i + 1 > a).map(|i| (2 * i, 2 * i + 1, ((i % 97) as f32 * 0.5).to_bits())).collect();
                    if got != want {
                        return Err(format!("chr{} [{},{}): {} values {:?}, expected {:?}", ci + 1, a, b, got.len(), got.first(), want.first()));
                    }
                }
            }
        }
        Ok(())
    });
    match res {
        Ok(Ok(())) => {}
        Ok(Err(e)) => out.fail("roundtrip_records_differ", &tags, e),
        Err(p) => out.fail("roundtrip_records_differ", &tags, format!("reading the output panicked: {}", p)),
    }
}

/// 600 chromosomes of 1 500 values converted back to text by several threads in a process that may
/// hold at most 64 open files: the converter reopens the file once per chromosome, so it has to
/// bound how many chromosomes are in flight; the text must hold every record whatever the limit.
fn c16_low_fd(c: &C16Case, out: &mut Outcome) {
    use std::io::Write as _;
    let wd = workdir();
    let dir = wd.path();
    let (nchrom, per) = (600u32, 1500u32);
    let mut sizes = String::new();
    {
        let mut f = std::io::BufWriter::with_capacity(1 << 20, std::fs::File::create(dir.join("in.bedGraph")).unwrap());
        for ci in 0..nchrom {
            sizes.push_str(&format!("c{:04}\t10000\n", ci));
            for i in 0..per {
                writeln!(f, "c{:04}\t{}\t{}\t{}", ci, 2 * i, 2 * i + 1, ((i + ci) % 89) as f32 * 0.25).unwrap();
            }
        }
    }
    std::fs::write(dir.join("sizes"), sizes).unwrap();
    let tags = vec![s("bedgraph"), s("open_file_limit_64")];
    let r = run_in(dir, &[s("bedgraphtobigwig"), s("in.bedGraph"), s("sizes"), s("out.bw")]);
    out.count("process_runs", 1);
    if r.timed_out || r.code != Some(0) {
        out.fail("conversion_failed", &tags, format!("forward conversion: exit {:?} timed_out {} stderr {}", r.code, r.timed_out, r.stderr.chars().take(300).collect::<String>()));
        return;
    }
    let parse = |b: &[u8]| -> Vec<(String, u32, u32, u32)> {
        String::from_utf8_lossy(b)
            .lines()
            .map(|l| {
                let f: Vec<&str> = l.split('\t').collect();
                (f.first().unwrap_or(&"").to_string(), f.get(1).and_then(|x| x.parse().ok()).unwrap_or(u32::MAX), f.get(2).and_then(|x| x.parse().ok()).unwrap_or(u32::MAX), f.get(3).and_then(|x| x.parse::<f32>().ok()).map(|v| v.to_bits()).unwrap_or(u32::MAX))
            })
            .collect()
    };
    let want = parse(&std::fs::read(dir.join("in.bedGraph")).unwrap());
    for threads in [2usize, 4, 8] {
        let argv = vec![if c.ucsc { s("bigWigToBedGraph") } else { s("bigwigtobedgraph") }, s("out.bw"), s("back.bedGraph"), s("-t"), threads.to_string(), s("--inmemory")];
        let _ = std::fs::remove_file(dir.join("back.bedGraph"));
        let r = run_in_nofile(dir, &argv, 64);
        out.count("process_runs", 1);
        out.count("conversions_under_an_open_file_limit", 1);
        let got = parse(&std::fs::read(dir.join("back.bedGraph")).unwrap_or_default());
        if r.code == Some(0) {
            if got != want {
                out.fail("roundtrip_records_differ", &tags, format!("{:?} under ulimit -n 64: exit 0 with {} of {} records", argv, got.len(), want.len()));
            }
        } else {
            // refusing loudly is not a round-trip violation; count it so that it is visible
            out.count("conversions_refused_under_the_limit", 1);
        }
    }
}

/// `--sorted start`: the chromosomes come in an order that is not the byte order of their names
/// (C, A, B and chr2, chr10, chr1); every path -- serial, parallel, single- and two-pass -- converts
/// the file, and the records come back.
fn c16_sorted_start(c: &C16Case, out: &mut Outcome) {
    let wd = workdir();
    let dir = wd.path();
    for (k, names) in [["chrC", "chrA", "chrB"], ["chr2", "chr10", "chr1"]].iter().enumerate() {
        let mut text = String::new();
        for (ci, n) in names.iter().enumerate() {
            for i in 0..40u32 {
                if c.bed {
                    text.push_str(&format!("{}\t{}\t{}\tn{}_{}\n", n, 3 * i + ci as u32, 3 * i + ci as u32 + 2, ci, i));
                } else {
                    text.push_str(&format!("{}\t{}\t{}\t{}\n", n, 3 * i + ci as u32, 3 * i + ci as u32 + 2, (i % 5) as f32 + 0.5));
                }
            }
        }
        std::fs::write(dir.join("in.txt"), &text).unwrap();
        std::fs::write(dir.join("sizes"), names.iter().map(|n| format!("{}\t1000\n", n)).collect::<String>()).unwrap();
        let mut want: Vec<&str> = text.lines().collect();
        want.sort();
        for (threads, parallel) in [(1usize, "no"), (4, "no"), (4, "yes")] {
            for single_pass in [false, true] {
                let tool = if c.bed { "bedtobigbed" } else { "bedgraphtobigwig" };
                let mut argv = vec![s(tool), s("in.txt"), s("sizes"), s("out.bb"), s("-s"), s("start"), s("-t"), threads.to_string(), s("-p"), s(parallel)];
                if single_pass {
                    argv.push(s("--single-pass"));
                }
                let tags = vec![if c.bed { s("bed") } else { s("bedgraph") }, s("sorted_start"), format!("parallel_{}", parallel)];
                let _ = std::fs::remove_file(dir.join("out.bb"));
                let r = run_in(dir, &argv);
                out.count("process_runs", 1);
                out.count("conversions_with_sorted_start", 1);
                if r.timed_out || r.code != Some(0) {
                    out.fail("conversion_failed", &tags, format!("{:?} (chromosome order {}): exit {:?} stderr {}", argv, k, r.code, r.stderr.chars().take(300).collect::<String>()));
                    continue;
                }
                let back = if c.bed { "bigbedtobed" } else { "bigwigtobedgraph" };
                let r = run_in(dir, &[s(back), s("out.bb"), s("back.txt")]);
                out.count("process_runs", 1);
                let got_text = std::fs::read_to_string(dir.join("back.txt")).unwrap_or_default();
                let mut got: Vec<&str> = got_text.lines().collect();
                got.sort();
                if r.code != Some(0) || got != want {
                    out.fail("roundtrip_records_differ", &tags, format!("{:?} (chromosome order {}): {} records come back for {}", argv, k, got.len(), want.len()));
                }
            }
        }
    }
}

/// The BED text arrives through a pipe that is named like a file (`<(cat in.bed)`, a FIFO): it
/// can be read once, from the start, and nothing that was read from it comes back.  With a supplied
/// autoSql and `--single-pass` the converter has no reason to look at the input twice; lines of a
/// fixed 64 bytes make every 8 KiB read-ahead end on a line boundary.
fn c16_pipe_input(c: &C16Case, out: &mut Outcome) {
    let wd = workdir();
    let dir = wd.path();
    let n = 4000u32;
    let mut text = String::new();
    for i in 0..n {
        let line = format!("chr{}\t{}\t{}\tname{:06}\t{}\t+", 1 + i / 2000, 10 * (i % 2000), 10 * (i % 2000) + 7, i, i % 1000);
        text.push_str(&format!("{:<63}\n", line));
    }
    // pad with blanks inside the last column so that every line has 64 bytes
    let text: String = text.lines().map(|l| format!("{}\n", l.trim_end())).map(|l| { let pad = 64usize.saturating_sub(l.len()); format!("{}{}\n", l.trim_end_matches('\n'), "x".repeat(pad)) }).collect();
    std::fs::write(dir.join("in.bed"), &text).unwrap();
    std::fs::write(dir.join("sizes"), "chr1\t30000\nchr2\t30000\n").unwrap();
    std::fs::write(dir.join("x.as"), "table six\n\"six columns\"\n(\nstring chrom; \"c\"\nuint chromStart; \"s\"\nuint chromEnd; \"e\"\nstring name; \"n\"\nuint score; \"sc\"\nchar[1] strand; \"st\"\n)\n").unwrap();
    let tool = if c.ucsc { "bedToBigBed" } else { "bedtobigbed" };
    let tags = vec![s("bed"), s("input_through_a_named_pipe")];
    let script = format!("exec ./{} -a x.as --single-pass <(cat in.bed) sizes out.bb -t {}", tool, c.threads);
    let r = std::process::Command::new("/bin/bash").arg("-c").arg(&script).current_dir(dir).stdin(Stdio::null()).stdout(Stdio::null()).stderr(Stdio::piped()).output();
    out.count("process_runs", 1);
    out.count("conversions_from_a_named_pipe", 1);
    let (code, stderr) = match r {
        Ok(o) => (o.status.code(), String::from_utf8_lossy(&o.stderr).to_string()),
        Err(e) => {
            out.fail("harness_panic", &[], format!("bash: {}", e));
            return;
        }
    };
    if code != Some(0) {
        // refusing a pipe loudly is not a round-trip violation
        out.count("conversions_from_a_named_pipe_refused", 1);
        let _ = stderr;
        return;
    }
    let r = run_in(dir, &[s("bigbedtobed"), s("out.bb"), s("back.bed")]);
    out.count("process_runs", 1);
    let back = std::fs::read_to_string(dir.join("back.bed")).unwrap_or_default();
    if r.code != Some(0) || back != text {
        out.fail("roundtrip_records_differ", &tags, format!("{:?}: exit 0, then {} lines come back for {} lines of input (first line back {:?})", script, back.lines().count(), text.lines().count(), back.lines().next()));
    }
}

impl Check for C16 {
    type Case = C16Case;
    fn id(&self) -> &'static str {
        "C16"
    }
    fn cases(&self, tier: Tier) -> Box<dyn Iterator<Item = C16Case> + '_> {
        Box::new(c16_all(tier == Tier::Quick).into_iter())
    }
    fn run(&self, c: &C16Case, out: &mut Outcome) {
        out.nontrivial = true;
        if c.input == 99 {
            c16_over_200mb(c, out);
            return;
        }
        if c.input == 98 {
            c16_low_fd(c, out);
            return;
        }
        if c.input == 97 {
            c16_pipe_input(c, out);
            return;
        }
        if c.input == 96 {
            c16_sorted_start(c, out);
            return;
        }
        let wd = workdir();
        let dir = wd.path();
        let (text, sizes) = if c.bed { bed_inputs()[c.input].clone() } else { bedgraph_inputs()[c.input].clone() };
        std::fs::write(dir.join("in.txt"), &text).unwrap();
        std::fs::write(dir.join("sizes"), &sizes).unwrap();
        let stdin_name = ["-", "stdin", "/dev/stdin"][(c.input + c.threads + c.block_size as usize) % 3];
        let tags = vec![
            if c.bed { s("bed") } else { s("bedgraph") },
            if c.stdin { s("from_stdin") } else { s("from_file") },
            format!("parallel_{}", c.parallel),
            if c.ucsc { s("ucsc_flags") } else { s("native_flags") },
            if c.multicall { s("multicall") } else { s("applet") },
        ];
        // forward conversion
        let tool = if c.bed { if c.ucsc { "bedToBigBed" } else { "bedtobigbed" } } else if c.ucsc { "bedGraphToBigWig" } else { "bedgraphtobigwig" };
        let mut argv: Vec<String> = if c.multicall { vec![s("bigtools"), s(tool)] } else { vec![s(tool)] };
        argv.extend([s(if c.stdin { stdin_name } else { "in.txt" }), s("sizes"), s("out.bb")]);
        argv.extend([s("-t"), c.threads.to_string(), s("-p"), c.parallel.clone()]);
        if c.single_pass {
            argv.push(s("--single-pass"));
        }
        if c.inmemory {
            argv.push(s("--inmemory"));
        }
        if c.uncompressed {
            argv.push(if c.ucsc { s("-unc") } else { s("--uncompressed") });
        }
        let ips = if !c.bed && c.input == 5 { 70_000 } else { 3 };
        if c.ucsc {
            argv.push(format!("-blockSize={}", c.block_size));
            argv.push(format!("-itemsPerSlot={}", ips));
        } else {
            argv.extend([s("--block-size"), c.block_size.to_string(), s("--items-per-slot"), ips.to_string()]);
        }
        if c.zooms {
            argv.extend([s("--zooms"), s("10,40")]);
        } else if c.threads == 1 {
            argv.extend([s("--nzooms"), s("2")]);
            out.count("conversions_with_nzooms", 1);
        }
        // half of the configurations write over existing, longer files (a stale tail left behind an
        // output that is not truncated shows as trailing garbage / extra lines)
        let over_existing = (c.threads + c.input + c.block_size as usize) % 2 == 0;
        let stale_text: String = "stale\t1\t2\tleft over from an earlier run\n".repeat(4000);
        if over_existing {
            std::fs::write(dir.join("out.bb"), vec![0xABu8; 300_000]).unwrap();
            out.count("outputs_written_over_existing_longer_files", 1);
        }
        let r = run_in_stdin(dir, &argv, if c.stdin { Some("in.txt") } else { None });
        out.count("process_runs", 1);
        if c.stdin {
            out.count("conversions_from_stdin", 1);
        }
        if r.stderr.starts_with("HARNESS") {
            out.fail("harness_panic", &[], r.stderr);
            return;
        }
        if r.timed_out || r.code != Some(0) || !dir.join("out.bb").exists() || std::fs::metadata(dir.join("out.bb")).map(|m| m.len()).unwrap_or(0) == 0 {
            out.fail("conversion_failed", &tags, format!("{:?}: exit {:?} timed_out {} stderr {}", argv, r.code, r.timed_out, r.stderr.chars().take(300).collect::<String>()));
            return;
        }
        // the written file honours the options (independent decoder)
        let bytes = std::fs::read(dir.join("out.bb")).unwrap();
        match indep::decode(&bytes) {
            Err(e) => out.fail("output_undecodable", &tags, e),
            Ok(d) => {
                // whether an option reached the file is not part of the round-trip property: counted only
                if d.main.block_size == c.block_size && (d.uncompress_buf == 0) == c.uncompressed {
                    out.count("files_honouring_block_size_and_compression", 1);
                }
                if d.main.items_per_slot == ips {
                    out.count("files_honouring_items_per_slot", 1);
                }
                for p in d.problems.iter().take(2) {
                    out.fail(&format!("malformed:{}", crate::wfam::slug(p)), &tags, p.clone());
                }
            }
        }
        // back conversion with several thread counts; all must give the original records
        let back_tool = if c.bed { if c.ucsc { "bigBedToBed" } else { "bigbedtobed" } } else if c.ucsc { "bigWigToBedGraph" } else { "bigwigtobedgraph" };
        let mut first_text: Option<String> = None;
        for (bt, inmem) in [(1usize, false), (2, true), (6, false), (16, true), (0, false)] {
            let mut a: Vec<String> = if c.multicall { vec![s("bigtools"), s(back_tool)] } else { vec![s(back_tool)] };
            a.extend([s("out.bb"), format!("back{}.txt", bt), s("-t"), bt.to_string()]);
            if inmem {
                a.push(s("--inmemory"));
            }
            if over_existing {
                std::fs::write(dir.join(format!("back{}.txt", bt)), &stale_text).unwrap();
            }
            let r = run_in(dir, &a);
            out.count("process_runs", 1);
            if r.timed_out || r.code != Some(0) {
                out.fail("back_conversion_failed", &tags, format!("{:?}: exit {:?} timed_out {} stderr {}", a, r.code, r.timed_out, r.stderr.chars().take(300).collect::<String>()));
                continue;
            }
            let back = std::fs::read_to_string(dir.join(format!("back{}.txt", bt))).unwrap_or_default();
            if let Some(f) = &first_text {
                if *f != back {
                    out.fail("converter_text_depends_on_threads", &tags, format!("-t {} output differs from -t 1 output", bt));
                }
            } else {
                first_text = Some(back.clone());
            }
            if c.bed {
                let want: Vec<&str> = text.lines().collect();
                let got: Vec<&str> = back.lines().collect();
                if want != got {
                    out.fail("roundtrip_records_differ", &tags, format!("-t {}: got {:?}, expected {:?}", bt, got.iter().take(12).collect::<Vec<_>>(), want.iter().take(12).collect::<Vec<_>>()));
                }
            } else {
                match (parse_bg(&text), parse_bg(&back)) {
                    (Ok(w), Ok(g)) => {
                        if w != g {
                            out.fail("roundtrip_records_differ", &tags, format!("-t {}: got {} records {:?}, expected {} records", bt, g.len(), g.iter().take(6).collect::<Vec<_>>(), w.len()));
                        }
                    }
                    (_, Err(e)) => out.fail("roundtrip_records_differ", &tags, format!("-t {}: unparsable output: {}", bt, e)),
                    (Err(e), _) => out.fail("harness_panic", &[], e),
                }
            }
        }
        // restricted output = the library's range answer on the same file
        let chroms: Vec<(String, u32)> = sizes.lines().map(|l| {
            let mut f = l.split('\t');
            (f.next().unwrap().to_string(), f.next().unwrap().parse().unwrap())
        }).collect();
        let present: Vec<&(String, u32)> = chroms.iter().filter(|(n, _)| text.lines().any(|l| l.split('\t').next() == Some(n.as_str()))).collect();
        let regions: Vec<(String, Option<u32>, Option<u32>)> = {
            let (c0, l0) = present[0].clone();
            let (c1, _) = present[present.len() - 1].clone();
            let mid = present[1.min(present.len() - 1)].clone();
            vec![(mid.0.clone(), Some(l0), None), (mid.0.clone(), None, None), (c0.clone(), None, None), (c0.clone(), Some(2), Some(11)), (c0.clone(), Some(5), None), (c0.clone(), None, Some(6)), (c0.clone(), Some(l0 - 1), Some(l0)), (c1.clone(), Some(0), Some(1)), (c1, Some(3), Some(3))]
        };
        for (ri, (chrom, st, en)) in regions.iter().enumerate() {
            let mut a: Vec<String> = if c.multicall { vec![s("bigtools"), s(back_tool)] } else { vec![s(back_tool)] };
            a.extend([s("out.bb"), format!("r{}.txt", ri)]);
            if c.ucsc {
                a.push(format!("-chrom={}", chrom));
                if let Some(x) = st {
                    a.push(format!("-start={}", x));
                }
                if let Some(x) = en {
                    a.push(format!("-end={}", x));
                }
            } else {
                a.extend([s("--chrom"), chrom.clone()]);
                if let Some(x) = st {
                    a.extend([s("--start"), x.to_string()]);
                }
                if let Some(x) = en {
                    a.extend([s("--end"), x.to_string()]);
                }
            }
            if over_existing {
                std::fs::write(dir.join(format!("r{}.txt", ri)), &stale_text).unwrap();
            }
            let r = run_in(dir, &a);
            out.count("process_runs", 1);
            out.count("restricted_queries", 1);
            if r.timed_out || r.code != Some(0) {
                out.fail("restricted_conversion_failed", &tags, format!("{:?}: exit {:?} stderr {}", a, r.code, r.stderr.chars().take(200).collect::<String>()));
                continue;
            }
            let got = std::fs::read_to_string(dir.join(format!("r{}.txt", ri))).unwrap_or_default();
            let clen = chroms.iter().find(|x| x.0 == *chrom).unwrap().1;
            let (qs, qe) = (st.unwrap_or(0), en.unwrap_or(clen));
            let lib: Result<Vec<String>, String> = guarded(|| {
                if c.bed {
                    let mut rd = BigBedRead::open(std::io::Cursor::new(bytes.clone())).map_err(|e| format!("{}", e))?;
                    let mut v = vec![];
                    for e in rd.get_interval(chrom, qs, qe).map_err(|e| format!("{}", e))? {
                        let e = e.map_err(|e| format!("{}", e))?;
                        v.push(if e.rest.is_empty() { format!("{}\t{}\t{}", chrom, e.start, e.end) } else { format!("{}\t{}\t{}\t{}", chrom, e.start, e.end, e.rest) });
                    }
                    Ok(v)
                } else {
                    let mut rd = BigWigRead::open(std::io::Cursor::new(bytes.clone())).map_err(|e| format!("{}", e))?;
                    let mut v = vec![];
                    for e in rd.get_interval(chrom, qs, qe).map_err(|e| format!("{}", e))? {
                        let e = e.map_err(|e| format!("{}", e))?;
                        v.push(format!("{}\t{}\t{}\t{}", chrom, e.start, e.end, e.value.to_bits()));
                    }
                    Ok(v)
                }
            }).unwrap_or_else(|p| Err(format!("panic: {}", p)));
            let lib = match lib {
                Ok(l) => l,
                Err(e) => {
                    out.fail("library_query_failed", &tags, e);
                    continue;
                }
            };
            let got_norm: Vec<String> = if c.bed {
                got.lines().map(|l| l.to_string()).collect()
            } else {
                match parse_bg(&got) {
                    Ok(v) => v.into_iter().map(|(c, a, b, v)| format!("{}\t{}\t{}\t{}", c, a, b, v)).collect(),
                    Err(e) => {
                        out.fail("restricted_output_differs_from_range_query", &tags, e);
                        continue;
                    }
                }
            };
            if got_norm != lib {
                out.fail("restricted_output_differs_from_range_query", &tags, format!("{:?}: tool printed {:?}, library range query gives {:?}", a, got_norm, lib));
            }
            // and the must-include set from the input text (quadratic: small inputs only; the large
            // input is judged by the comparison with the library's range query above)
            for l in text.lines().take(if text.len() > 200_000 { 0 } else { usize::MAX }) {
                let f: Vec<&str> = l.split('\t').collect();
                let (cs, ce): (u32, u32) = (f[1].parse().unwrap(), f[2].parse().unwrap());
                if f[0] == chrom && cs < qe && ce > qs && qs < qe {
                    let found = if c.bed { got_norm.iter().any(|g| g == l) } else { got_norm.iter().any(|g| {
                        let gf: Vec<&str> = g.split('\t').collect();
                        gf[1].parse::<u32>().unwrap() == cs.max(qs) && gf[2].parse::<u32>().unwrap() == ce.min(qe)
                    }) };
                    if !found {
                        out.fail("restricted_output_misses_overlapping_record", &tags, format!("{:?}: record {:?} overlaps [{},{}) but is not in {:?}", a, l, qs, qe, got_norm));
                    }
                }
            }
        }
        // --overlap-bed / -bed=: one range query per line of a regions file, in the file's order
        {
            let (c0, l0) = present[0].clone();
            let (c1, _) = present[present.len() - 1].clone();
            let mid = present[1.min(present.len() - 1)].clone();
            let regs: Vec<(String, u32, u32, &str)> = vec![(c0.clone(), 2, 11, "\tfirst"), (mid.0.clone(), 0, mid.1, ""), (c0.clone(), 5, l0, "\tx\t7"), (c1.clone(), 0, 1, ""), (c0.clone(), 2, 11, "")];
            let mut rb = String::new();
            for (ch, a, b, extra) in &regs {
                rb.push_str(&format!("{}\t{}\t{}{}\n", ch, a, b, extra));
            }
            std::fs::write(dir.join("regions.bed"), &rb).unwrap();
            let mut a: Vec<String> = if c.multicall { vec![s("bigtools"), s(back_tool)] } else { vec![s(back_tool)] };
            a.extend([s("out.bb"), s("ob.txt")]);
            if c.ucsc {
                a.push(s("-bed=regions.bed"));
            } else {
                a.extend([s("--overlap-bed"), s("regions.bed")]);
            }
            if over_existing {
                std::fs::write(dir.join("ob.txt"), &stale_text).unwrap();
            }
            let r = run_in(dir, &a);
            out.count("process_runs", 1);
            out.count("overlap_bed_runs", 1);
            if r.timed_out || r.code != Some(0) {
                out.fail("restricted_conversion_failed", &tags, format!("{:?}: exit {:?} stderr {}", a, r.code, r.stderr.chars().take(200).collect::<String>()));
            } else {
                let got = std::fs::read_to_string(dir.join("ob.txt")).unwrap_or_default();
                let lib: Result<Vec<String>, String> = guarded(|| {
                    let mut v = vec![];
                    for (chrom, qs, qe, _) in &regs {
                        if c.bed {
                            let mut rd = BigBedRead::open(std::io::Cursor::new(bytes.clone())).map_err(|e| format!("{}", e))?;
                            for e in rd.get_interval(chrom, *qs, *qe).map_err(|e| format!("{}", e))? {
                                let e = e.map_err(|e| format!("{}", e))?;
                                // the tool clips entries to the region
                                let (es, ee) = (e.start.max(*qs), e.end.min(*qe));
                                v.push(if e.rest.is_empty() { format!("{}\t{}\t{}", chrom, es, ee) } else { format!("{}\t{}\t{}\t{}", chrom, es, ee, e.rest) });
                            }
                        } else {
                            let mut rd = BigWigRead::open(std::io::Cursor::new(bytes.clone())).map_err(|e| format!("{}", e))?;
                            for e in rd.get_interval(chrom, *qs, *qe).map_err(|e| format!("{}", e))? {
                                let e = e.map_err(|e| format!("{}", e))?;
                                v.push(format!("{}\t{}\t{}\t{}", chrom, e.start, e.end, e.value.to_bits()));
                            }
                        }
                    }
                    Ok(v)
                })
                .unwrap_or_else(|p| Err(format!("panic: {}", p)));
                let got_norm: Result<Vec<String>, String> = if c.bed {
                    Ok(got.lines().map(|l| l.to_string()).collect())
                } else {
                    parse_bg(&got).map(|v| v.into_iter().map(|(c, a, b, v)| format!("{}\t{}\t{}\t{}", c, a, b, v)).collect())
                };
                match (lib, got_norm) {
                    (Err(e), _) => out.fail("library_query_failed", &tags, e),
                    (_, Err(e)) => out.fail("restricted_output_differs_from_range_query", &tags, e),
                    (Ok(lib), Ok(g)) => {
                        if g != lib {
                            out.fail("restricted_output_differs_from_range_query", &tags, format!("{:?} with regions {:?}: tool printed {:?}, the library's range queries give {:?}", a, regs, g, lib));
                        }
                        // every input record strictly overlapping a region appears (clipped) for that region
                        for (chrom, qs, qe, _) in &regs {
                            for l in text.lines().take(if text.len() > 200_000 { 0 } else { usize::MAX }) {
                                let f: Vec<&str> = l.split('\t').collect();
                                let (cs, ce): (u32, u32) = (f[1].parse().unwrap(), f[2].parse().unwrap());
                                if f[0] == chrom && cs < *qe && ce > *qs {
                                    let found = g.iter().any(|x| {
                                        let gf: Vec<&str> = x.split('\t').collect();
                                        gf[0] == chrom && gf[1].parse::<u32>().unwrap() == cs.max(*qs) && gf[2].parse::<u32>().unwrap() == ce.min(*qe)
                                    });
                                    if !found {
                                        out.fail("restricted_output_misses_overlapping_record", &tags, format!("{:?}: record {:?} overlaps region {} [{},{}) but is not in the output", a, l, chrom, qs, qe));
                                    }
                                }
                            }
                        }
                    }
                }
            }
        }
    }
    fn space(&self, tier: Tier) -> serde_json::Value {
        json!({
            "inputs": "4 bedGraph + 4 BED texts (extra columns, lexicographic-not-numeric chromosome names, single-line chromosomes, no final newline, duplicates, overlaps)",
            "product": "threads {1,2,3,6,16} x parallel {auto,yes,no} x single-pass x inmemory x uncompressed x block-size {2,256} x zooms x {applet, bigtools <sub>} x {native flags, UCSC spellings and names} x {file, standard input named - / stdin / /dev/stdin (threads 1 and 6, parallel auto)}",
            "subsample": if tier == Tier::Quick { "systematic 1-in-19 of the mixed-radix product" } else { "full product" },
            "configurations": c16_all(tier == Tier::Quick).len(),
            "back_conversion": "-t 1, 2, 6, 16 (+ --inmemory), 9 restricted (chrom,start,end) variants and one --overlap-bed / -bed= run (5 regions) per file",
        })
    }
    fn case_cap_s(&self) -> u64 {
        300
    }
}

// =============================================================================================
// C15 tool part

#[derive(Clone, Debug, Serialize, Deserialize)]
pub struct MergeTool {
    pub inputs: Vec<usize>,
    pub clip: Option<f32>,
    pub adjust: Option<f32>,
    pub threshold: Option<f32>,
    /// output name and optional --output-type
    pub output: String,
    pub output_type: Option<String>,
    pub ucsc: bool,
    /// how the inputs are named: 0 `-b f` each, 1 `-l list`, 2 kent style positional
    /// (`bigWigMerge in.. out`), 3 kent style `-inList list out`
    #[serde(default)]
    pub input_style: u8,
    /// when > 0: this many generated inputs instead of `inputs` (more than the tool keeps open
    /// at once, so that it merges in chunks); all but the last six hold -1 on chrX [10,20), the
    /// last six +200, so every partial sum of a chunk is negative while the total is positive
    #[serde(default)]
    pub many: usize,
}

const MLEN: u32 = 120_000;

fn merge_inputs() -> Vec<Vec<(String, Vec<(u32, u32, f32)>)>> {
    vec![
        vec![(s("chrX"), vec![(0, 3, 1.0), (49998, 50003, 2.0), (100000, 100001, 0.5)]), (s("chrY"), vec![(5, 10, 1.0)])],
        vec![(s("chrX"), vec![(0, 2, 1.0), (2, 4, -1.0), (50000, 50010, 0.0)]), (s("chrZ"), vec![(0, 4, 2.5)])],
        vec![(s("chrX"), vec![(1, 50001, 0.25)])],
        // values that are not sums of powers of two: `sum + adjust > threshold` and
        // `sum > threshold - adjust` then round differently
        vec![(s("chrX"), vec![(0, 10, 0.1), (20, 30, 0.3), (49995, 50005, 0.7)]), (s("chrY"), vec![(5, 10, 0.2)])],
    ]
}

pub fn merge_tool_cases(quick: bool) -> Vec<MergeTool> {
    let mut v = vec![];
    let outs: Vec<(&str, Option<&str>)> = vec![("out.bw", None), ("out.bigWig", None), ("out.bedGraph", None), ("out.dat", Some("bigwig")), ("out.dat", Some("BedGraph")), ("OUT.BW", None), ("out.bw", Some("bedgraph")), ("out.bedGraph", Some("bigwig")), (".bw", None), ("sub/.bedGraph", None), (".bigWig", None), ("out.v2.bw", None), ("out.bw.bedGraph", None)];
    let mut n = 0;
    // inputs given partly by -b and partly by a list
    for inputs in [vec![0usize, 1], vec![0, 1, 2], vec![1, 2]] {
        for input_style in [5u8, 6] {
            for o in ["out.bw", "out.bedGraph"] {
                v.push(MergeTool { inputs: inputs.clone(), clip: None, adjust: None, threshold: None, output: s(o), output_type: None, ucsc: false, input_style, many: 0 });
            }
        }
    }
    for inputs in [vec![0usize], vec![0, 1], vec![0, 1, 2], vec![1, 2]] {
        for clip in [None, Some(1.5f32)] {
            for adjust in [None, Some(-1.0f32), Some(0.5)] {
                for threshold in [None, Some(0.5f32), Some(-10.0)] {
                    for (o, ot) in &outs {
                        n += 1;
                        if quick && n % 5 != 0 {
                            continue;
                        }
                        // kent style calls (styles 2, 3) have no flags with separate values
                        let style = ((v.len() + v.len() / 8) % 4) as u8;
                        let (ucsc, input_style) = if style >= 2 && ot.is_none() { (true, style) } else { (n % 2 == 0, style % 2) };
                        v.push(MergeTool { inputs: inputs.clone(), clip, adjust, threshold, output: s(o), output_type: ot.map(s), ucsc, input_style, many: 0 });
                    }
                }
            }
        }
    }
    // sums, adjustments and thresholds that are not exact in single precision (file 3 twice / three
    // times: sums 0.2, 0.6, 1.4, 0.4 / 0.3, 0.9, 2.1, 0.6), through the attached -b<file> spelling too
    for (k, inputs) in [vec![3usize, 3], vec![3, 3, 3], vec![0, 3]].into_iter().enumerate() {
        for (adjust, threshold) in [(0.8f32, 1.0f32), (0.7, 0.9), (0.1, 0.3), (-0.1, 0.1), (0.4, 1.0), (0.1, 0.7)] {
            for (o, input_style) in [("out.bedGraph", 0u8), ("out.bw", 4)] {
                v.push(MergeTool { inputs: inputs.clone(), clip: if k == 1 { Some(1.9) } else { None }, adjust: Some(adjust), threshold: Some(threshold), output: s(o), output_type: None, ucsc: false, input_style, many: 0 });
            }
        }
    }
    // one input with 70 010 runs merged with itself, sections of up to 70 000 items asked for
    v.push(MergeTool { inputs: vec![], clip: None, adjust: None, threshold: None, output: s("out.bw"), output_type: None, ucsc: false, input_style: 0, many: 70_010 });
    // 700 inputs with inexact sums, default threads against -t 1 and -t 16
    for o in ["out.bedGraph", "out.bw"] {
        v.push(MergeTool { inputs: vec![], clip: None, adjust: None, threshold: None, output: s(o), output_type: None, ucsc: false, input_style: 1, many: 700 });
    }
    // more inputs than the tool keeps open at once (976): merged in chunks
    for (k, (adjust, threshold, o)) in [(None, None, "out.bedGraph"), (Some(0.5f32), Some(-10.0f32), "out.bw"), (Some(-1.0), None, "out.bw"), (None, Some(0.5), "out.bedGraph")].into_iter().enumerate() {
        if quick && k >= 2 {
            continue;
        }
        v.push(MergeTool { inputs: vec![], clip: Some(1000.0), adjust, threshold, output: s(o), output_type: None, ucsc: false, input_style: 1, many: 982 });
    }
    v
}

/// `bigwigmerge --items-per-slot 70000` on a chromosome with 70 010 runs: the bigWig must hold what
/// the bedGraph output of the same merge holds (a section count kept in 16 bits would not).
fn c15_big_slots(out: &mut Outcome) {
    let wd = workdir();
    let dir = wd.path();
    let spec = EncSpec {
        bed: false,
        le: true,
        compress: true,
        version: 4,
        chroms: vec![EncChrom { name: s("chr1"), size: 400_000, wig: (0..71u32).map(|k| WigSec::T1((0..if k == 70 { 10u32 } else { 1000 }).map(|i| (4 * (1000 * k + i), 4 * (1000 * k + i) + 2, ((i + k) % 7) as f32 + 0.5)).collect())).collect(), bed: vec![] }],
        chrom_block: 64,
        chrom_level_order: false,
        chrom_ids_in_given_order: false,
        chrom_ids_reverse_of_keys: false,
        fanout: 64,
        placement: Placement::LevelOrder,
        zooms: vec![],
        zoom_ips: 4,
        zoom_blocks_span_chroms: false,
        trailing_magic: true,
        index_last: false,
        no_summary: false,
        autosql: None,
    };
    std::fs::write(dir.join("a.bw"), encode(&spec).bytes).unwrap();
    let tags = vec![s("items_per_slot_70000")];
    let mut counts = vec![];
    for o in ["out.bedGraph", "out.bw"] {
        let argv = vec![s("bigwigmerge"), s("-b"), s("a.bw"), s("-b"), s("a.bw"), s(o), s("--items-per-slot"), s("70000")];
        let r = run_in(dir, &argv);
        out.count("tool_merge_runs", 1);
        out.count("tool_merge_runs_with_items_per_slot_70000", 1);
        if r.timed_out || r.code != Some(0) {
            out.fail("merge_tool_produced_no_output", &tags, format!("{:?}: exit {:?} stderr {}", argv, r.code, r.stderr.chars().take(300).collect::<String>()));
            return;
        }
        if o.ends_with(".bw") {
            match indep::decode(&std::fs::read(dir.join(o)).unwrap_or_default()) {
                Err(e) => {
                    out.fail("merge_tool_output_malformed", &tags, format!("{:?}: {}", argv, e));
                    return;
                }
                Ok(d) => {
                    for p in d.problems.iter().take(2) {
                        out.fail("merge_tool_output_malformed", &tags, format!("{:?}: {}", argv, p));
                    }
                    // what the library's reader serves
                    let served = guarded(|| BigWigRead::open_file(dir.join(o).to_str().unwrap()).ok().and_then(|mut r| r.get_interval("chr1", 0, 400_000).ok().map(|it| it.filter(|x| x.is_ok()).count()))).ok().flatten().unwrap_or(0);
                    counts.push(served);
                }
            }
        } else {
            counts.push(std::fs::read_to_string(dir.join(o)).unwrap_or_default().lines().count());
        }
    }
    if counts.len() == 2 && (counts[0] != counts[1] || counts[0] != 70_010) {
        out.fail("merge_differs_from_per_base_sum", &tags, format!("bigwigmerge --items-per-slot 70000: {} runs in the bedGraph output, {} served from the bigWig output, the input has 70010", counts[0], counts[1]));
    }
}

pub fn c15_tool(t: &MergeTool, out: &mut Outcome) {
    if t.many == 70_010 {
        return c15_big_slots(out);
    }
    let wd = workdir();
    let dir = wd.path();
    if let Some(parent) = std::path::Path::new(&t.output).parent() {
        let _ = std::fs::create_dir_all(dir.join(parent));
    }
    let all = merge_inputs();
    let contents: Vec<Vec<(String, Vec<(u32, u32, f32)>)>> = if t.many > 0 {
        (0..t.many)
            .map(|k| {
                if t.many == 700 {
                    // ten bases, each with its own inexact value per input: ten different sums
                    vec![(s("chrX"), (0..10u32).map(|j| (10 + j, 11 + j, 0.1 * (((k as u32 * 7 + j * 13) % 23) as f32 + 1.0) + 1e-4 * (k % 11) as f32)).collect())]
                } else {
                    vec![(s("chrX"), vec![(10, 20, if k + 6 < t.many { -1.0 } else { 200.0 }), (30 + (k % 3) as u32, 40, 1.0)])]
                }
            })
            .collect()
    } else {
        t.inputs.iter().map(|i| all[*i].clone()).collect()
    };
    if t.many > 0 {
        out.count("tool_merge_runs_with_more_inputs_than_open_files", 1);
    }
    let mut argv = vec![if t.ucsc { s("bigWigMerge") } else { s("bigwigmerge") }];
    for (k, content) in contents.iter().enumerate() {
        let spec = EncSpec {
            bed: false,
            le: true,
            compress: k % 2 == 0,
            version: 4,
            chroms: content.iter().map(|(n, items)| EncChrom { name: n.clone(), size: MLEN, wig: vec![WigSec::T1(items.clone())], bed: vec![] }).collect(),
            chrom_block: 64,
            chrom_level_order: false,
            // every other input lists its chromosomes in another order than byte order (as files
            // written from input sorted by start only do)
            chrom_ids_in_given_order: k % 2 == 1,
            chrom_ids_reverse_of_keys: false,
            fanout: 4,
            placement: Placement::LevelOrder,
            zooms: vec![],
            zoom_ips: 4,
            zoom_blocks_span_chroms: false,
            trailing_magic: true,
            index_last: false,
            no_summary: false,
            autosql: None,
        };
        std::fs::write(dir.join(format!("in{}.bw", k)), encode(&spec).bytes).unwrap();
        match t.input_style {
            0 => argv.extend([s("-b"), format!("in{}.bw", k)]),
            // styles 5, 6: inputs named by -b and by a list in one call (5: the first by -b, in
            // front of the list; 6: the last by -b, behind the list)
            5 if k == 0 => argv.extend([s("-b"), format!("in{}.bw", k)]),
            6 if k + 1 == contents.len() => {}
            // the attached spelling of the same option
            4 => argv.push(format!("-bin{}.bw", k)),
            2 => argv.push(format!("in{}.bw", k)),
            _ => {}
        }
    }
    if t.input_style == 5 || t.input_style == 6 {
        let n = contents.len();
        let listed: Vec<usize> = if t.input_style == 5 { (1..n).collect() } else { (0..n - 1).collect() };
        let list: String = listed.iter().map(|k| format!("in{}.bw\n", k)).collect();
        std::fs::write(dir.join("inputs.txt"), list).unwrap();
        argv.extend([s("-l"), s("inputs.txt")]);
        if t.input_style == 6 {
            argv.extend([s("-b"), format!("in{}.bw", n - 1)]);
        }
    }
    if t.input_style == 1 || t.input_style == 3 {
        let list: String = (0..contents.len()).map(|k| format!("in{}.bw\n", k)).collect();
        std::fs::write(dir.join("inputs.txt"), list).unwrap();
        if t.input_style == 1 {
            argv.extend([s("-l"), s("inputs.txt")]);
        } else {
            argv.extend([s("-inList"), s("inputs.txt")]);
        }
    }
    let mut tags = vec![format!("output_{}", t.output.to_lowercase().replace('.', "_")), format!("input_style_{}", t.input_style)];
    // (style 4 gives the option values as separate words)
    if let Some(c) = t.clip {
        if t.input_style == 4 && c >= 0.0 {
            argv.extend([s("--clip"), c.to_string()]);
        } else {
            argv.push(if t.ucsc { format!("-clip={}", c) } else { format!("--clip={}", c) });
        }
    }
    if let Some(a) = t.adjust {
        if t.input_style == 4 && a >= 0.0 {
            argv.extend([s("--adjust"), a.to_string()]);
        } else {
            argv.push(if t.ucsc { format!("-adjust={}", a) } else { format!("--adjust={}", a) });
        }
    }
    if let Some(th) = t.threshold {
        if t.input_style == 4 && th >= 0.0 {
            argv.extend([s("--threshold"), th.to_string()]);
        } else {
            argv.push(if t.ucsc { format!("-threshold={}", th) } else { format!("--threshold={}", th) });
        }
    }
    if let Some(ot) = &t.output_type {
        argv.extend([s("--output-type"), ot.clone()]);
        tags.push(s("explicit_output_type"));
    }
    argv.push(t.output.clone());
    // every other run writes over an existing, longer file of the same name
    if (t.inputs.len() + t.input_style as usize + t.output.len()) % 2 == 0 {
        let bedgraph_out = match &t.output_type {
            Some(ot) => ot.to_lowercase() == "bedgraph",
            None => t.output.to_lowercase().ends_with("bedgraph"),
        };
        if bedgraph_out {
            std::fs::write(dir.join(&t.output), "chrStale\t0\t1\t9\n".repeat(20000)).unwrap();
        } else {
            std::fs::write(dir.join(&t.output), vec![0xABu8; 300_000]).unwrap();
        }
        out.count("tool_merge_runs_over_existing_longer_output", 1);
    }
    let r = run_in(dir, &argv);
    out.count("tool_merge_runs", 1);
    out.count(&format!("tool_merge_runs_input_style_{}", t.input_style), 1);
    if r.stderr.starts_with("HARNESS") {
        out.fail("harness_panic", &[], r.stderr);
        return;
    }
    let outp = dir.join(&t.output);
    // an empty bedGraph is legitimate when clip/adjust/threshold remove every value; the
    // per-base comparison below decides
    if r.timed_out || r.code != Some(0) || !outp.exists() {
        out.fail("merge_tool_produced_no_output", &tags, format!("{:?}: exit {:?} timed_out {} output exists {} stderr {}", argv, r.code, r.timed_out, outp.exists(), r.stderr.chars().take(300).collect::<String>()));
        return;
    }
    if t.many == 700 {
        // 700 inputs whose sums are not exact in single precision: how the tool groups its inputs
        // shows in the last bit, and must not depend on the thread count (the value oracle below
        // would prescribe one particular order of additions, which the statement does not)
        let first = std::fs::read(&outp).unwrap_or_default();
        for threads in [1usize, 16] {
            let mut argv2 = argv.clone();
            argv2.pop();
            argv2.extend([s("-t"), threads.to_string(), format!("t{}.{}", threads, t.output)]);
            let r2 = run_in(dir, &argv2);
            out.count("tool_merge_runs", 1);
            out.count("tool_merge_thread_comparisons", 1);
            let other = std::fs::read(dir.join(format!("t{}.{}", threads, t.output))).unwrap_or_default();
            if r2.code != Some(0) || other != first {
                out.fail("merge_output_depends_on_thread_count", &tags, format!("{:?}: exit {:?}, {} bytes against {} bytes of the default run{}", argv2, r2.code, other.len(), first.len(), if other.len() == first.len() { " (same length, different content)" } else { "" }));
            }
        }
        return;
    }
    // expected per-base values
    let mut chroms: std::collections::BTreeMap<String, Vec<(f64, bool)>> = std::collections::BTreeMap::new();
    for content in &contents {
        for (n, items) in content {
            let v = chroms.entry(n.clone()).or_insert_with(|| vec![(0.0, false); MLEN as usize]);
            for (a, b, x) in items {
                for p in *a..*b {
                    v[p as usize].0 += *x as f64;
                    v[p as usize].1 = true;
                }
            }
        }
    }
    let expect = |sum: f64, has: bool| -> Option<f32> {
        if !has || sum == 0.0 {
            return None;
        }
        let mut v = sum as f32;
        if let Some(c) = t.clip {
            v = c.min(v);
        }
        v += t.adjust.unwrap_or(0.0);
        if v > t.threshold.unwrap_or(0.0) {
            Some(v)
        } else {
            None
        }
    };
    // actual per-base values
    let is_bw = match &t.output_type {
        Some(ot) => ot.to_lowercase() == "bigwig",
        None => !t.output.to_lowercase().ends_with(".bedgraph"),
    };
    let mut got: std::collections::BTreeMap<String, Vec<Option<f32>>> = std::collections::BTreeMap::new();
    let mut put = |chrom: &str, a: u32, b: u32, v: f32, out: &mut Outcome| {
        let e = got.entry(chrom.to_string()).or_insert_with(|| vec![None; MLEN as usize]);
        if b > MLEN || a >= b {
            out.fail("merge_tool_output_malformed", &tags, format!("interval {} [{},{})", chrom, a, b));
            return;
        }
        for p in a..b {
            if e[p as usize].is_some() {
                out.fail("merge_tool_output_malformed", &tags, format!("base {} of {} written twice", p, chrom));
                return;
            }
            e[p as usize] = Some(v);
        }
    };
    if is_bw {
        let bytes = std::fs::read(&outp).unwrap();
        match indep::decode(&bytes) {
            Err(e) => {
                out.fail("merge_tool_output_malformed", &tags, format!("{:?}: {}", argv, e));
                return;
            }
            Ok(d) => {
                for sec in &d.wig_sections {
                    let name = d.chroms.iter().find(|c| c.1 == sec.chrom).map(|c| c.0.clone()).unwrap_or_default();
                    for (a, b, v) in &sec.items {
                        put(&name, *a, *b, *v, out);
                    }
                }
            }
        }
    } else {
        let text = std::fs::read_to_string(&outp).unwrap_or_default();
        match parse_bg(&text) {
            Err(e) => {
                out.fail("merge_tool_output_malformed", &tags, e);
                return;
            }
            Ok(v) => {
                for (c, a, b, x) in v {
                    put(&c, a, b, f32::from_bits(x), out);
                }
            }
        }
    }
    for (name, exp) in &chroms {
        let empty = vec![None; MLEN as usize];
        let g = got.get(name).unwrap_or(&empty);
        for p in 0..MLEN as usize {
            let want = expect(exp[p].0, exp[p].1);
            if want != g[p] {
                let mut tg = tags.clone();
                if p == 0 {
                    tg.push(s("base_0"));
                }
                out.fail("merge_tool_differs_from_per_base_sum", &tg, format!("{:?}: {} base {}: output {:?}, expected {:?} (sum {}, has data {})", argv, name, p, g[p], want, exp[p].0, exp[p].1));
                return;
            }
        }
    }
    for name in got.keys() {
        if !chroms.contains_key(name) {
            out.fail("merge_tool_differs_from_per_base_sum", &tags, format!("output has chromosome {} that no input has", name));
        }
    }
}

// =============================================================================================
// C17 tool part

#[derive(Clone, Debug, Serialize, Deserialize)]
pub struct AvgTool {
    pub file: usize,
    pub regions: usize,
    pub namecol: Option<String>,
    pub min_max: bool,
    pub final_newline: bool,
}

pub fn avg_files() -> Vec<Vec<(String, Vec<(u32, u32, f32)>)>> {
    vec![
        vec![(s("chr1"), vec![(0, 4, 1.0), (4, 8, 3.0), (16, 32, -2.0), (100, 101, 8.0)]), (s("chr2"), vec![(8, 16, 0.5)])],
        vec![(s("chr1"), vec![(2, 3, 4.0)]), (s("chr10"), vec![(0, 64, 0.25)]), (s("chr2"), vec![(0, 1, 1.0), (1, 2, 2.0), (2, 4, 3.0)])],
    ]
}

pub fn avg_regions(k: usize) -> Vec<(String, u32, u32, String)> {
    // regions whose sizes are powers of two so that every quotient is exact at 3 decimals
    match k {
        0 => vec![(s("chr1"), 0, 8, s("r0"))],
        // 41 rows laid out for 40 threads: rows of 65 and 64 bytes by turns, so that every probe
        // of the chunker (chunk size 64) lands on the last byte of a row, the 40 chunks are as
        // short as they can be, and the 16 bytes behind them hold one more row (a 41st chunk)
        9 => {
            let mut v = vec![];
            for i in 0..40u32 {
                v.push((s("chr1"), 0, if i % 2 == 0 { 16 } else { 8 }, format!("{:_<24}", format!("k{}", i))));
            }
            v.push((s("chr1"), 0, 8, s("")));
            v
        }
        // (with empty regions -- insertion points -- inside a value, on an edge and in a gap)
        1 => vec![(s("chr1"), 0, 8, s("a")), (s("chr1"), 2, 2, s("ins_in_value")), (s("chr1"), 4, 20, s("b")), (s("chr1"), 4, 4, s("ins_on_edge")), (s("chr2"), 0, 8, s("c")), (s("chr1"), 10, 10, s("ins_in_gap"))],
        // names with blanks inside and an empty name field: columns are separated by TAB only
        3 => vec![
            (s("chr1"), 0, 8, s("second region")),
            (s("chr1"), 4, 20, s("")),
            (s("chr2"), 0, 8, s("x y  z")),
            (s("chr1"), 8, 16, s("plain")),
        ],
        // no region at all (an empty file): an empty result, whatever the thread count
        6 => vec![],
        // rows that end in white space that is not ASCII (ideographic space, no-break space, next
        // line): the end of a row is trimmed the same way whatever the thread count
        8 => vec![(s("chr1"), 0, 8, s("peak1\u{3000}")), (s("chr1"), 4, 20, s("peak2\u{a0}")), (s("chr2"), 0, 8, s("peak3\u{85}")), (s("chr1"), 8, 16, s("plain")), (s("chr2"), 8, 16, s("peak5\u{3000}\u{3000}"))],
        // regions that reach far beyond the 200-base chromosomes, two of them ending on the largest
        // coordinate there is
        7 => vec![(s("chr1"), 0, 8, s("first")), (s("chr1"), 96, 4_294_967_295, s("to_max")), (s("chr2"), 0, 4_294_967_295, s("all_to_max")), (s("chr1"), 16, 4_294_967_294, s("almost_max")), (s("chr2"), 8, 16, s("plain"))],
        // 41 rows, one of them 40 KB long (its name): longer than every buffer used to find the
        // line ends at which the parallel path cuts the file
        5 => {
            let mut v = vec![];
            for n in 0..41u32 {
                let st = (n * 4) % 180;
                let name = if n == 20 { "N".repeat(40_000) } else { format!("q{}", n) };
                v.push((s(if n % 2 == 1 { "chr2" } else { "chr1" }), st, st + 8, name));
            }
            v
        }
        // 3 000 regions (chunks of the parallel path hold hundreds of rows each, so chunks are being
        // read while others are set up), some reaching beyond the 200-base chromosomes
        4 => {
            let mut v = vec![];
            for n in 0..3000u32 {
                let size = [1u32, 2, 4, 8, 16][(n % 5) as usize];
                let st = (n * 7) % 196;
                v.push((s(if n % 3 == 2 { "chr2" } else { "chr1" }), st, st + size, format!("m{}", n)));
            }
            v
        }
        _ => {
            let mut v = vec![];
            let mut n = 0;
            for st in [0u32, 2, 4, 8, 16, 30, 96, 100, 112] {
                for size in [1u32, 2, 4, 8, 16] {
                    for c in ["chr1", "chr2"] {
                        if n % 2 == 0 || c == "chr1" {
                            v.push((s(c), st, st + size, format!("n{}", n)));
                        }
                        n += 1;
                    }
                }
            }
            v
        }
    }
}

pub fn avg_tool_cases(quick: bool) -> Vec<AvgTool> {
    let mut v = vec![];
    v.push(AvgTool { file: 0, regions: 4, namecol: None, min_max: true, final_newline: true });
    v.push(AvgTool { file: 0, regions: 5, namecol: None, min_max: false, final_newline: true });
    v.push(AvgTool { file: 0, regions: 5, namecol: Some(s("interval")), min_max: true, final_newline: false });
    v.push(AvgTool { file: 0, regions: 4, namecol: Some(s("interval")), min_max: false, final_newline: false });
    v.push(AvgTool { file: 0, regions: 6, namecol: None, min_max: true, final_newline: false });
    for namecol in [None, Some("5"), Some("none")] {
        for final_newline in [true, false] {
            v.push(AvgTool { file: 0, regions: 8, namecol: namecol.map(s), min_max: false, final_newline });
        }
    }
    v.push(AvgTool { file: 0, regions: 9, namecol: None, min_max: false, final_newline: true });
    v.push(AvgTool { file: 0, regions: 7, namecol: None, min_max: true, final_newline: true });
    v.push(AvgTool { file: 0, regions: 7, namecol: Some(s("interval")), min_max: false, final_newline: false });
    for file in 0..2 {
        for regions in 0..4 {
            for namecol in [None, Some("5"), Some("interval"), Some("none")] {
                for min_max in [false, true] {
                    for final_newline in [true, false] {
                        if quick && !final_newline && regions != 2 {
                            continue;
                        }
                        v.push(AvgTool { file, regions, namecol: namecol.map(s), min_max, final_newline });
                    }
                }
            }
        }
    }
    v
}

pub fn c17_tool(t: &AvgTool, out: &mut Outcome) {
    let wd = workdir();
    let dir = wd.path();
    let content = &avg_files()[t.file];
    let spec = EncSpec {
        bed: false,
        le: true,
        compress: true,
        version: 4,
        chroms: content.iter().map(|(n, items)| EncChrom { name: n.clone(), size: 200, wig: items.chunks(2).map(|c| WigSec::T1(c.to_vec())).collect(), bed: vec![] }).collect(),
        chrom_block: 64,
        chrom_level_order: false,
            chrom_ids_in_given_order: false,
            chrom_ids_reverse_of_keys: false,
        fanout: 2,
        placement: Placement::LevelOrder,
        zooms: vec![],
        zoom_ips: 4,
        zoom_blocks_span_chroms: false,
        trailing_magic: true,
        index_last: false,
        no_summary: false,
        autosql: None,
    };
    std::fs::write(dir.join("in.bw"), encode(&spec).bytes).unwrap();
    let regs: Vec<(String, u32, u32, String)> = avg_regions(t.regions).into_iter().filter(|r| content.iter().any(|c| c.0 == r.0)).collect();
    let mut bed = String::new();
    for (c, a, b, n) in &regs {
        bed.push_str(&format!("{}\t{}\t{}\t{}\tcol5_{}\n", c, a, b, n, n));
    }
    if !t.final_newline {
        bed.pop();
    }
    std::fs::write(dir.join("regions.bed"), &bed).unwrap();
    let tags = vec![format!("namecol_{}", t.namecol.clone().unwrap_or_else(|| s("default")))];
    // reference rows
    let mut want_rows = vec![];
    for (c, a, b, n) in &regs {
        let items = &content.iter().find(|x| x.0 == *c).unwrap().1;
        let mut bases = 0u32;
        let mut sum = 0f64;
        let mut mn = f64::INFINITY;
        let mut mx = f64::NEG_INFINITY;
        // (the chromosomes have 200 bases: nothing is stored beyond)
        for p in *a..(*b).min(400) {
            if let Some(it) = items.iter().find(|i| i.0 <= p && p < i.1) {
                bases += 1;
                sum += it.2 as f64;
                mn = mn.min(it.2 as f64);
                mx = mx.max(it.2 as f64);
            }
        }
        let size = b - a;
        let name = match t.namecol.as_deref() {
            None => n.clone(),
            // (the end of a row is trimmed of white space before it is split)
            Some("5") => format!("col5_{}", n).trim_end().to_string(),
            Some("interval") => format!("{}:{}-{}", c, a, b),
            _ => format!("{}\t{}\t{}\t{}\tcol5_{}", c, a, b, n, n).trim_end().to_string(),
        };
        let (mean, mn, mx) = if bases == 0 { (f64::NAN, f64::NAN, f64::NAN) } else { (sum / bases as f64, mn, mx) };
        let row = if t.min_max {
            format!("{}\t{}\t{}\t{:.3}\t{:.3}\t{:.3}\t{:.3}\t{:.3}", name, size, bases, sum, sum / size as f64, mean, mn, mx)
        } else {
            format!("{}\t{}\t{}\t{:.3}\t{:.3}\t{:.3}", name, size, bases, sum, sum / size as f64, mean)
        };
        want_rows.push(row);
    }
    let mut first: Option<String> = None;
    let thread_counts: Vec<usize> = if t.regions == 9 { vec![1, 39, 40, 41, 20] } else { (1..=16).collect() };
    if t.regions == 9 {
        out.count("tool_average_runs_with_more_chunks_than_threads", 1);
        if bed.len() != 40 * 64 + 36 {
            out.fail("harness_panic", &[], format!("the 40-thread layout has {} bytes", bed.len()));
        }
    }
    for threads in thread_counts {
        let mut argv = vec![s("bigwigaverageoverbed"), s("in.bw"), s("regions.bed"), format!("out{}.txt", threads), s("-t"), threads.to_string()];
        if let Some(n) = &t.namecol {
            argv.extend([s("-n"), n.clone()]);
        }
        if t.min_max {
            argv.push(s("--min-max"));
        }
        let r = run_in(dir, &argv);
        out.count("tool_average_runs", 1);
        if r.stderr.starts_with("HARNESS") {
            out.fail("harness_panic", &[], r.stderr);
            return;
        }
        if r.timed_out || r.code != Some(0) {
            out.fail("average_tool_failed", &tags, format!("{:?}: exit {:?} timed_out {} stderr {}", argv, r.code, r.timed_out, r.stderr.chars().take(300).collect::<String>()));
            continue;
        }
        let text = std::fs::read_to_string(dir.join(format!("out{}.txt", threads))).unwrap_or_default();
        match &first {
            None => {
                let got: Vec<&str> = text.lines().collect();
                let want: Vec<&str> = want_rows.iter().map(|x| x.as_str()).collect();
                if got != want {
                    let i = got.iter().zip(want.iter()).position(|(a, b)| a != b).unwrap_or(got.len().min(want.len()));
                    out.fail("average_tool_rows_wrong", &tags, format!("-t 1: {} rows for {} regions; first difference at row {}: got {:?}, expected {:?}", got.len(), want.len(), i, got.get(i), want.get(i)));
                }
                first = Some(text);
            }
            Some(f) => {
                if *f != text {
                    out.fail("average_tool_depends_on_threads", &tags, format!("-t {} output differs from -t 1 ({} vs {} lines)", threads, text.lines().count(), f.lines().count()));
                }
            }
        }
    }
    // the result written to the terminal's device instead of a named file (its directory is not one
    // in which files can be created): same rows for one and for several threads
    if t.regions == 1 && t.namecol.is_none() {
        if let Some(f) = &first {
            for threads in [1usize, 4] {
                let mut argv = vec![s("bigwigaverageoverbed"), s("in.bw"), s("regions.bed"), s("/proc/self/fd/1"), s("-t"), threads.to_string()];
                if t.min_max {
                    argv.push(s("--min-max"));
                }
                let r = run_in(dir, &argv);
                out.count("tool_average_runs", 1);
                out.count("tool_average_runs_to_dev_stdout", 1);
                if r.timed_out || r.code != Some(0) || r.stdout != *f {
                    out.fail("average_tool_depends_on_threads", &tags, format!("{:?}: exit {:?}, {} lines on standard output against {} in a named file; stderr {}", argv, r.code, r.stdout.lines().count(), f.lines().count(), r.stderr.chars().take(200).collect::<String>()));
                }
            }
        }
    }
    // values over bed on a file that stores NaN, infinities and -0.0 (legal values: a stored NaN is
    // not a missing base), once per check run
    if t.file == 1 && t.regions == 0 && t.namecol.is_none() && !t.min_max {
        let items: Vec<(u32, u32, f32)> = vec![(0, 2, 1.5), (2, 4, f32::NAN), (4, 5, f32::INFINITY), (5, 6, f32::NEG_INFINITY), (8, 10, -0.0), (10, 11, f32::NAN), (12, 14, 2.0)];
        let mut spec2 = spec.clone();
        spec2.chroms = vec![EncChrom { name: s("chrN"), size: 200, wig: vec![WigSec::T1(items.clone())], bed: vec![] }];
        std::fs::write(dir.join("nan.bw"), encode(&spec2).bytes).unwrap();
        let regs2: Vec<(u32, u32)> = vec![(0, 16), (1, 3), (3, 4), (6, 8), (9, 12), (0, 1), (4, 6)];
        let bed2: String = regs2.iter().map(|(a, b)| format!("chrN\t{}\t{}\n", a, b)).collect();
        std::fs::write(dir.join("nan.bed"), bed2).unwrap();
        let argv = vec![s("bigwigvaluesoverbed"), s("nan.bw"), s("nan.bed"), s("nanvals.txt")];
        let r = run_in(dir, &argv);
        out.count("tool_values_runs_on_nonfinite_values", 1);
        if r.timed_out || r.code != Some(0) {
            out.fail("values_tool_failed", &tags, format!("{:?}: exit {:?} stderr {}", argv, r.code, r.stderr.chars().take(300).collect::<String>()));
        } else {
            let text = std::fs::read_to_string(dir.join("nanvals.txt")).unwrap_or_default();
            let rows: Vec<&str> = text.lines().collect();
            for (i, (a, b)) in regs2.iter().enumerate() {
                let want: Vec<String> = (*a..*b).map(|p| items.iter().find(|i| i.0 <= p && p < i.1).map(|i| i.2).unwrap_or(0.0).to_string()).collect();
                if rows.get(i).map(|r| *r != want.join("\t")).unwrap_or(true) {
                    out.fail("values_tool_rows_wrong", &tags, format!("chrN [{},{}): got {:?}, expected {:?}", a, b, rows.get(i), want.join("\t")));
                    break;
                }
            }
        }
    }
    // values over bed on regions longer than 2^20 bases with stored values lying across the multiples
    // of 2^20 from the region start (once per check run)
    if t.file == 1 && t.regions == 0 && t.namecol.is_none() && t.min_max {
        let items: Vec<(u32, u32, f32)> = vec![(10, 20, 1.5), (1_048_000, 1_049_100, 2.0), (1_049_100, 1_049_200, 0.5), (2_097_000, 2_097_300, 3.0), (2_199_990, 2_200_000, 4.0)];
        let mut spec3 = spec.clone();
        spec3.chroms = vec![EncChrom { name: s("chrL"), size: 2_300_000, wig: vec![WigSec::T1(items.clone())], bed: vec![] }];
        std::fs::write(dir.join("long.bw"), encode(&spec3).bytes).unwrap();
        let regs3: Vec<(u32, u32)> = vec![(0, 2_200_000), (500, 1_100_500), (1_048_576, 1_048_580), (0, 1_048_576)];
        let bed3: String = regs3.iter().map(|(a, b)| format!("chrL\t{}\t{}\n", a, b)).collect();
        std::fs::write(dir.join("long.bed"), bed3).unwrap();
        let argv = vec![s("bigwigvaluesoverbed"), s("long.bw"), s("long.bed"), s("longvals.txt")];
        let r = run_in(dir, &argv);
        out.count("tool_values_runs_on_regions_over_2_20_bases", 1);
        if r.timed_out || r.code != Some(0) {
            out.fail("values_tool_failed", &tags, format!("{:?}: exit {:?} stderr {}", argv, r.code, r.stderr.chars().take(300).collect::<String>()));
        } else {
            let text = std::fs::read_to_string(dir.join("longvals.txt")).unwrap_or_default();
            let rows: Vec<&str> = text.lines().collect();
            for (i, (a, b)) in regs3.iter().enumerate() {
                let mut want = vec![0f32; (b - a) as usize];
                for it in items.iter().filter(|it| it.1 > *a && it.0 < *b) {
                    for p in it.0.max(*a)..it.1.min(*b) {
                        want[(p - a) as usize] = it.2;
                    }
                }
                let got: Vec<&str> = rows.get(i).map(|r| r.split('\t').collect()).unwrap_or_default();
                let first_bad = if got.len() != want.len() { Some(usize::MAX) } else { got.iter().zip(want.iter()).position(|(g, w)| g.parse::<f32>().ok().map(|x| x.to_bits()) != Some(w.to_bits())) };
                if let Some(k) = first_bad {
                    out.fail("values_tool_rows_wrong", &tags, format!("chrL [{},{}): {} values for {} bases; first difference at offset {}", a, b, got.len(), want.len(), k));
                    break;
                }
            }
        }
    }
    // values over bed with the name column in front (--names) and another delimiter
    if t.regions == 1 && t.namecol.is_none() && !t.min_max {
        let plain = {
            let r = run_in(dir, &[s("bigwigvaluesoverbed"), s("in.bw"), s("regions.bed"), s("v_plain.txt")]);
            if r.code == Some(0) { std::fs::read_to_string(dir.join("v_plain.txt")).ok() } else { None }
        };
        let argv = vec![s("bigwigvaluesoverbed"), s("in.bw"), s("regions.bed"), s("v_named.txt"), s("--names"), s("--delimiter"), s(";")];
        let r = run_in(dir, &argv);
        out.count("tool_values_runs_with_names_and_delimiter", 1);
        let named = std::fs::read_to_string(dir.join("v_named.txt")).unwrap_or_default();
        match plain {
            Some(p) if r.code == Some(0) => {
                // (the name printed is the interval, chrom:start-end)
                let regs_names: Vec<String> = regs.iter().map(|x| format!("{}:{}-{}", x.0, x.1, x.2)).collect();
                let ok = p.lines().count() == named.lines().count()
                    && p.lines().zip(named.lines()).zip(regs_names.iter()).all(|((pl, nl), name)| {
                        let want = if pl.is_empty() { format!("{}", name) } else { format!("{};{}", name, pl.replace('\t', ";")) };
                        nl == want || nl == format!("{};", name)
                    });
                if !ok {
                    out.fail("values_tool_rows_wrong", &tags, format!("{:?}: rows {:?}, the plain rows are {:?}", argv, named.lines().take(3).collect::<Vec<_>>(), p.lines().take(3).collect::<Vec<_>>()));
                }
            }
            _ => out.fail("values_tool_failed", &tags, format!("{:?}: exit {:?} stderr {}", argv, r.code, r.stderr.chars().take(200).collect::<String>())),
        }
    }
    // values over bed (not for the regions of four thousand million bases: one number per base)
    if t.regions == 7 {
        return;
    }
    let argv = vec![s("bigwigvaluesoverbed"), s("in.bw"), s("regions.bed"), s("vals.txt")];
    let r = run_in(dir, &argv);
    out.count("tool_values_runs", 1);
    if r.timed_out || r.code != Some(0) {
        out.fail("values_tool_failed", &tags, format!("{:?}: exit {:?} stderr {}", argv, r.code, r.stderr.chars().take(300).collect::<String>()));
        return;
    }
    let text = std::fs::read_to_string(dir.join("vals.txt")).unwrap_or_default();
    let rows: Vec<&str> = text.lines().collect();
    if rows.len() != regs.len() {
        out.fail("values_tool_rows_wrong", &tags, format!("{} rows for {} regions", rows.len(), regs.len()));
        return;
    }
    for (row, (c, a, b, _)) in rows.iter().zip(regs.iter()) {
        let items = &content.iter().find(|x| x.0 == *c).unwrap().1;
        let want: Vec<String> = (*a..*b).map(|p| items.iter().find(|i| i.0 <= p && p < i.1).map(|i| i.2).unwrap_or(0.0).to_string()).collect();
        if *row != want.join("\t") {
            out.fail("values_tool_rows_wrong", &tags, format!("{} [{},{}): got {:?}, expected {:?}", c, a, b, row, want.join("\t")));
            return;
        }
    }
}

pub fn tool_space() -> serde_json::Value {
    json!({
        "merge_tool": "1-3 inputs written by the independent encoder (chromosome length 120000; values at base 0, across 50,000 and 100,000, cancelling, explicit zeros, a chromosome missing from some inputs) x clip x adjust x threshold x output names {out.bw, out.bigWig, out.bedGraph, OUT.BW, --output-type bigwig / BedGraph} x flag styles x input styles {-b each, -l list, kent positional, kent -inList}; plus 982 generated inputs (more than the 976 the tool keeps open: merged in chunks) whose chunk sums are negative while the total is positive",
        "average_tool": "2 bigWigs x 5 region lists (1, 3, 68, 3000 regions, some reaching beyond the chromosome end, names with blanks / empty) x name modes x --min-max x final newline x -t 1..16 (byte-identical), plus bigwigvaluesoverbed",
        "python_binding": "average_over_bed: 2 bigWigs x 4 region lists x names {absent, True, False, 0, 1, 4, 5} x stats {absent, all, All, mean, min, [sum,bases], [max,min,mean0,size], [bases]}",
    })
}

// =============================================================================================
// C19 tool part: bedtobigbed derives the schema from the first BED line / stores --autosql verbatim

pub fn c19_tool(extra: usize, supplied: Option<(String, usize)>, threads: usize, out: &mut Outcome) {
    c19_tool_from(extra, supplied, threads, None, out)
}

/// `stdin`: the spelling of "read the BED from standard input" to use instead of the file name.
pub fn c19_tool_from(extra: usize, supplied: Option<(String, usize)>, threads: usize, stdin: Option<&str>, out: &mut Outcome) {
    c19_tool_wide(extra, 0, supplied, threads, stdin, out)
}

/// `width` > 0 pads every extra column to that many bytes (first lines longer than the 8 KiB
/// buffers between the input and the schema generator).
pub fn c19_tool_wide(extra: usize, width: usize, supplied: Option<(String, usize)>, threads: usize, stdin: Option<&str>, out: &mut Outcome) {
    let wd = workdir();
    let dir = wd.path();
    // columns are separated by TAB only: for some column counts one value has blanks inside and one
    // column is empty (the number of columns, hence of declared fields, is unchanged)
    // (None: a column that is really empty; for other counts the FIRST extra column is empty or a blank)
    let rest: Vec<Option<String>> = (0..extra)
        .map(|i| {
            if extra % 7 == 3 && i == 0 {
                Some("putative zinc finger".to_string())
            } else if extra % 7 == 5 && i == 1 {
                None
            } else if extra % 7 == 6 && i == 0 && extra > 1 {
                None
            } else if extra % 7 == 2 && i == 0 && extra > 2 {
                Some(" ".to_string())
            } else {
                Some(format!("v{}{}", i, "w".repeat(width.saturating_sub(3))))
            }
        })
        .collect();
    let mut bed = String::new();
    for (i, (c, a, b)) in [("chr1", 1u32, 9u32), ("chr1", 5, 20), ("chr2", 0, 4)].iter().enumerate() {
        bed.push_str(&format!("{}\t{}\t{}", c, a, b));
        for r in &rest {
            match r {
                None => bed.push('\t'),
                Some(x) if x == " " => bed.push_str("\t "),
                Some(x) => bed.push_str(&format!("\t{}{}", x, i)),
            }
        }
        bed.push('\n');
    }
    std::fs::write(dir.join("in.bed"), &bed).unwrap();
    std::fs::write(dir.join("sizes"), "chr1\t100\nchr2\t50\n").unwrap();
    let mut argv = vec![s("bedtobigbed"), s(stdin.unwrap_or("in.bed")), s("sizes"), s("out.bb"), s("-t"), threads.to_string()];
    // a manual zoom list longer than the number of zoom levels asked for (the list wins): the schema
    // sits right behind the zoom directory of the header
    if extra % 4 == 1 {
        argv.extend([s("--nzooms"), s((extra % 3).to_string().as_str()), s("--zooms"), s("10,40,160")]);
        out.count("tool_schema_runs_with_nzooms_and_zooms", 1);
    }
    let mut tags = vec![if supplied.is_some() { s("supplied_schema") } else { s("generated_schema") }];
    if stdin.is_some() {
        tags.push(s("bed_from_stdin"));
    }
    if width > 0 {
        tags.push(s("wide_columns"));
        out.count("tool_schema_runs_first_line_over_8k", (bed.lines().next().map(|l| l.len()).unwrap_or(0) > 8192) as u64);
    }
    if let Some((text, _)) = &supplied {
        std::fs::write(dir.join("schema.as"), text).unwrap();
        // native and UCSC spellings alternate
        if (extra + threads + text.len()) % 2 == 0 {
            argv.extend([s("--autosql"), s("schema.as")]);
        } else {
            argv[0] = s("bedToBigBed");
            argv.push(s("-as=schema.as"));
            out.count("tool_schema_runs_ucsc_spelling", 1);
        }
    }
    let r = run_in_stdin(dir, &argv, stdin.map(|_| "in.bed"));
    out.count("tool_schema_runs", 1);
    if stdin.is_some() {
        out.count("tool_schema_runs_from_stdin", 1);
    }
    if r.stderr.starts_with("HARNESS") {
        out.fail("harness_panic", &[], r.stderr);
        return;
    }
    if r.timed_out || r.code != Some(0) {
        out.fail("schema_tool_failed", &tags, format!("{:?} ({} extra columns): exit {:?} stderr {}", argv, extra, r.code, r.stderr.chars().take(300).collect::<String>()));
        return;
    }
    let bytes = std::fs::read(dir.join("out.bb")).unwrap_or_default();
    match indep::decode(&bytes) {
        Err(e) => out.fail("schema_tool_output_undecodable", &tags, e),
        Ok(d) => {
            let asql = d.autosql.clone().unwrap_or_default();
            match &supplied {
                Some((text, n)) => {
                    if asql != *text {
                        out.fail("autosql_not_verbatim", &tags, format!("stored {:?}, supplied {:?}", asql, text));
                    }
                    if *n != usize::MAX && d.field_count as usize != *n {
                        out.fail("field_count_mismatch", &tags, format!("header fieldCount {} but the supplied schema declares {}", d.field_count, n));
                    }
                }
                None => {
                    let declared = crate::wfam::declared_fields(&asql).unwrap_or(0);
                    if declared != 3 + extra {
                        out.fail("generated_schema_field_count", &tags, format!("{} extra columns: the stored schema declares {} fields", extra, declared));
                    }
                    if d.field_count as usize != 3 + extra {
                        out.fail("field_count_mismatch", &tags, format!("{} extra columns: header fieldCount {}", extra, d.field_count));
                    }
                }
            }
            let n: usize = d.bed_blocks.iter().map(|b| b.len()).sum();
            if n != 3 {
                out.fail("schema_tool_records", &tags, format!("{} entries decoded, 3 written", n));
            }
            // bigbedinfo --autosql prints the stored schema and the header's field count
            let a = vec![s("bigbedinfo"), s("out.bb"), s("--autosql")];
            let r = run_in(dir, &a);
            out.count("tool_schema_info_runs", 1);
            let want_fc = format!("fieldCount: {}\n", d.field_count);
            let want_as = if asql.is_empty() { s("as:  n/a\n") } else { format!("as:\n{}basesCovered:", asql) };
            if r.code != Some(0) || !r.stdout.contains(&want_fc) || !r.stdout.contains(&want_as) {
                out.fail("info_tool_misreports_schema", &tags, format!("{:?}: exit {:?}, output {:?} lacks {:?} or {:?}", a, r.code, r.stdout.chars().take(600).collect::<String>(), want_fc, want_as));
            }
        }
    }
}

// =============================================================================================
// C13 tool part: exit status of the converters on unrepresentable input

#[derive(Clone, Debug, Serialize, Deserialize)]
pub struct RefuseTool {
    pub bed: bool,
    pub what: String,
    pub threads: usize,
    pub parallel: String,
    pub single_pass: bool,
    /// the text arrives on standard input (named `-`)
    #[serde(default)]
    pub stdin: bool,
}

pub fn refuse_tool_cases(quick: bool) -> Vec<RefuseTool> {
    let mut v = vec![];
    let whats = ["starts_out_of_order", "overlap", "start_after_end", "beyond_chrom", "unknown_chrom", "chrom_order", "chrom_repeated", "missing_end", "non_numeric_start", "bad_value", "space_separated", "empty_input", "valid", "missing_end_first", "non_numeric_start_first", "space_separated_first", "blank_first", "missing_end_last", "non_numeric_start_last", "chrom_order_late", "coordinate_beyond_u32", "coordinate_far_beyond_u32"];
    for bed in [false, true] {
        for what in whats {
            if bed && (what == "overlap" || what == "bad_value") {
                continue;
            }
            for (threads, parallel) in [(1usize, "no"), (4, "no"), (4, "yes"), (4, "auto")] {
                for single_pass in [false, true] {
                    if quick && single_pass && parallel == "auto" {
                        continue;
                    }
                    v.push(RefuseTool { bed, what: s(what), threads, parallel: s(parallel), single_pass, stdin: false });
                }
            }
        }
    }
    // a thread count of 0 (valid input: must convert; malformed input: must be refused, not panic)
    for bed in [false, true] {
        for what in ["valid", "missing_end", "unknown_chrom"] {
            for single_pass in [false, true] {
                v.push(RefuseTool { bed, what: s(what), threads: 0, parallel: s("auto"), single_pass, stdin: false });
            }
        }
    }
    v.push(RefuseTool { bed: false, what: s("merge_valid"), threads: 0, parallel: s("no"), single_pass: false, stdin: false });
    v.push(RefuseTool { bed: false, what: s("merge_valid"), threads: 0, parallel: s("no"), single_pass: true, stdin: false });
    // the same malformed first lines (and a valid input) arriving on standard input
    for bed in [false, true] {
        for what in ["missing_end_first", "non_numeric_start_first", "space_separated_first", "blank_first", "missing_end", "valid"] {
            v.push(RefuseTool { bed, what: s(what), threads: 2, parallel: s("no"), single_pass: true, stdin: true });
        }
        // nothing at all on standard input
        for threads in [1usize, 4] {
            v.push(RefuseTool { bed, what: s("empty_input"), threads, parallel: s("auto"), single_pass: true, stdin: true });
        }
    }
    // bigwigmerge: a chromosome with different sizes in two inputs cannot be merged
    // a chromosome with more values than 100 sections hold (102 400): every thread count terminates
    for threads in [1usize, 2] {
        v.push(RefuseTool { bed: false, what: s("merge_valid_big"), threads, parallel: s("no"), single_pass: false, stdin: false });
    }
    v.push(RefuseTool { bed: false, what: s("merge_valid_chunked_big"), threads: 2, parallel: s("no"), single_pass: false, stdin: false });
    v.push(RefuseTool { bed: false, what: s("merge_valid_chunked_big"), threads: 1, parallel: s("no"), single_pass: true, stdin: false });
    // a stray line of another chromosome inside a long run, where no probe of the indexer lands
    for bed in [false, true] {
        for single_pass in [false, true] {
            v.push(RefuseTool { bed, what: s("stray_line_in_long_run"), threads: 4, parallel: s("yes"), single_pass, stdin: false });
            v.push(RefuseTool { bed, what: s("stray_line_in_long_run"), threads: 1, parallel: s("no"), single_pass, stdin: false });
        }
    }
    for what in ["merge_mismatched_sizes", "merge_mismatched_sizes_first_chrom", "merge_valid"] {
        for threads in [1usize, 4] {
            for single_pass in [false, true] {
                // single_pass selects the bedGraph output here
                v.push(RefuseTool { bed: false, what: s(what), threads, parallel: s("no"), single_pass, stdin: false });
            }
        }
    }
    v
}

/// bigwigmerge on inputs that cannot be merged (a chromosome with different sizes) / can.
fn c13_merge_tool(t: &RefuseTool, out: &mut Outcome) {
    let wd = workdir();
    let dir = wd.path();
    let mk = |name: &str, sizes: &[(&str, u32)]| {
        let spec = EncSpec {
            bed: false,
            le: true,
            compress: true,
            version: 4,
            chroms: sizes.iter().map(|(n, l)| EncChrom { name: s(n), size: *l, wig: vec![WigSec::T1(vec![(1, 5, 1.0)])], bed: vec![] }).collect(),
            chrom_block: 64,
            chrom_level_order: false,
            chrom_ids_in_given_order: false,
            chrom_ids_reverse_of_keys: false,
            fanout: 4,
            placement: Placement::LevelOrder,
            zooms: vec![],
            zoom_ips: 4,
            zoom_blocks_span_chroms: false,
            trailing_magic: true,
            index_last: false,
            no_summary: false,
            autosql: None,
        };
        std::fs::write(dir.join(name), encode(&spec).bytes).unwrap();
    };
    if t.what == "merge_valid_big" {
        let mut spec = EncSpec {
            bed: false,
            le: true,
            compress: true,
            version: 4,
            chroms: vec![EncChrom { name: s("chr1"), size: 400_000, wig: (0..130u32).map(|k| WigSec::T1((0..1000u32).map(|i| (3 * (1000 * k + i), 3 * (1000 * k + i) + 2, (i % 7) as f32 + 0.5)).collect())).collect(), bed: vec![] }],
            chrom_block: 64,
            chrom_level_order: false,
            chrom_ids_in_given_order: false,
            chrom_ids_reverse_of_keys: false,
            fanout: 64,
            placement: Placement::LevelOrder,
            zooms: vec![],
            zoom_ips: 4,
            zoom_blocks_span_chroms: false,
            trailing_magic: true,
            index_last: false,
            no_summary: false,
            autosql: None,
        };
        std::fs::write(dir.join("a.bw"), encode(&spec).bytes).unwrap();
        spec.compress = false;
        std::fs::write(dir.join("b.bw"), encode(&spec).bytes).unwrap();
    } else {
        mk("a.bw", &[("chr1", 100), ("chr2", 50)]);
    }
    match t.what.as_str() {
        "merge_valid_big" => {}
        "merge_mismatched_sizes" => mk("b.bw", &[("chr1", 100), ("chr2", 60)]),
        "merge_mismatched_sizes_first_chrom" => mk("b.bw", &[("chr1", 99)]),
        _ => mk("b.bw", &[("chr2", 50), ("chr3", 10)]),
    }
    let output = if t.single_pass { "out.bedGraph" } else { "out.bw" };
    let mut argv = vec![s("bigwigmerge"), s("-b"), s("a.bw"), s("-b"), s("b.bw"), s(output), s("-t"), t.threads.to_string()];
    if t.what == "merge_valid_chunked_big" {
        // more inputs than the tool keeps open at once (977 > 976), each with 70 000 intervals on the
        // chromosome: the chunks it merges first hold more than 65 536 intervals each
        let mut spec = EncSpec {
            bed: false,
            le: true,
            compress: true,
            version: 4,
            chroms: vec![EncChrom { name: s("chr1"), size: 400_000, wig: (0..70u32).map(|k| WigSec::T1((0..1000u32).map(|i| (3 * (1000 * k + i), 3 * (1000 * k + i) + 2, (i % 7) as f32 + 0.5)).collect())).collect(), bed: vec![] }],
            chrom_block: 64,
            chrom_level_order: false,
            chrom_ids_in_given_order: false,
            chrom_ids_reverse_of_keys: false,
            fanout: 64,
            placement: Placement::LevelOrder,
            zooms: vec![],
            zoom_ips: 4,
            zoom_blocks_span_chroms: false,
            trailing_magic: true,
            index_last: false,
            no_summary: false,
            autosql: None,
        };
        spec.compress = t.single_pass;
        std::fs::write(dir.join("big.bw"), encode(&spec).bytes).unwrap();
        std::fs::write(dir.join("inputs.txt"), "big.bw\n".repeat(977)).unwrap();
        argv = vec![s("bigwigmerge"), s("-l"), s("inputs.txt"), s(output), s("-t"), t.threads.to_string()];
    }
    let r = run_in(dir, &argv);
    out.count("tool_refusal_runs", 1);
    out.count("tool_merge_refusal_runs", 1);
    let tags = vec![format!("tool_{}", t.what), s("bigwigmerge")];
    if r.stderr.starts_with("HARNESS") {
        out.fail("harness_panic", &[], r.stderr);
        return;
    }
    if r.timed_out {
        out.fail("tool_hangs", &tags, format!("{:?} did not finish within 60 s", argv));
        return;
    }
    let panicked = r.code == Some(101) || r.code.is_none();
    if t.what == "merge_valid" || t.what == "merge_valid_big" || t.what == "merge_valid_chunked_big" {
        if r.code != Some(0) || panicked {
            out.fail("tool_fails_on_valid_input", &tags, format!("{:?}: exit {:?} stderr {}", argv, r.code, r.stderr.chars().take(300).collect::<String>()));
        } else {
            out.count("tool_valid_ok", 1);
        }
        return;
    }
    if panicked {
        out.fail("tool_panics_on_invalid_input", &tags, format!("{:?}: exit {:?} stderr {}", argv, r.code, r.stderr.chars().take(300).collect::<String>()));
    } else if r.code == Some(0) {
        out.fail("tool_exit_0_on_invalid_input", &tags, format!("{:?}: exit 0 for inputs that cannot be merged ({}); stderr {}", argv, t.what, r.stderr.chars().take(200).collect::<String>()));
    } else {
        out.count("tool_invalid_refused", 1);
    }
}

pub fn c13_tool(t: &RefuseTool, out: &mut Outcome) {
    refuse_tool_run(t, out, false)
}

/// C14's tool part: what a converter leaves at the output path after refusing its input must be
/// rejected by the readers or be a complete file.
pub fn c14_tool(t: &RefuseTool, out: &mut Outcome) {
    refuse_tool_run(t, out, true)
}

fn refuse_tool_run(t: &RefuseTool, out: &mut Outcome, judge_leftover: bool) {
    if t.what.starts_with("merge_") {
        if judge_leftover {
            return;
        }
        return c13_merge_tool(t, out);
    }
    let wd = workdir();
    let dir = wd.path();
    let mut rows: Vec<(String, i64, i64)> = vec![];
    for c in ["chrA", "chrB", "chrC"] {
        for (a, b) in [(10, 20), (30, 40), (50, 60)] {
            rows.push((s(c), a, b));
        }
    }
    let mut raw: Option<(usize, String)> = None;
    match t.what.as_str() {
        "starts_out_of_order" => rows.swap(4, 5),
        "overlap" => rows[3].2 = 31,
        "start_after_end" => rows[7].1 = 70,
        "beyond_chrom" => {
            rows[8].1 = if t.bed { 100 } else { 50 };
            rows[8].2 = 105;
        }
        "unknown_chrom" => {
            for r in rows.iter_mut().filter(|r| r.0 == "chrB") {
                r.0 = s("chrB_unlisted");
            }
        }
        "chrom_order" => {
            for r in rows.iter_mut() {
                if r.0 == "chrB" {
                    r.0 = s("chrC");
                } else if r.0 == "chrC" {
                    r.0 = s("chrB");
                }
            }
        }
        "chrom_repeated" => {
            let r = rows.remove(2);
            rows.insert(5, r);
        }
        // eight chromosomes, the only disorder between the seventh and the eighth
        "chrom_order_late" => {
            rows.clear();
            for c in ["chrA", "chrB", "chrC", "chrD", "chrE", "chrF", "chrH", "chrG"] {
                for (a, b) in [(10, 20), (30, 40), (50, 60)] {
                    rows.push((s(c), a, b));
                }
            }
        }
        // coordinates that no 32-bit field holds (on a chromosome declared as long as one can be)
        "coordinate_beyond_u32" => {
            rows.push((s("chrZ"), 5_000_000_000, 5_000_000_010));
        }
        "coordinate_far_beyond_u32" => {
            rows.push((s("chrZ"), 10, 99_999_999_999));
        }
        "missing_end" => raw = Some((4, s("chrB\t30"))),
        "non_numeric_start" => raw = Some((4, s("chrB\tx30\t40\t1"))),
        "bad_value" => raw = Some((4, s("chrB\t30\t40\tabc"))),
        "space_separated" => raw = Some((4, s("chrB 30 40 1"))),
        // the same at the very first and the very last line (the converters look at the first
        // line on their own, before the writer sees it)
        "missing_end_first" => raw = Some((0, s("chrA\t1"))),
        "non_numeric_start_first" => raw = Some((0, s("chrA\tx1\t2\t1"))),
        "space_separated_first" => raw = Some((0, s("chrA 1 2 1"))),
        "blank_first" => raw = Some((0, s(""))),
        "missing_end_last" => raw = Some((rows.len() - 1, s("chrC\t97"))),
        "non_numeric_start_last" => raw = Some((rows.len() - 1, s("chrC\tx97\t98\t1"))),
        "empty_input" => rows.clear(),
        "stray_line_in_long_run" => {
            rows.clear();
            for i in 0..100i64 {
                rows.push((s(if i == 10 { "chrB" } else if i < 60 { "chrA" } else { "chrC" }), if i < 60 { i } else { i - 60 }, if i < 60 { i + 1 } else { i - 59 }));
            }
        }
        _ => {}
    }
    let mut text = String::new();
    for (i, (c, a, b)) in rows.iter().enumerate() {
        match &raw {
            Some((k, l)) if *k == i => text.push_str(l),
            _ => {
                if t.bed {
                    text.push_str(&format!("{}\t{}\t{}\tn{}", c, a, b, i));
                } else {
                    text.push_str(&format!("{}\t{}\t{}\t{}", c, a, b, i as f32 + 0.5));
                }
            }
        }
        text.push('\n');
    }
    std::fs::write(dir.join("in.txt"), &text).unwrap();
    std::fs::write(dir.join("sizes"), "chrA\t100\nchrB\t100\nchrC\t100\nchrD\t100\nchrE\t100\nchrF\t100\nchrG\t100\nchrH\t100\nchrZ\t4294967295\n").unwrap();
    let mut argv = vec![if t.bed { s("bedtobigbed") } else { s("bedgraphtobigwig") }, if t.stdin { s("-") } else { s("in.txt") }, s("sizes"), s("out.bb"), s("-t"), t.threads.to_string(), s("-p"), t.parallel.clone()];
    if t.single_pass && !t.stdin {
        argv.push(s("--single-pass"));
    }
    let r = if t.stdin { run_in_stdin(dir, &argv, Some("in.txt")) } else { run_in(dir, &argv) };
    if t.stdin {
        out.count("tool_refusal_runs_on_standard_input", 1);
    }
    out.count("tool_refusal_runs", 1);
    let tags = vec![format!("tool_{}", t.what), format!("parallel_{}", t.parallel), if t.bed { s("bigbed") } else { s("bigwig") }];
    if r.stderr.starts_with("HARNESS") {
        out.fail("harness_panic", &[], r.stderr);
        return;
    }
    if r.timed_out {
        out.fail("tool_hangs", &tags, format!("{:?} did not finish within 60 s", argv));
        return;
    }
    // a panic of the main thread ends the process with status 101 (or a signal); a background
    // task that panics after the call has already failed (its channel peer is gone) is not the
    // call panicking
    let panicked = r.code == Some(101) || r.code.is_none();
    if judge_leftover {
        out.count("tool_refusal_leftovers_examined", 1);
        if r.code == Some(0) {
            return; // acceptance is C13's business
        }
        let left = std::fs::read(dir.join("out.bb")).unwrap_or_default();
        if left.is_empty() {
            out.count("tool_refusal_left_no_file", 1);
        } else {
            crate::cfam::judge_leftover(&left, t.bed, &tags, &format!("{:?} ({})", argv, t.what), out);
        }
        return;
    }
    if r.stderr.contains("panicked at") && !panicked {
        out.count("tool_background_task_panic_after_error", 1);
    }
    if t.what == "valid" {
        if r.code != Some(0) || panicked {
            out.fail("tool_fails_on_valid_input", &tags, format!("{:?}: exit {:?} stderr {}", argv, r.code, r.stderr.chars().take(300).collect::<String>()));
        } else {
            out.count("tool_valid_ok", 1);
        }
        return;
    }
    if panicked {
        out.fail("tool_panics_on_invalid_input", &tags, format!("{:?}: exit {:?} stderr {}", argv, r.code, r.stderr.chars().take(300).collect::<String>()));
    } else if r.code == Some(0) {
        out.fail("tool_exit_0_on_invalid_input", &tags, format!("{:?}: exit 0 for unrepresentable input ({}); stderr {}", argv, t.what, r.stderr.chars().take(200).collect::<String>()));
    } else {
        out.count("tool_invalid_refused", 1);
    }
}

// =============================================================================================
// C06 tool part: bigwiginfo / bigbedinfo report the stored summary

#[derive(Clone, Debug, Serialize, Deserialize)]
pub struct InfoTool {
    pub bed: bool,
    /// covered spans on one long chromosome (value / depth 1 per span index + 1 for bigWig)
    pub spans: Vec<(u32, u32)>,
}

pub fn info_tool_cases() -> Vec<InfoTool> {
    let mut v = vec![];
    // totals whose three-digit groups take every padding shape: 5, 1,005, 12,003, 1,000,007,
    // 1,050,000, 999, 1,000, 2,030,405, 61
    let shapes: Vec<Vec<(u32, u32)>> = vec![
        vec![(0, 5)],
        vec![(0, 1005)],
        vec![(10, 12013)],
        vec![(0, 1_000_000), (1_500_000, 1_500_007)],
        vec![(0, 1_050_000)],
        vec![(1, 1000)],
        vec![(0, 1000)],
        vec![(0, 2_000_000), (2_100_000, 2_130_000), (2_200_000, 2_200_405)],
        vec![(0, 50), (50, 60), (100, 101)],
        // groups that are exact powers of ten: 2,010, 1,001, 3,100, 1,000,001, 1,010,100, 2,100,010
        vec![(0, 2010)],
        vec![(0, 1001)],
        vec![(7, 3107)],
        vec![(0, 1_000_000), (1_500_000, 1_500_001)],
        vec![(0, 1_010_000), (1_500_000, 1_500_100)],
        vec![(0, 2_100_000), (2_500_000, 2_500_010)],
    ];
    for bed in [false, true] {
        for sp in &shapes {
            v.push(InfoTool { bed, spans: sp.clone() });
        }
    }
    v
}

pub fn c06_tool(t: &InfoTool, out: &mut Outcome) {
    let wd = workdir();
    let dir = wd.path();
    let size = 3_000_000u32;
    let spec = EncSpec {
        bed: t.bed,
        le: true,
        compress: true,
        version: 4,
        chroms: vec![EncChrom {
            name: s("chr1"),
            size,
            wig: if t.bed { vec![] } else { vec![WigSec::T1(t.spans.iter().enumerate().map(|(i, (a, b))| (*a, *b, i as f32 + 1.0)).collect())] },
            bed: if t.bed { vec![t.spans.iter().map(|(a, b)| (*a, *b, s("n"))).collect()] } else { vec![] },
        }],
        chrom_block: 64,
        chrom_level_order: false,
            chrom_ids_in_given_order: false,
            chrom_ids_reverse_of_keys: false,
        fanout: 4,
        placement: Placement::LevelOrder,
        zooms: vec![],
        zoom_ips: 4,
        zoom_blocks_span_chroms: false,
        trailing_magic: true,
        index_last: false,
        no_summary: false,
        autosql: None,
    };
    let enc = encode(&spec);
    std::fs::write(dir.join("in.bb"), &enc.bytes).unwrap();
    let (bases, mn, mx, sum, _sq) = enc.summary.unwrap();
    let argv = vec![if t.bed { s("bigbedinfo") } else { s("bigwiginfo") }, s("in.bb")];
    let r = run_in(dir, &argv);
    out.count("tool_info_runs", 1);
    let tags = vec![if t.bed { s("bigbedinfo") } else { s("bigwiginfo") }];
    if r.stderr.starts_with("HARNESS") {
        out.fail("harness_panic", &[], r.stderr);
        return;
    }
    if r.timed_out || r.code != Some(0) {
        out.fail("info_tool_failed", &tags, format!("{:?}: exit {:?} stderr {}", argv, r.code, r.stderr.chars().take(300).collect::<String>()));
        return;
    }
    let field = |name: &str| -> Option<String> { r.stdout.lines().find_map(|l| l.strip_prefix(name).map(|x| x.trim().to_string())) };
    // the covered-base total, grouped in threes by commas
    let mut want = String::new();
    let digits = bases.to_string();
    for (i, ch) in digits.chars().enumerate() {
        if i > 0 && (digits.len() - i) % 3 == 0 {
            want.push(',');
        }
        want.push(ch);
    }
    match field("basesCovered:") {
        Some(g) if g == want => {}
        other => out.fail("info_tool_reports_wrong_summary", &tags, format!("basesCovered printed as {:?}, the file's total summary says {} ({})", other, bases, want)),
    }
    let (minname, maxname, meanname) = if t.bed { ("minDepth:", "maxDepth:", "meanDepth:") } else { ("min:", "max:", "mean:") };
    for (name, val) in [(minname, mn), (maxname, mx), (meanname, sum / bases as f64)] {
        match field(name) {
            Some(g) if g == format!("{:.6}", val) => {}
            other => out.fail("info_tool_reports_wrong_summary", &tags, format!("{} printed as {:?}, the file's total summary gives {:.6}", name, other, val)),
        }
    }
    if t.bed {
        match field("itemCount:") {
            Some(g) if g == enc.data_count.to_string() => {}
            other => out.fail("info_tool_reports_wrong_summary", &tags, format!("itemCount printed as {:?}, file has {}", other, enc.data_count)),
        }
    }
    // the other ways of asking: --chroms / --zooms add lines and change none of the summary lines;
    // bigwiginfo --minmax prints the two extremes on one line
    let mut argv2 = argv.clone();
    argv2.extend([s("--chroms"), s("--zooms")]);
    let r2 = run_in(dir, &argv2);
    out.count("tool_info_runs", 1);
    if r2.timed_out || r2.code != Some(0) {
        out.fail("info_tool_failed", &tags, format!("{:?}: exit {:?} stderr {}", argv2, r2.code, r2.stderr.chars().take(300).collect::<String>()));
    } else {
        for l in r.stdout.lines() {
            if !r2.stdout.lines().any(|x| x == l) {
                out.fail("info_tool_reports_wrong_summary", &tags, format!("{:?}: the line {:?} of the plain output is missing or different", argv2, l));
                break;
            }
        }
        if !r2.stdout.lines().any(|l| l.contains("chr1") && l.contains(&size.to_string())) {
            out.fail("info_tool_reports_wrong_summary", &tags, format!("{:?}: no line names chr1 with its size {}", argv2, size));
        }
    }
    if !t.bed {
        let argv3 = vec![s("bigwiginfo"), s("in.bb"), s("--minmax")];
        let r3 = run_in(dir, &argv3);
        out.count("tool_info_runs", 1);
        let want = format!("{:.6} {:.6}", mn, mx);
        if r3.code != Some(0) || r3.stdout.trim() != want {
            out.fail("info_tool_reports_wrong_summary", &tags, format!("{:?}: exit {:?}, printed {:?}, the file's total summary gives {:?}", argv3, r3.code, r3.stdout.trim(), want));
        }
    }
}

// =============================================================================================
// C04 tool part: `bigtools intersect` and `bigbedtobed --chrom/--start/--end`;
// C08 tool part: `bigbedtobed --zoom`

fn bed_lines_for(ch: &str, got: &str) -> Result<Vec<(u32, u32, String)>, String> {
    let mut v = vec![];
    for l in got.lines() {
        let f: Vec<&str> = l.splitn(4, '\t').collect();
        if f.len() < 3 || f[0] != ch {
            return Err(format!("unexpected output line {:?}", l));
        }
        v.push((f[1].parse().map_err(|_| format!("bad line {:?}", l))?, f[2].parse().map_err(|_| format!("bad line {:?}", l))?, f.get(3).unwrap_or(&"").to_string()));
    }
    Ok(v)
}

pub fn c04_tool(c: &crate::model::BedCase, out: &mut Outcome) {
    let Some(bytes) = crate::wfam::do_write_bed(c, out) else { return };
    let wd = workdir();
    let dir = wd.path();
    std::fs::write(dir.join("f.bb"), &bytes).unwrap();
    let tags = crate::drive::bed_tags(c);
    for ch in &c.chroms {
        let mut pts = std::collections::BTreeSet::new();
        pts.insert(0u32);
        pts.insert(ch.len);
        for i in &ch.items {
            for p in [i.s, i.e] {
                pts.insert(p);
                pts.insert(p.saturating_sub(1));
                pts.insert((p + 1).min(ch.len));
            }
        }
        let pts: Vec<u32> = pts.into_iter().collect();
        let mut queries: Vec<(u32, u32)> = pts.windows(2).map(|w| (w[0], w[1])).collect();
        queries.push((0, ch.len));
        for i in (0..pts.len()).step_by(3) {
            for j in (i + 2..pts.len()).step_by(4) {
                queries.push((pts[i], pts[j]));
            }
        }
        queries.truncate(14);
        for (qs, qe) in queries {
            if qs >= qe {
                continue;
            }
            let judge = |what: &str, got: Result<Vec<(u32, u32, String)>, String>, out: &mut Outcome| {
                match got {
                    Err(e) => out.fail("tool_range_output_malformed", &tags, format!("{} {} [{},{}): {}", what, ch.name, qs, qe, e)),
                    Ok(g) => {
                        // subsequence of the stored order, every positively overlapping entry present,
                        // nothing wholly outside
                        let mut pos = 0usize;
                        let mut matched = vec![false; ch.items.len()];
                        for ge in &g {
                            match (pos..ch.items.len()).find(|j| ch.items[*j].s == ge.0 && ch.items[*j].e == ge.1 && ch.items[*j].rest == ge.2) {
                                Some(j) => {
                                    matched[j] = true;
                                    pos = j + 1;
                                }
                                None => {
                                    out.fail("tool_range_query_order_or_unknown_entry", &tags, format!("{} {} [{},{}): printed {:?}, stored {:?}", what, ch.name, qs, qe, g, ch.items));
                                    return;
                                }
                            }
                        }
                        for (j, it) in ch.items.iter().enumerate() {
                            let must = it.e > it.s && it.s < qe && it.e > qs;
                            let must_not = it.e < qs || it.s > qe;
                            if must && !matched[j] {
                                out.fail("tool_range_query_missed_entry", &tags, format!("{} {} [{},{}): entry [{},{}) overlaps but is not printed ({:?})", what, ch.name, qs, qe, it.s, it.e, g));
                                return;
                            }
                            if must_not && matched[j] {
                                out.fail("tool_range_query_disjoint_entry", &tags, format!("{} {} [{},{}): entry [{},{}) lies wholly outside but is printed", what, ch.name, qs, qe, it.s, it.e));
                                return;
                            }
                        }
                    }
                }
            };
            // bigbedtobed --chrom --start --end
            let a = vec![s("bigbedtobed"), s("f.bb"), s("o.bed"), s("--chrom"), ch.name.clone(), s("--start"), qs.to_string(), s("--end"), qe.to_string()];
            let r = run_in(dir, &a);
            out.count("tool_range_runs", 1);
            if r.timed_out || r.code != Some(0) {
                if !tags.contains(&s("bed_entry_0_0")) {
                    out.fail("tool_range_query_failed", &tags, format!("{:?}: exit {:?} stderr {}", a, r.code, r.stderr.chars().take(200).collect::<String>()));
                }
            } else {
                let text = std::fs::read_to_string(dir.join("o.bed")).unwrap_or_default();
                judge("bigbedtobed", bed_lines_for(&ch.name, &text), out);
            }
            // bigtools intersect (stdout)
            std::fs::write(dir.join("q.bed"), format!("{}\t{}\t{}\n", ch.name, qs, qe)).unwrap();
            let a = vec![s("bigtools"), s("intersect"), s("q.bed"), s("f.bb")];
            let r = run_in(dir, &a);
            out.count("tool_range_runs", 1);
            if r.timed_out || r.code != Some(0) {
                out.fail("tool_range_query_failed", &tags, format!("{:?}: exit {:?} stderr {}", a, r.code, r.stderr.chars().take(200).collect::<String>()));
            } else if r.stderr.contains("An error occured") {
                // the block of a [0,0) entry cannot be read (known finding of C02/C04)
                if !tags.contains(&s("bed_entry_0_0")) {
                    out.fail("tool_range_query_failed", &tags, format!("{:?}: {}", a, r.stderr.chars().take(200).collect::<String>()));
                }
            } else {
                // intersect prints an empty 4th column for entries without rest
                let norm: String = r.stdout.lines().map(|l| l.trim_end_matches('\t').to_string() + "\n").collect();
                judge("intersect", bed_lines_for(&ch.name, &norm), out);
            }
        }
    }
}

pub fn c08_tool(c: &crate::model::BedCase, out: &mut Outcome) {
    let Some(bytes) = crate::wfam::do_write_bed(c, out) else { return };
    let tags = crate::drive::bed_tags(c);
    let d = match indep::decode(&bytes) {
        Ok(d) => d,
        Err(e) => {
            out.fail("undecodable_file", &tags, e);
            return;
        }
    };
    let wd = workdir();
    let dir = wd.path();
    std::fs::write(dir.join("f.bb"), &bytes).unwrap();
    for z in &d.zooms {
        // the whole level, without --chrom: every stored record of every chromosome
        {
            let a = vec![s("bigbedtobed"), s("f.bb"), s("zall.txt"), s("--zoom"), z.reduction.to_string()];
            let r = run_in(dir, &a);
            out.count("tool_zoom_runs", 1);
            out.count("tool_zoom_whole_level_dumps", 1);
            if r.timed_out || r.code != Some(0) {
                out.fail("tool_zoom_query_failed", &tags, format!("{:?}: exit {:?} stderr {}", a, r.code, r.stderr.chars().take(200).collect::<String>()));
            } else {
                let text = std::fs::read_to_string(dir.join("zall.txt")).unwrap_or_default();
                let mut got: Vec<(String, u32, u32)> = text.lines().map(|l| { let f: Vec<&str> = l.split('\t').collect(); (f.first().unwrap_or(&"").to_string(), f.get(1).and_then(|x| x.parse().ok()).unwrap_or(u32::MAX), f.get(2).and_then(|x| x.parse().ok()).unwrap_or(u32::MAX)) }).collect();
                // (a dump covers every chromosome from 0 to its declared length: records that lie wholly
                // beyond it belong to entries reaching past the end and may or may not be printed)
                let all_recs: Vec<(String, u32, u32, u32)> = z.blocks.iter().flatten().filter_map(|r| c.chroms.get(r.chrom as usize).map(|ch| (ch.name.clone(), r.start, r.end, ch.len))).collect();
                got.retain(|g| all_recs.iter().any(|r| r.0 == g.0 && r.1 == g.1 && r.2 == g.2 && r.1 >= r.3) == false);
                let mut want: Vec<(String, u32, u32)> = all_recs.iter().filter(|r| r.1 < r.3).map(|r| (r.0.clone(), r.1, r.2)).collect();
                got.sort();
                want.sort();
                if got != want {
                    out.fail("tool_zoom_output_differs_from_stored_records", &tags, format!("{:?}: {} lines, the level stores {} records (first printed {:?}, first stored {:?})", a, got.len(), want.len(), got.first(), want.first()));
                }
            }
        }
        for (ci, ch) in c.chroms.iter().enumerate() {
            let all: Vec<&indep::ZRec> = z.blocks.iter().flatten().filter(|r| r.chrom == ci as u32).collect();
            // (ranges reaching beyond the chromosome end as well: entries may, and so may zoom records)
            for (qs, qe) in [(0u32, ch.len), (3, 9), (ch.len - 1, ch.len), (0, ch.len + 400), (ch.len - 1, ch.len + 5), (ch.len, ch.len + 50), (ch.len + 20, 200_000)] {
                let a = vec![s("bigbedtobed"), s("f.bb"), s("z.txt"), s("--zoom"), z.reduction.to_string(), s("--chrom"), ch.name.clone(), s("--start"), qs.to_string(), s("--end"), qe.to_string()];
                let r = run_in(dir, &a);
                out.count("tool_zoom_runs", 1);
                if r.timed_out || r.code != Some(0) {
                    out.fail("tool_zoom_query_failed", &tags, format!("{:?}: exit {:?} stderr {}", a, r.code, r.stderr.chars().take(200).collect::<String>()));
                    continue;
                }
                let text = std::fs::read_to_string(dir.join("z.txt")).unwrap_or_default();
                let mut got = vec![];
                let mut bad = None;
                for l in text.lines() {
                    let f: Vec<&str> = l.split('\t').collect();
                    if f.len() != 9 || f[0] != ch.name {
                        bad = Some(format!("unexpected zoom line {:?}", l));
                        break;
                    }
                    got.push((f[1].parse::<u32>().unwrap_or(u32::MAX), f[2].parse::<u32>().unwrap_or(u32::MAX), f[4].parse::<u64>().unwrap_or(u64::MAX), f[5].parse::<f64>().unwrap_or(f64::NAN), f[6].parse::<f64>().unwrap_or(f64::NAN), f[7].parse::<f64>().unwrap_or(f64::NAN)));
                }
                if let Some(b) = bad {
                    out.fail("tool_zoom_output_malformed", &tags, b);
                    continue;
                }
                let must: Vec<&&indep::ZRec> = all.iter().filter(|r| r.start < qe && r.end > qs).collect();
                let mut ok = got.windows(2).all(|w| w[0].0 < w[1].0);
                for m in &must {
                    ok &= got.iter().any(|g| g.0 == m.start && g.1 == m.end && g.2 == m.valid as u64 && g.3 == m.min as f64 && g.4 == m.max as f64 && g.5 == m.sum as f64);
                }
                for g in &got {
                    ok &= all.iter().any(|m| m.start == g.0 && m.end == g.1) && g.1 >= qs && g.0 <= qe;
                }
                if !ok {
                    out.fail("tool_zoom_output_differs_from_stored_records", &tags, format!("{:?}: printed {:?}, stored records intersecting the range {:?}", a, got, must.iter().map(|m| (m.start, m.end, m.valid, m.min, m.max, m.sum)).collect::<Vec<_>>()));
                }
            }
        }
    }
}
