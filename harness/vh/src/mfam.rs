//! C15 (merge / fill value streams; library part) and C17 (per-region statistics; library part).
use crate::drive::*;
use crate::model::*;
use crate::refm::*;
use crate::sup::*;
use crate::wfam::do_write_wig;
use bigtools::utils::fill::{fill, fill_start_to_end};
use bigtools::utils::merge::{merge_into, merge_sections_many};
use bigtools::utils::misc::{bigwig_average_over_bed, name_for_bed_item, stats_for_bed_item, Name};
use bigtools::{BedEntry, BigWigRead, Value};
use serde::{Deserialize, Serialize};
use serde_json::json;
use std::io::Cursor;

// =============================================================================================
// C15

type Iv = (u32, u32, f32);

#[derive(Clone, Debug, Serialize, Deserialize)]
pub enum C15Case {
    /// merge_sections_many: stream A (shape index, value pattern) against every stream B in a block
    MergePairs { pts: Vec<u32>, a_shape: usize, a_vals: usize, b_block: usize },
    /// all triples of <=1-interval streams, first stream fixed
    MergeTriples { pts: Vec<u32>, a_shape: usize },
    /// one stream alone and identical streams
    MergeSingles { pts: Vec<u32> },
    /// merge_into over all overlapping pairs on coordinates 0..=max
    MergeInto { max: u32 },
    /// fill / fill_start_to_end over a block of layouts
    Fill { block: usize },
    /// the bigwigmerge tool
    Tool(crate::clifam::MergeTool),
}

pub struct C15;

const P_QUICK: [u32; 7] = [0, 1, 49999, 50000, 50001, 100000, 100001];
const P_FULL: [u32; 11] = [0, 1, 2, 49998, 49999, 50000, 50001, 50002, 99999, 100000, 100001];

/// all streams shapes with <= m intervals whose endpoints are taken from pts (ascending;
/// adjacent intervals may touch), simplest first
fn shapes(pts: &[u32], m: usize) -> Vec<Vec<(u32, u32)>> {
    let mut out = vec![vec![]];
    let n = pts.len();
    for a in 0..n {
        for b in a + 1..n {
            out.push(vec![(pts[a], pts[b])]);
        }
    }
    if m >= 2 {
        for a in 0..n {
            for b in a + 1..n {
                for c in b..n {
                    for d in c + 1..n {
                        out.push(vec![(pts[a], pts[b]), (pts[c], pts[d])]);
                    }
                }
            }
        }
    }
    if m >= 3 {
        for a in 0..n {
            for b in a + 1..n {
                for c in b..n {
                    for d in c + 1..n {
                        for e in d..n {
                            for f in e + 1..n {
                                out.push(vec![(pts[a], pts[b]), (pts[c], pts[d]), (pts[e], pts[f])]);
                            }
                        }
                    }
                }
            }
        }
    }
    out
}

const A_VALS: [[f32; 3]; 2] = [[1.0, 1.0, 1.0], [1.0, 2.5, -1.0]];
const B_VALS: [f32; 4] = [1.0, -1.0, 0.0, 2.5];

fn stream(shape: &[(u32, u32)], vals: &[f32]) -> Vec<Iv> {
    shape.iter().enumerate().map(|(i, (s, e))| (*s, *e, vals[i])).collect()
}

/// Reference check of a merged stream on the elementary segments between all endpoints.
fn check_merge(inputs: &[Vec<Iv>], got: &[Iv]) -> Result<(), String> {
    // sorted, non-overlapping, positive length
    for w in got.windows(2) {
        if w[1].0 < w[0].1 {
            return Err(format!("output not sorted / overlapping: {:?} then {:?}", w[0], w[1]));
        }
    }
    for g in got {
        if g.1 <= g.0 {
            return Err(format!("output interval {:?} is empty or inverted", g));
        }
    }
    let mut pts: Vec<u32> = inputs.iter().flatten().flat_map(|i| [i.0, i.1]).collect();
    pts.extend(got.iter().flat_map(|g| [g.0, g.1]));
    pts.sort();
    pts.dedup();
    for w in pts.windows(2) {
        let (s, e) = (w[0], w[1]);
        let mut sum = 0f64;
        let mut has = false;
        for st in inputs {
            for i in st {
                if i.0 <= s && e <= i.1 {
                    sum += i.2 as f64;
                    has = true;
                }
            }
        }
        let cover: Vec<&Iv> = got.iter().filter(|g| g.0 <= s && e <= g.1).collect();
        let partial = got.iter().any(|g| g.0 < e && g.1 > s && !(g.0 <= s && e <= g.1));
        if partial {
            return Err(format!("output splits inside the elementary segment [{},{})", s, e));
        }
        if has && sum != 0.0 {
            if cover.len() != 1 {
                return Err(format!("segment [{},{}) with sum {} is covered by {} output intervals", s, e, sum, cover.len()));
            }
            if cover[0].2 != sum as f32 {
                return Err(format!("segment [{},{}): output value {} but the inputs sum to {}", s, e, cover[0].2, sum));
            }
        } else if !cover.is_empty() {
            return Err(format!(
                "segment [{},{}) has {} but the output has {:?}",
                s,
                e,
                if has { "a zero sum" } else { "no input data" },
                cover[0]
            ));
        }
    }
    Ok(())
}

fn run_merge(inputs: &[Vec<Iv>]) -> Result<Vec<Iv>, String> {
    let ins: Vec<_> = inputs
        .iter()
        .map(|st| {
            st.clone()
                .into_iter()
                .map(|(s, e, v)| Ok::<Value, std::io::Error>(Value { start: s, end: e, value: v }))
        })
        .collect();
    guarded(move || {
        let mut out = vec![];
        for v in merge_sections_many(ins) {
            let v = v.map_err(|e| format!("{}", e))?;
            out.push((v.start, v.end, v.value));
            if out.len() > 10_000 {
                return Err("more than 10000 output values".to_string());
            }
        }
        Ok(out)
    })
    .unwrap_or_else(|p| Err(format!("panic: {}", p)))
}

type BoxedStream = Box<dyn Iterator<Item = Result<Value, std::io::Error>> + Send>;

/// The same inputs merged as a lazy tree: the first stream against the (not yet evaluated) merge
/// of the others.  A merge is an iterator like any other, so this must give the flat merge.
fn run_merge_nested(inputs: &[Vec<Iv>]) -> Result<Vec<Iv>, String> {
    let mk = |st: &Vec<Iv>| -> BoxedStream { Box::new(st.clone().into_iter().map(|(s, e, v)| Ok::<Value, std::io::Error>(Value { start: s, end: e, value: v }))) };
    let first = mk(&inputs[0]);
    let rest: Vec<BoxedStream> = inputs[1..].iter().map(mk).collect();
    guarded(move || {
        let inner: BoxedStream = Box::new(merge_sections_many(rest));
        let mut out = vec![];
        for v in merge_sections_many(vec![first, inner]) {
            let v = v.map_err(|e| format!("{}", e))?;
            out.push((v.start, v.end, v.value));
            if out.len() > 10_000 {
                return Err("more than 10000 output values".to_string());
            }
        }
        Ok(out)
    })
    .unwrap_or_else(|p| Err(format!("panic: {}", p)))
}

fn merge_tags(inputs: &[Vec<Iv>]) -> Vec<String> {
    let mut t = vec![];
    if inputs.iter().flatten().any(|i| i.0 < 50000 && i.1 > 50000 || i.0 < 100000 && i.1 > 100000) {
        t.push("crosses_window_boundary".to_string());
    }
    t
}

fn c15_judge(inputs: &[Vec<Iv>], out: &mut Outcome) {
    out.count("merge_runs", 1);
    match run_merge(inputs) {
        Err(e) => out.fail("merge_failed", &merge_tags(inputs), format!("inputs {:?}: {}", inputs, e)),
        Ok(got) => {
            if got.len() >= 2 {
                out.count("merge_runs_with_2+_outputs", 1);
            }
            if let Err(e) = check_merge(inputs, &got) {
                out.fail("merge_differs_from_per_base_sum", &merge_tags(inputs), format!("inputs {:?} -> {:?}: {}", inputs, got, e));
            }
        }
    }
    // three and more streams: also as a lazy tree of merges (exact sums only: the association of the
    // additions differs, which is visible in the last bit for values that do not add exactly)
    let exact = inputs.iter().flatten().all(|i| (i.2 * 4.0).fract() == 0.0 && i.2.abs() < 1000.0);
    if inputs.len() >= 3 && exact {
        out.count("nested_merge_runs", 1);
        match run_merge_nested(inputs) {
            Err(e) => out.fail("merge_failed", &merge_tags(inputs), format!("nested, inputs {:?}: {}", inputs, e)),
            Ok(got) => {
                // the inner merge drops zero sums, which the outer one then cannot see: judge
                // against the per-base sums of first + inner output
                let inner = run_merge(&inputs[1..]).unwrap_or_default();
                if let Err(e) = check_merge(&[inputs[0].clone(), inner], &got) {
                    out.fail("nested_merge_differs_from_per_base_sum", &merge_tags(inputs), format!("inputs {:?} -> {:?}: {}", inputs, got, e));
                }
            }
        }
    }
}

impl Check for C15 {
    type Case = C15Case;
    fn id(&self) -> &'static str {
        "C15"
    }
    fn cases(&self, tier: Tier) -> Box<dyn Iterator<Item = C15Case> + '_> {
        let quick = tier == Tier::Quick;
        let pts: Vec<u32> = if quick { P_QUICK.to_vec() } else { P_FULL.to_vec() };
        let sh = shapes(&pts, 2);
        let mut v = vec![];
        v.push(C15Case::MergeInto { max: if quick { 6 } else { 7 } });
        v.push(C15Case::MergeSingles { pts: pts.clone() });
        let nblocks = (sh.len() + 63) / 64;
        for a in 0..sh.len() {
            for av in 0..2 {
                if av == 1 && sh[a].len() < 2 {
                    continue;
                }
                for b in 0..nblocks {
                    v.push(C15Case::MergePairs { pts: pts.clone(), a_shape: a, a_vals: av, b_block: b });
                }
            }
        }
        let s1 = shapes(&pts, 1).len();
        for a in 0..s1 {
            v.push(C15Case::MergeTriples { pts: pts.clone(), a_shape: a });
        }
        let nl = wig_layouts(3, L).len();
        for b in 0..(nl + 127) / 128 {
            v.push(C15Case::Fill { block: b });
        }
        for t in crate::clifam::merge_tool_cases(quick) {
            v.push(C15Case::Tool(t));
        }
        Box::new(v.into_iter())
    }
    fn run(&self, case: &C15Case, out: &mut Outcome) {
        out.nontrivial = true;
        match case {
            C15Case::MergePairs { pts, a_shape, a_vals, b_block } => {
                let sh = shapes(pts, 2);
                let a = stream(&sh[*a_shape], &A_VALS[*a_vals]);
                for bshape in sh.iter().skip(b_block * 64).take(64) {
                    // all value assignments of B
                    let m = bshape.len();
                    let combos = B_VALS.len().pow(m as u32);
                    for code in 0..combos {
                        let mut vals = vec![];
                        let mut x = code;
                        for _ in 0..m {
                            vals.push(B_VALS[x % B_VALS.len()]);
                            x /= B_VALS.len();
                        }
                        let b = stream(bshape, &vals);
                        c15_judge(&[a.clone(), b], out);
                    }
                }
            }
            C15Case::MergeTriples { pts, a_shape } => {
                let sh = shapes(pts, 1);
                let a = stream(&sh[*a_shape], &[1.0]);
                for (bi, bs) in sh.iter().enumerate() {
                    for cs in sh.iter().skip(bi) {
                        for (bv, cv) in [(1.0f32, 1.0f32), (-1.0, 2.5), (2.5, -1.0), (1e-20, 2e-20)] {
                            c15_judge(&[a.clone(), stream(bs, &[bv]), stream(cs, &[cv])], out);
                        }
                    }
                }
            }
            C15Case::MergeSingles { pts } => {
                let sh = shapes(pts, 3);
                for s in &sh {
                    // ... and magnitudes far below f64::EPSILON (distinct values, none of them zero),
                    // huge next to tiny, zeros of both signs
                    for vals in [[1.0f32, 1.0, 1.0], [1.0, 0.0, -1.0], [0.0, 2.5, 0.0], [1e-20, 3e-20, 1e-30], [1e30, 1e-30, -1e-20], [0.0, -0.0, 1e-38]] {
                        let a = stream(s, &vals);
                        c15_judge(&[a.clone()], out);
                        c15_judge(&[a.clone(), a.clone()], out);
                        // cancelling copy
                        let neg: Vec<Iv> = a.iter().map(|i| (i.0, i.1, -i.2)).collect();
                        c15_judge(&[a.clone(), neg], out);
                        c15_judge(&[a.clone(), vec![]], out);
                    }
                }
            }
            C15Case::MergeInto { max } => {
                let vals = [0.0f32, 1.0, 2.0];
                for a in 0..*max {
                    for b in a + 1..=*max {
                        for c in 0..*max {
                            for d in c + 1..=*max {
                                if a.max(c) >= b.min(d) {
                                    continue; // not overlapping: outside the function's contract
                                }
                                for v1 in vals {
                                    for v2 in vals {
                                        out.count("merge_into_calls", 1);
                                        let one = Value { start: a, end: b, value: v1 };
                                        let two = Value { start: c, end: d, value: v2 };
                                        match guarded(|| merge_into(one, two)) {
                                            Err(p) => out.fail("merge_into_panicked", &[], format!("{:?} + {:?}: {}", one, two, p)),
                                            Ok((p1, p2, p3, p4)) => {
                                                let pieces: Vec<Value> = [Some(p1), p2, p3, p4].into_iter().flatten().collect();
                                                let mut bad = None;
                                                for w in pieces.windows(2) {
                                                    if w[1].start < w[0].end {
                                                        bad = Some("pieces overlap or are out of order".to_string());
                                                    }
                                                }
                                                for base in 0..=*max {
                                                    let exp = (if base >= a && base < b { Some(v1) } else { None }, if base >= c && base < d { Some(v2) } else { None });
                                                    let want = match exp {
                                                        (None, None) => None,
                                                        (x, y) => Some(x.unwrap_or(0.0) + y.unwrap_or(0.0)),
                                                    };
                                                    let got: Vec<f32> = pieces.iter().filter(|p| p.start <= base && base < p.end).map(|p| p.value).collect();
                                                    match (want, got.as_slice()) {
                                                        (None, []) => {}
                                                        (Some(w), [g]) if *g == w => {}
                                                        _ => bad = Some(format!("base {}: expected {:?}, pieces give {:?}", base, want, got)),
                                                    }
                                                }
                                                if let Some(bd) = bad {
                                                    out.fail("merge_into_wrong_pieces", &[], format!("{:?} + {:?} -> {:?}: {}", one, two, pieces, bd));
                                                }
                                            }
                                        }
                                    }
                                }
                            }
                        }
                    }
                }
            }
            C15Case::Tool(t) => crate::clifam::c15_tool(t, out),
            C15Case::Fill { block } => {
                let lays = wig_layouts(3, L);
                for (li, lay) in lays.iter().enumerate().skip(block * 128).take(128) {
                    let items = wig_items(lay, li, 0);
                    let vals: Vec<Value> = items.iter().map(|i| Value { start: i.s, end: i.e, value: if i.v() == 0.0 { 7.0 } else { i.v() } }).collect();
                    let first = vals.first().map(|v| v.start).unwrap_or(0);
                    let last_end = vals.last().map(|v| v.end).unwrap_or(0);
                    let check_tiling = |what: &str, got: &[Value], from: u32, to: u32, out: &mut Outcome| {
                        let mut pos = from;
                        let mut orig = vals.iter().peekable();
                        let mut err = None;
                        for g in got {
                            if g.start != pos {
                                err = Some(format!("gap or overlap at {} (next output {:?})", pos, g));
                                break;
                            }
                            pos = g.end;
                            if orig.peek().map(|o| **o == *g).unwrap_or(false) {
                                orig.next();
                            } else if g.value != 0.0 || g.end <= g.start {
                                err = Some(format!("output {:?} is neither an original value nor a positive-length zero", g));
                                break;
                            }
                        }
                        if err.is_none() && orig.peek().is_some() {
                            err = Some(format!("original value {:?} missing from the output", orig.peek().unwrap()));
                        }
                        if err.is_none() && pos != to && !(got.is_empty() && from >= to) {
                            err = Some(format!("tiling ends at {} instead of {}", pos, to));
                        }
                        if let Some(e) = err {
                            out.fail("fill_not_a_faithful_tiling", &[], format!("{} of {:?} -> {:?}: {}", what, vals, got, e));
                        }
                    };
                    out.count("fill_runs", 1);
                    let r = guarded(|| fill(vals.clone().into_iter().map(Ok)).map(|x| x.unwrap()).collect::<Vec<_>>());
                    match r {
                        Err(p) => out.fail("fill_panicked", &[], p),
                        Ok(got) => check_tiling("fill", &got, 0, last_end, out),
                    }
                    let mut starts = vec![0u32, 1, first];
                    starts.retain(|s| *s <= first || vals.is_empty());
                    starts.sort();
                    starts.dedup();
                    for &st in &starts {
                        for en in [0u32, 1, first, last_end, L] {
                            if vals.is_empty() && en < st {
                                continue;
                            }
                            out.count("fill_runs", 1);
                            let r = guarded(|| fill_start_to_end(vals.clone().into_iter().map(Ok), st, en).map(|x| x.unwrap()).collect::<Vec<_>>());
                            match r {
                                Err(p) => out.fail("fill_panicked", &[], p),
                                Ok(got) => check_tiling(&format!("fill_start_to_end({},{})", st, en), &got, st, en.max(last_end).max(st), out),
                            }
                        }
                    }
                }
            }
        }
    }
    fn space(&self, tier: Tier) -> serde_json::Value {
        let q = tier == Tier::Quick;
        let pts: Vec<u32> = if q { P_QUICK.to_vec() } else { P_FULL.to_vec() };
        json!({
            "endpoint_set": pts, "stream_shapes_<=2_intervals": shapes(&pts, 2).len(),
            "pairs": "every shape pair x A value patterns {all 1; 1,2.5} x all B value assignments over {1,-1,0,2.5}",
            "triples": "all triples of <=1-interval shapes x 3 value patterns",
            "singles": "every shape with <=3 intervals alone, doubled, against its negation, against an empty stream",
            "merge_into": format!("all overlapping pairs on coordinates 0..={} x values {{0,1,2}}^2", if q {6} else {7}),
            "fill": "all WL(3) layouts x fill and fill_start_to_end with start in {0,1,first start} x end in {0,1,first,last end,L}",
            "tools": crate::clifam::tool_space(),
        })
    }
    fn case_cap_s(&self) -> u64 {
        300
    }
}

// =============================================================================================
// C17 (library part)

#[derive(Clone, Debug, Serialize, Deserialize)]
pub enum C17Case {
    Lib { file: WigCase },
    Tool(crate::clifam::AvgTool),
    /// single stored values longer than 2^24 bases (lengths single precision cannot hold) on a
    /// chromosome of the maximum length, one value reaching the very last base; regions ending at
    /// u32::MAX
    LongRuns { two_pass: bool },
    /// `average_over_bed` of the Python binding: every names mode x every stats form
    Py { file: usize, regions: usize },
    /// regions of 1 / 2 / 4 million bases (and small ones) on a file with several zoom levels whose
    /// values do not sum exactly in single precision: the statistics are those of the stored
    /// values, not of a zoom level's rounded sums
    LargeRegions { two_pass: bool, compress: bool },
}

pub struct C17;

struct RefStats {
    size: u32,
    bases: u32,
    sum: f64,
    abs_sum: f64,
    min: Vec<f64>,
    max: Vec<f64>,
}

fn ref_stats(ch: &WChrom, s: u32, e: u32) -> RefStats {
    let pb = wig_per_base(ch);
    let mut r = RefStats { size: e - s, bases: 0, sum: 0.0, abs_sum: 0.0, min: vec![], max: vec![] };
    let mut mn = f64::INFINITY;
    let mut mx = f64::NEG_INFINITY;
    for b in s..e {
        // bases beyond the chromosome end hold no data
        if let Some(v) = pb.get(b as usize).copied().flatten() {
            r.bases += 1;
            r.sum += v as f64;
            r.abs_sum += (v as f64).abs();
            mn = mn.min(v as f64);
            mx = mx.max(v as f64);
        }
    }
    if r.bases > 0 {
        r.min.push(mn);
        r.max.push(mx);
        // zero-length stored values inside the region have no bases: including them in the
        // extrema or not is don't-care
        for i in &ch.items {
            if i.s == i.e && i.s >= s && i.s <= e {
                if (i.v() as f64) < mn {
                    r.min.push(i.v() as f64);
                }
                if (i.v() as f64) > mx {
                    r.max.push(i.v() as f64);
                }
            }
        }
    }
    r
}

fn cmp_entry(what: &str, got: &bigtools::utils::misc::BigWigAverageOverBedEntry, want: &RefStats, tags: &[String], out: &mut Outcome) {
    let mut errs = vec![];
    if got.size != want.size {
        errs.push(format!("size {} != {}", got.size, want.size));
    }
    if got.bases != want.bases {
        errs.push(format!("bases {} != {}", got.bases, want.bases));
    }
    if !close64(got.sum, want.sum, want.abs_sum) {
        errs.push(format!("sum {} != {}", got.sum, want.sum));
    }
    // (the mean over an empty region is 0/0: not prescribed)
    if want.size > 0 && !close64(got.mean0, want.sum / want.size as f64, want.abs_sum / want.size as f64) {
        errs.push(format!("mean0 {} != {}", got.mean0, want.sum / want.size as f64));
    }
    if want.bases == 0 {
        if !(got.mean.is_nan() && got.min.is_nan() && got.max.is_nan()) {
            errs.push(format!("nothing covered but mean/min/max = {}/{}/{}", got.mean, got.min, got.max));
        }
    } else {
        if !close64(got.mean, want.sum / want.bases as f64, want.abs_sum / want.bases as f64) {
            errs.push(format!("mean {} != {}", got.mean, want.sum / want.bases as f64));
        }
        if !want.min.iter().any(|m| *m == got.min) {
            errs.push(format!("min {} not in {:?}", got.min, want.min));
        }
        if !want.max.iter().any(|m| *m == got.max) {
            errs.push(format!("max {} not in {:?}", got.max, want.max));
        }
    }
    if !errs.is_empty() {
        out.fail("region_stats_wrong", tags, format!("{}: {}", what, errs.join("; ")));
    }
}

impl Check for C17 {
    type Case = C17Case;
    fn id(&self) -> &'static str {
        "C17"
    }
    fn cases(&self, tier: Tier) -> Box<dyn Iterator<Item = C17Case> + '_> {
        let quick = tier == Tier::Quick;
        let k = if quick { 3 } else { 4 };
        let mut opts = vec![];
        for (ips, bs) in [(1024u32, 256u32), (1, 2), (2, 3)] {
            let mut o = Opts::base();
            o.ips = ips;
            o.bs = bs;
            o.zoom = Zoom::Manual(vec![]);
            opts.push(o);
        }
        let o1 = opts.clone();
        let singles = wig_layouts(k, L).into_iter().enumerate().map(move |(i, l)| C17Case::Lib {
            file: WigCase {
                chroms: vec![WChrom { name: "c".into(), len: L, items: wig_items(&l, i, i / 3) }],
                extra_sizes: vec![],
                allow_ooo: false,
                opts: o1[i % 3].clone(),
            },
        });
        let core = core_wig_layouts();
        let multi = (0..8usize).flat_map(move |li| {
            let core = core.clone();
            opts.clone().into_iter().map(move |o| C17Case::Lib {
                file: WigCase {
                    chroms: ["chr1", "chr10", "chr2"]
                        .iter()
                        .enumerate()
                        .map(|(ci, n)| WChrom { name: n.to_string(), len: L, items: wig_items(&core[(li + ci * 3) % 8], li + ci, ci) })
                        .collect(),
                    extra_sizes: vec![],
                    allow_ooo: false,
                    opts: o,
                },
            })
        });
        let tools = crate::clifam::avg_tool_cases(quick).into_iter().map(C17Case::Tool);
        let pys = (0..2usize).flat_map(|file| (0..4usize).map(move |regions| C17Case::Py { file, regions }));
        let tools = tools.chain(pys);
        let large = [(false, true), (true, false)].into_iter().map(|(two_pass, compress)| C17Case::LargeRegions { two_pass, compress });
        let large = large.chain([false, true].into_iter().map(|two_pass| C17Case::LongRuns { two_pass }));
        Box::new(singles.chain(multi).chain(tools).chain(large))
    }
    fn run(&self, case: &C17Case, out: &mut Outcome) {
        let c = match case {
            C17Case::Lib { file } => file,
            C17Case::Py { file, regions } => {
                out.nontrivial = true;
                crate::pyfam::c17_py(*file, *regions, out);
                return;
            }
            C17Case::Tool(t) => {
                out.nontrivial = true;
                crate::clifam::c17_tool(t, out);
                return;
            }
            C17Case::LongRuns { two_pass } => {
                out.nontrivial = true;
                let mut o = Opts::base();
                o.two_pass = *two_pass;
                o.zoom = Zoom::Manual(vec![1 << 22]);
                let runs = WChrom {
                    name: "runs".into(),
                    len: u32::MAX,
                    items: vec![
                        WItem { s: 1000, e: 1000 + (1 << 24) + 1, vb: 1.5f32.to_bits() },
                        WItem { s: 40_000_000, e: 40_000_000 + (1 << 25) + 3, vb: 0.75f32.to_bits() },
                        WItem { s: 200_000_000, e: 200_000_000 + (1 << 26) + (1 << 10) + 1, vb: (-2.25f32).to_bits() },
                        WItem { s: 4_294_967_290, e: u32::MAX, vb: 2.0f32.to_bits() },
                    ],
                };
                let c = WigCase { chroms: vec![runs.clone()], extra_sizes: vec![], allow_ooo: false, opts: o };
                let tags = wig_tags(&c);
                let Some(bytes) = do_write_wig(&c, out) else { return };
                let r = guarded(|| {
                    let mut rd = BigWigRead::open(Cursor::new(bytes.clone())).unwrap();
                    for (s, e) in [(1000u32, 16_778_217u32), (0, 20_000_000), (999, 16_778_218), (40_000_000, 73_554_435), (39_999_999, 80_000_000), (200_000_000, 267_109_889), (0, u32::MAX), (4_294_967_000, u32::MAX), (4_294_967_294, u32::MAX), (4_294_967_000, 4_294_967_294)] {
                        out.count("regions", 1);
                        out.count("regions_over_runs_longer_than_2_24", 1);
                        let mut w = RefStats { size: e - s, bases: 0, sum: 0.0, abs_sum: 0.0, min: vec![], max: vec![] };
                        let (mut mn, mut mx) = (f64::INFINITY, f64::NEG_INFINITY);
                        for it in &runs.items {
                            let (a, b) = (it.s.max(s), it.e.min(e));
                            if b > a {
                                let v = it.v() as f64;
                                w.bases += b - a;
                                w.sum += (b - a) as f64 * v;
                                w.abs_sum += (b - a) as f64 * v.abs();
                                mn = mn.min(v);
                                mx = mx.max(v);
                            }
                        }
                        if w.bases > 0 {
                            w.min.push(mn);
                            w.max.push(mx);
                        }
                        let entry = BedEntry { start: s, end: e, rest: format!("run_{}_{}", s, e) };
                        match stats_for_bed_item("runs", entry, &mut rd) {
                            Err(err) => out.fail("region_stats_error", &tags, format!("runs [{},{}): {}", s, e, err)),
                            Ok(g) => cmp_entry(&format!("stats_for_bed_item runs [{},{})", s, e), &g, &w, &tags, out),
                        }
                    }
                });
                if let Err(p) = r {
                    out.fail("read_panicked", &tags, p);
                }
                return;
            }
            C17Case::LargeRegions { two_pass, compress } => {
                out.nontrivial = true;
                let mut o = Opts::base();
                o.two_pass = *two_pass;
                o.compress = *compress;
                o.zoom = Zoom::AutoDefault;
                let items: Vec<WItem> = (0..30_000u32).map(|i| WItem { s: 133 * i + 5, e: 133 * i + 5 + 1 + (i % 90), vb: (0.1f32 * (i % 1000) as f32 + 0.013).to_bits() }).collect();
                let ch = WChrom { name: "lg".into(), len: 4_100_000, items };
                let c = WigCase { chroms: vec![ch.clone()], extra_sizes: vec![], allow_ooo: false, opts: o };
                let tags = wig_tags(&c);
                let Some(bytes) = do_write_wig(&c, out) else { return };
                let r = guarded(|| {
                    let mut rd = BigWigRead::open(Cursor::new(bytes.clone())).unwrap();
                    out.count("zoom_levels_of_the_large_region_file", rd.info().zoom_headers.len() as u64);
                    for (s, e) in [(0u32, 4_000_000u32), (500_000, 1_500_001), (1_000_000, 2_000_000), (17, 3_999_999), (2_000_000, 4_100_000), (100, 5000), (0, 999_999), (3_000_000, 4_200_000)] {
                        out.count("regions", 1);
                        out.count("regions_of_a_million_bases_and_more", (e - s >= 1_000_000) as u64);
                        // item-based reference (no per-base array)
                        let mut w = RefStats { size: e - s, bases: 0, sum: 0.0, abs_sum: 0.0, min: vec![], max: vec![] };
                        let (mut mn, mut mx) = (f64::INFINITY, f64::NEG_INFINITY);
                        for it in &ch.items {
                            let (a, b) = (it.s.max(s), it.e.min(e));
                            if b > a {
                                let v = it.v() as f64;
                                w.bases += b - a;
                                w.sum += (b - a) as f64 * v;
                                w.abs_sum += (b - a) as f64 * v.abs();
                                mn = mn.min(v);
                                mx = mx.max(v);
                            }
                        }
                        if w.bases > 0 {
                            w.min.push(mn);
                            w.max.push(mx);
                        }
                        let entry = BedEntry { start: s, end: e, rest: format!("big_{}_{}", s, e) };
                        match stats_for_bed_item("lg", entry, &mut rd) {
                            Err(err) => out.fail("region_stats_error", &tags, format!("lg [{},{}): {}", s, e, err)),
                            Ok(g) => cmp_entry(&format!("stats_for_bed_item lg [{},{})", s, e), &g, &w, &tags, out),
                        }
                    }
                });
                if let Err(p) = r {
                    out.fail("read_panicked", &tags, p);
                }
                return;
            }
        };
        let tags = wig_tags(c);
        let Some(bytes) = do_write_wig(c, out) else { return };
        out.nontrivial = c.chroms.iter().map(|c| c.items.len()).sum::<usize>() >= 2;
        let r = guarded(|| {
            let mut rd = BigWigRead::open(Cursor::new(bytes.clone())).unwrap();
            // (1) stats_for_bed_item on all regions
            let mut bed_text = String::new();
            let mut expected: Vec<(String, String, u32, u32)> = vec![];
            for ch in &c.chroms {
                // empty regions (insertion points): inside a value, on its edges, in a gap: nothing
                // is covered, so the covered-base mean and the extrema are NaN
                for s in 0..=ch.len {
                    out.count("regions", 1);
                    out.count("empty_regions", 1);
                    let entry = BedEntry { start: s, end: s, rest: format!("ins{}", s) };
                    match stats_for_bed_item(&ch.name, entry, &mut rd) {
                        Err(err) => out.fail("region_stats_error", &tags, format!("{} [{},{}): {}", ch.name, s, s, err)),
                        Ok(g) => cmp_entry(&format!("stats_for_bed_item {} [{},{})", ch.name, s, s), &g, &RefStats { size: 0, bases: 0, sum: 0.0, abs_sum: 0.0, min: vec![], max: vec![] }, &tags, out),
                    }
                }
                // regions inside the chromosome, reaching beyond its end and wholly beyond it
                for s in 0..ch.len + 2 {
                    for e in s + 1..=ch.len + 3 {
                        out.count("regions", 1);
                        if e > ch.len {
                            out.count("regions_reaching_beyond_the_chromosome_end", 1);
                        }
                        let entry = BedEntry { start: s, end: e, rest: format!("r{}_{}\tx", s, e) };
                        match stats_for_bed_item(&ch.name, entry, &mut rd) {
                            Err(err) => out.fail("region_stats_error", &tags, format!("{} [{},{}): {}", ch.name, s, e, err)),
                            Ok(g) => cmp_entry(&format!("stats_for_bed_item {} [{},{})", ch.name, s, e), &g, &ref_stats(ch, s, e), &tags, out),
                        }
                        // a row whose further columns form a valid BED12 block list: the statistics are
                        // still those of [start, end)
                        if e - s >= 8 && e <= ch.len {
                            out.count("regions_with_bed12_columns", 1);
                            let entry = BedEntry { start: s, end: e, rest: format!("g{}\t0\t+\t{}\t{}\t0\t2\t1,2,\t0,{},", s, s, e, e - s - 2) };
                            match stats_for_bed_item(&ch.name, entry, &mut rd) {
                                Err(err) => out.fail("region_stats_error", &tags, format!("{} [{},{}) with BED12 columns: {}", ch.name, s, e, err)),
                                Ok(g) => cmp_entry(&format!("stats_for_bed_item {} [{},{}) with BED12 columns", ch.name, s, e), &g, &ref_stats(ch, s, e), &tags, out),
                            }
                        }
                        // names: plain, with blanks inside, empty (columns are separated by TAB only)
                        let nm = match (s + e) % 5 {
                            0 => format!("r {}  {}", s, e),
                            1 => String::new(),
                            _ => format!("r{}_{}", s, e),
                        };
                        bed_text.push_str(&format!("{}\t{}\t{}\t{}\tx\n", ch.name, s, e, nm));
                        expected.push((ch.name.clone(), nm, s, e));
                    }
                }
            }
            // (2) the iterator used by the tool's single-threaded path and the Python binding:
            // one row per input row, same order, requested name
            for (mode, name) in [("column4", Name::Column(3)), ("interval", Name::Interval), ("none", Name::None), ("column1", Name::Column(0)), ("column5", Name::Column(4))] {
                let rd2 = BigWigRead::open(Cursor::new(bytes.clone())).unwrap();
                let rows: Vec<_> = bigwig_average_over_bed(Cursor::new(bed_text.clone().into_bytes()), rd2, name).collect();
                out.count("iterator_rows", rows.len() as u64);
                if rows.len() != expected.len() {
                    out.fail("region_rows_count", &tags, format!("name mode {}: {} rows for {} regions", mode, rows.len(), expected.len()));
                    continue;
                }
                for (row, (chn, nm, s, e)) in rows.iter().zip(expected.iter()) {
                    match row {
                        Err(err) => {
                            out.fail("region_stats_error", &tags, format!("iterator {} [{},{}): {}", chn, s, e, err));
                            break;
                        }
                        Ok((got_name, g)) => {
                            let want_name = match mode {
                                "column4" => nm.clone(),
                                "interval" => format!("{}:{}-{}", chn, s, e),
                                "none" => format!("{}\t{}\t{}\t{}\tx", chn, s, e, nm),
                                "column5" => "x".to_string(),
                                _ => chn.clone(),
                            };
                            if *got_name != want_name {
                                out.fail("region_name_wrong", &tags, format!("name mode {}: got {:?}, expected {:?}", mode, got_name, want_name));
                                break;
                            }
                            let ch = c.chroms.iter().find(|x| x.name == *chn).unwrap();
                            cmp_entry(&format!("iterator({}) {} [{},{})", mode, chn, s, e), g, &ref_stats(ch, *s, *e), &tags, out);
                        }
                    }
                }
            }
            // name_for_bed_item on a column beyond the row must be an error, not a panic
            let e = BedEntry { start: 1, end: 2, rest: "a\tb".into() };
            if name_for_bed_item(Name::Column(7), "c", &e).is_ok() {
                out.fail("region_name_wrong", &tags, "name column beyond the row accepted".into());
            }
        });
        if let Err(p) = r {
            out.fail("read_panicked", &tags, p);
        }
    }
    fn space(&self, tier: Tier) -> serde_json::Value {
        let q = tier == Tier::Quick;
        json!({
            "files": wig_layouts(if q {3} else {4}, L).len() + 24, "regions_per_chromosome": 136,
            "name_modes": ["column 4", "interval", "none", "column 1", "column 5"], "names": ["plain", "with blanks inside", "empty"],
            "paths": ["stats_for_bed_item", "bigwig_average_over_bed iterator"],
            "tools": crate::clifam::tool_space(),
        })
    }
    fn case_cap_s(&self) -> u64 {
        120
    }
}
