//! Independent BBI encoder (no bigtools code): emits well-formed bigWig/bigBed files over the
//! layout freedoms the published format allows - byte order, compression, section types,
//! multi-level chromosome trees, R-tree fan-out / depth / node placement, versions 1-4.
use miniz_oxide::deflate::compress_to_vec_zlib;
use serde::{Deserialize, Serialize};

#[derive(Clone, Copy, Debug, Serialize, Deserialize, PartialEq, Eq)]
pub enum Placement {
    /// root, then each level in order (as the UCSC writer does)
    LevelOrder,
    /// every node followed by its subtree
    DepthFirst,
    /// children are written before the index header; the root (a non-leaf when there are >= 2
    /// levels) is the last node of the index
    ChildrenFirst,
    /// level order with 5 bytes of padding between nodes
    Padded,
    /// the data blocks stored in the file in the reverse of their genomic order (the index lists them
    /// in genomic order, as it must); index nodes in level order
    BlocksReversed,
    /// a tree whose leaves sit at different depths (every inner node holds an inner node followed
    /// by a leaf: legal, since every node says itself whether it is a leaf), nodes in level order
    Ragged,
}

#[derive(Clone, Debug, Serialize, Deserialize)]
pub enum WigSec {
    /// bedGraph section
    T1(Vec<(u32, u32, f32)>),
    /// variable step: span, (start, value)
    T2(u32, Vec<(u32, f32)>),
    /// fixed step: start, step, span, values
    T3(u32, u32, u32, Vec<f32>),
}

impl WigSec {
    pub fn items(&self) -> Vec<(u32, u32, f32)> {
        match self {
            WigSec::T1(v) => v.clone(),
            WigSec::T2(span, v) => v.iter().map(|(s, x)| (*s, s + span, *x)).collect(),
            WigSec::T3(start, step, span, v) => v.iter().enumerate().map(|(i, x)| (start + step * i as u32, start + step * i as u32 + span, *x)).collect(),
        }
    }
}

#[derive(Clone, Debug, Serialize, Deserialize)]
pub struct EncChrom {
    pub name: String,
    pub size: u32,
    /// bigWig: sections in order; bigBed: unused
    pub wig: Vec<WigSec>,
    /// bigBed: blocks of entries (start, end, rest)
    pub bed: Vec<Vec<(u32, u32, String)>>,
}

#[derive(Clone, Debug, Serialize, Deserialize)]
pub struct EncSpec {
    pub bed: bool,
    pub le: bool,
    pub compress: bool,
    pub version: u16,
    /// chromosomes; ids are assigned in ascending key (name) order as the format requires
    pub chroms: Vec<EncChrom>,
    /// items per chromosome-tree node (>= number of chromosomes gives a single leaf)
    pub chrom_block: usize,
    /// chromosome-tree nodes in level order (root first, as the UCSC writer does) or depth first
    #[serde(default)]
    pub chrom_level_order: bool,
    /// ids follow the reverse of the byte order of the names and the single leaf of the chromosome
    /// tree lists the keys in id order, i.e. NOT sorted (what bigtools itself writes when its input
    /// names chromosomes in another order than byte order and that is allowed; readers that scan
    /// the leaf find every key).  Only with a single-leaf tree.
    #[serde(default)]
    pub chrom_ids_in_given_order: bool,
    /// the chromosome tree is sorted by key as usual, but ids run the other way (the largest name
    /// has id 0): what the UCSC writers produce for input whose order of first appearance is not
    /// the byte order of the names.  Tree order and id order then differ.
    #[serde(default)]
    pub chrom_ids_reverse_of_keys: bool,
    pub fanout: usize,
    pub placement: Placement,
    /// zoom reductions to write
    pub zooms: Vec<u32>,
    /// zoom records per block
    pub zoom_ips: usize,
    /// let zoom blocks run across chromosome boundaries
    pub zoom_blocks_span_chroms: bool,
    pub trailing_magic: bool,
    /// put the main index at the very end of the file (after the zoom levels)
    pub index_last: bool,
    /// leave the total summary out (offset 0) even though the version allows one
    #[serde(default)]
    pub no_summary: bool,
    pub autosql: Option<String>,
}

struct W {
    b: Vec<u8>,
    le: bool,
}
impl W {
    fn u8(&mut self, v: u8) {
        self.b.push(v)
    }
    fn u16(&mut self, v: u16) {
        self.b.extend_from_slice(&if self.le { v.to_le_bytes() } else { v.to_be_bytes() })
    }
    fn u32(&mut self, v: u32) {
        self.b.extend_from_slice(&if self.le { v.to_le_bytes() } else { v.to_be_bytes() })
    }
    fn u64(&mut self, v: u64) {
        self.b.extend_from_slice(&if self.le { v.to_le_bytes() } else { v.to_be_bytes() })
    }
    fn f32(&mut self, v: f32) {
        self.u32(v.to_bits())
    }
    fn f64(&mut self, v: f64) {
        self.u64(v.to_bits())
    }
    fn bytes(&mut self, v: &[u8]) {
        self.b.extend_from_slice(v)
    }
    fn pos(&self) -> u64 {
        self.b.len() as u64
    }
    fn patch_u64(&mut self, at: usize, v: u64) {
        let x = if self.le { v.to_le_bytes() } else { v.to_be_bytes() };
        self.b[at..at + 8].copy_from_slice(&x);
    }
    fn patch_u32(&mut self, at: usize, v: u32) {
        let x = if self.le { v.to_le_bytes() } else { v.to_be_bytes() };
        self.b[at..at + 4].copy_from_slice(&x);
    }
}

#[derive(Clone, Debug)]
struct LeafItem {
    chrom_s: u32,
    start: u32,
    chrom_e: u32,
    end: u32,
    off: u64,
    size: u64,
}

#[derive(Clone, Debug)]
enum Node {
    Leaf(Vec<LeafItem>),
    Inner(Vec<Node>),
}

fn span(n: &Node) -> (u32, u32, u32, u32) {
    match n {
        Node::Leaf(v) => {
            let s = v.iter().map(|i| (i.chrom_s, i.start)).min().unwrap();
            let e = v.iter().map(|i| (i.chrom_e, i.end)).max().unwrap();
            (s.0, s.1, e.0, e.1)
        }
        Node::Inner(v) => {
            let s = v.iter().map(|c| {
                let x = span(c);
                (x.0, x.1)
            }).min().unwrap();
            let e = v.iter().map(|c| {
                let x = span(c);
                (x.2, x.3)
            }).max().unwrap();
            (s.0, s.1, e.0, e.1)
        }
    }
}

fn build_tree(items: Vec<LeafItem>, fanout: usize) -> Node {
    let mut level: Vec<Node> = items.chunks(fanout).map(|c| Node::Leaf(c.to_vec())).collect();
    if level.is_empty() {
        return Node::Leaf(vec![]);
    }
    while level.len() > 1 {
        let mut next = vec![];
        let mut cur = vec![];
        for n in level {
            cur.push(n);
            if cur.len() == fanout {
                next.push(Node::Inner(std::mem::take(&mut cur)));
            }
        }
        if !cur.is_empty() {
            next.push(Node::Inner(cur));
        }
        level = next;
    }
    level.pop().unwrap()
}

/// Left-deep tree: ((((L0 L1) L2) L3) ...): the leaves are still in position order from left to
/// right, but at depths n-1, n-1, n-2, ..., 1.
fn build_ragged(items: Vec<LeafItem>, fanout: usize) -> Node {
    let mut leaves: Vec<Node> = items.chunks(fanout).map(|c| Node::Leaf(c.to_vec())).collect();
    if leaves.len() < 3 {
        return build_tree(items, fanout);
    }
    let rest = leaves.split_off(2);
    let mut node = Node::Inner(leaves);
    for l in rest {
        node = Node::Inner(vec![node, l]);
    }
    node
}

fn shape(items: Vec<LeafItem>, fanout: usize, placement: Placement) -> Node {
    if placement == Placement::Ragged {
        build_ragged(items, fanout)
    } else {
        build_tree(items, fanout)
    }
}

fn node_size(n: &Node) -> u64 {
    match n {
        Node::Leaf(v) => 4 + 32 * v.len() as u64,
        Node::Inner(v) => 4 + 24 * v.len() as u64,
    }
}

/// Serialise the R-tree.  Returns the offset of the index header.
fn write_rtree(w: &mut W, root: &Node, fanout: usize, item_count: u64, ips: u32, end_of_data: u64, placement: Placement) -> u64 {
    // assign offsets to every node, then emit in placement order
    // collect nodes with ids
    let mut nodes: Vec<&Node> = vec![];
    let mut children: Vec<Vec<usize>> = vec![];
    let mut depth_of: Vec<usize> = vec![];
    fn collect<'a>(n: &'a Node, d: usize, nodes: &mut Vec<&'a Node>, children: &mut Vec<Vec<usize>>, depth_of: &mut Vec<usize>) -> usize {
        let id = nodes.len();
        nodes.push(n);
        children.push(vec![]);
        depth_of.push(d);
        if let Node::Inner(v) = n {
            for c in v {
                let cid = collect(c, d + 1, nodes, children, depth_of);
                children[id].push(cid);
            }
        }
        id
    }
    collect(root, 0, &mut nodes, &mut children, &mut depth_of);
    let n = nodes.len();
    // emission order of non-root nodes
    let mut order: Vec<usize> = (1..n).collect();
    match placement {
        Placement::LevelOrder | Placement::Padded | Placement::Ragged | Placement::BlocksReversed => order.sort_by_key(|i| (depth_of[*i], *i)),
        Placement::DepthFirst => {}
        Placement::ChildrenFirst => order.sort_by_key(|i| (std::cmp::Reverse(depth_of[*i]), *i)),
    }
    let pad = if placement == Placement::Padded { 5u64 } else { 0 };
    let mut offs = vec![0u64; n];
    let header_off;
    if placement == Placement::ChildrenFirst {
        let mut p = w.pos();
        for i in &order {
            offs[*i] = p;
            p += node_size(nodes[*i]);
        }
        header_off = p;
        offs[0] = header_off + 48;
    } else {
        header_off = w.pos();
        offs[0] = header_off + 48;
        let mut p = offs[0] + node_size(root) + pad;
        for i in &order {
            offs[*i] = p;
            p += node_size(nodes[*i]) + pad;
        }
    }
    let emit_node = |w: &mut W, i: usize| {
        debug_assert_eq!(w.pos(), offs[i]);
        match nodes[i] {
            Node::Leaf(v) => {
                w.u8(1);
                w.u8(0);
                w.u16(v.len() as u16);
                for it in v {
                    w.u32(it.chrom_s);
                    w.u32(it.start);
                    w.u32(it.chrom_e);
                    w.u32(it.end);
                    w.u64(it.off);
                    w.u64(it.size);
                }
            }
            Node::Inner(v) => {
                w.u8(0);
                w.u8(0);
                w.u16(v.len() as u16);
                for (k, c) in v.iter().enumerate() {
                    let s = span(c);
                    w.u32(s.0);
                    w.u32(s.1);
                    w.u32(s.2);
                    w.u32(s.3);
                    w.u64(offs[children[i][k]]);
                }
            }
        }
    };
    let emit_header = |w: &mut W| {
        let s = if item_count > 0 { span(root) } else { (0, 0, 0, 0) };
        w.u32(super::indep::CIR_MAGIC);
        w.u32(fanout as u32);
        w.u64(item_count);
        w.u32(s.0);
        w.u32(s.1);
        w.u32(s.2);
        w.u32(s.3);
        w.u64(end_of_data);
        w.u32(ips);
        w.u32(0);
    };
    if placement == Placement::ChildrenFirst {
        for i in &order {
            emit_node(w, *i);
        }
        emit_header(w);
        emit_node(w, 0);
    } else {
        emit_header(w);
        emit_node(w, 0);
        for _ in 0..pad {
            w.u8(0xEE);
        }
        for i in &order {
            emit_node(w, *i);
            for _ in 0..pad {
                w.u8(0xEE);
            }
        }
    }
    header_off
}

fn write_chrom_tree(w: &mut W, chroms: &[(String, u32, u32)], block: usize, level_order: bool) -> u64 {
    // chroms sorted by key; (name, id, size)
    let key_size = chroms.iter().map(|c| c.0.len()).max().unwrap_or(1);
    let off = w.pos();
    w.u32(super::indep::CHROM_MAGIC);
    w.u32(block as u32);
    w.u32(key_size as u32);
    w.u32(8);
    w.u64(chroms.len() as u64);
    w.u64(0);
    // nodes: (is_leaf, items); a leaf item is a chromosome index, an inner item a node id
    let mut nodes: Vec<(bool, Vec<usize>)> = vec![];
    let mut level: Vec<usize> = vec![];
    let idxs: Vec<usize> = (0..chroms.len()).collect();
    for c in idxs.chunks(block.max(1)) {
        nodes.push((true, c.to_vec()));
        level.push(nodes.len() - 1);
    }
    if level.is_empty() {
        nodes.push((true, vec![]));
        level.push(0);
    }
    while level.len() > 1 {
        let mut next = vec![];
        for c in level.chunks(block.max(2)) {
            nodes.push((false, c.to_vec()));
            next.push(nodes.len() - 1);
        }
        level = next;
    }
    let root = level[0];
    // depth of every node and first key
    fn first_key(nodes: &[(bool, Vec<usize>)], n: usize) -> usize {
        if nodes[n].0 {
            nodes[n].1[0]
        } else {
            first_key(nodes, nodes[n].1[0])
        }
    }
    let mut order: Vec<usize> = vec![];
    if level_order {
        let mut cur = vec![root];
        while !cur.is_empty() {
            let mut next = vec![];
            for n in &cur {
                order.push(*n);
                if !nodes[*n].0 {
                    next.extend(nodes[*n].1.iter().cloned());
                }
            }
            cur = next;
        }
    } else {
        fn dfs(nodes: &[(bool, Vec<usize>)], n: usize, order: &mut Vec<usize>) {
            order.push(n);
            if !nodes[n].0 {
                for c in &nodes[n].1 {
                    dfs(nodes, *c, order);
                }
            }
        }
        dfs(&nodes, root, &mut order);
    }
    let size_of = |n: usize| 4 + (key_size as u64 + 8) * nodes[n].1.len() as u64;
    let mut offs = vec![0u64; nodes.len()];
    let mut p = w.pos();
    for n in &order {
        offs[*n] = p;
        p += size_of(*n);
    }
    for n in &order {
        let (is_leaf, items) = &nodes[*n];
        w.u8(if *is_leaf { 1 } else { 0 });
        w.u8(0);
        w.u16(items.len() as u16);
        for it in items {
            let name = if *is_leaf { &chroms[*it].0 } else { &chroms[first_key(&nodes, *it)].0 };
            let mut k = name.as_bytes().to_vec();
            k.resize(key_size, 0);
            w.bytes(&k);
            if *is_leaf {
                w.u32(chroms[*it].1);
                w.u32(chroms[*it].2);
            } else {
                w.u64(offs[*it]);
            }
        }
    }
    off
}

fn pack(w_le: bool, data: Vec<u8>, compress: bool) -> (Vec<u8>, usize) {
    let _ = w_le;
    let n = data.len();
    if compress {
        (compress_to_vec_zlib(&data, 6), n)
    } else {
        (data, n)
    }
}

#[derive(Clone, Debug, PartialEq)]
pub struct ZRecE {
    pub chrom: u32,
    pub start: u32,
    pub end: u32,
    pub valid: u32,
    pub min: f32,
    pub max: f32,
    pub sum: f32,
    pub sumsq: f32,
}

pub struct Encoded {
    pub bytes: Vec<u8>,
    /// chromosomes in key order: (name, id, size)
    pub chroms: Vec<(String, u32, u32)>,
    /// per chromosome id: bigWig values / bigBed entries in file order
    pub wig: Vec<Vec<(u32, u32, f32)>>,
    pub bed: Vec<Vec<(u32, u32, String)>>,
    pub zooms: Vec<(u32, Vec<ZRecE>)>,
    pub data_count: u64,
    /// (bases, min, max, sum, sumsq) written to the total summary (None for version 1)
    pub summary: Option<(u64, f64, f64, f64, f64)>,
}

pub fn encode(spec: &EncSpec) -> Encoded {
    let le = spec.le;
    let mut w = W { b: vec![], le };
    let mut order: Vec<usize> = (0..spec.chroms.len()).collect();
    order.sort_by(|a, b| spec.chroms[*a].name.as_bytes().cmp(spec.chroms[*b].name.as_bytes()));
    if spec.chrom_ids_in_given_order && spec.chrom_block >= spec.chroms.len() {
        order.reverse();
    }
    if spec.chrom_ids_reverse_of_keys && !spec.chrom_ids_in_given_order {
        order.reverse();
    }
    // in id order; the tree lists them in key order when ids and keys run in opposite directions
    let mut chroms: Vec<(String, u32, u32)> = order.iter().enumerate().map(|(id, i)| (spec.chroms[*i].name.clone(), id as u32, spec.chroms[*i].size)).collect();
    if spec.chrom_ids_reverse_of_keys && !spec.chrom_ids_in_given_order {
        chroms.sort_by(|a, b| a.0.as_bytes().cmp(b.0.as_bytes()));
    }
    let magic = if spec.bed { super::indep::BIGBED_MAGIC } else { super::indep::BIGWIG_MAGIC };
    // header placeholder
    w.bytes(&[0u8; 64]);
    w.bytes(&vec![0u8; 24 * spec.zooms.len()]);
    let autosql_off = match (&spec.autosql, spec.bed) {
        (Some(a), true) => {
            let o = w.pos();
            w.bytes(a.as_bytes());
            w.u8(0);
            o
        }
        _ => 0,
    };
    let summary_off = if spec.version >= 2 && !spec.no_summary {
        let o = w.pos();
        w.bytes(&[0u8; 40]);
        o
    } else {
        0
    };
    let chrom_tree_off = write_chrom_tree(&mut w, &chroms, spec.chrom_block, spec.chrom_level_order);
    let data_off = w.pos();
    w.u64(0);
    // data blocks
    let mut leaves: Vec<LeafItem> = vec![];
    let mut pending: Vec<Vec<u8>> = vec![];
    let mut max_unc = 0usize;
    let mut wig: Vec<Vec<(u32, u32, f32)>> = vec![vec![]; chroms.len()];
    let mut bed: Vec<Vec<(u32, u32, String)>> = vec![vec![]; chroms.len()];
    let mut data_count = 0u64;
    for (id, ci) in order.iter().enumerate() {
        let ch = &spec.chroms[*ci];
        if spec.bed {
            for block in &ch.bed {
                let mut d = W { b: vec![], le };
                for (s, e, rest) in block {
                    d.u32(id as u32);
                    d.u32(*s);
                    d.u32(*e);
                    d.bytes(rest.as_bytes());
                    d.u8(0);
                    bed[id].push((*s, *e, rest.clone()));
                    data_count += 1;
                }
                let (bytes, unc) = pack(le, d.b, spec.compress);
                max_unc = max_unc.max(unc);
                let off = pending.len() as u64;
                pending.push(bytes.clone());
                leaves.push(LeafItem {
                    chrom_s: id as u32,
                    start: block.iter().map(|x| x.0).min().unwrap(),
                    chrom_e: id as u32,
                    end: block.iter().map(|x| x.1).max().unwrap(),
                    off,
                    size: bytes.len() as u64,
                });
            }
        } else {
            for sec in &ch.wig {
                let items = sec.items();
                let mut d = W { b: vec![], le };
                let start = items.iter().map(|x| x.0).min().unwrap();
                let end = items.iter().map(|x| x.1).max().unwrap();
                d.u32(id as u32);
                d.u32(start);
                d.u32(end);
                match sec {
                    WigSec::T1(v) => {
                        d.u32(0);
                        d.u32(0);
                        d.u8(1);
                        d.u8(0);
                        d.u16(v.len() as u16);
                        for (s, e, x) in v {
                            d.u32(*s);
                            d.u32(*e);
                            d.f32(*x);
                        }
                    }
                    WigSec::T2(span, v) => {
                        d.u32(0);
                        d.u32(*span);
                        d.u8(2);
                        d.u8(0);
                        d.u16(v.len() as u16);
                        for (s, x) in v {
                            d.u32(*s);
                            d.f32(*x);
                        }
                    }
                    WigSec::T3(_, step, span, v) => {
                        d.u32(*step);
                        d.u32(*span);
                        d.u8(3);
                        d.u8(0);
                        d.u16(v.len() as u16);
                        for x in v {
                            d.f32(*x);
                        }
                    }
                }
                wig[id].extend(items);
                data_count += 1;
                let (bytes, unc) = pack(le, d.b, spec.compress);
                max_unc = max_unc.max(unc);
                let off = pending.len() as u64;
                pending.push(bytes.clone());
                leaves.push(LeafItem { chrom_s: id as u32, start, chrom_e: id as u32, end, off, size: bytes.len() as u64 });
            }
        }
    }
    // the blocks go into the file now: in genomic order, or (BlocksReversed) last block first
    {
        let order: Vec<usize> = if spec.placement == Placement::BlocksReversed { (0..pending.len()).rev().collect() } else { (0..pending.len()).collect() };
        let mut offs = vec![0u64; pending.len()];
        for i in order {
            offs[i] = w.pos();
            w.bytes(&pending[i]);
        }
        for l in leaves.iter_mut() {
            l.off = offs[l.off as usize];
        }
    }
    let end_of_data = w.pos();
    let main_ips = 64u32;
    let mut index_off = 0u64;
    if !spec.index_last {
        index_off = write_rtree(&mut w, &shape(leaves.clone(), spec.fanout, spec.placement), spec.fanout, leaves.len() as u64, main_ips, end_of_data, spec.placement);
    }
    // zoom levels from the per-base signal
    let mut zooms_out = vec![];
    let mut zoom_hdrs = vec![];
    for &res in &spec.zooms {
        let mut recs: Vec<ZRecE> = vec![];
        for (id, ch) in chroms.iter().enumerate() {
            let mut sig: Vec<Option<f64>> = vec![None; ch.2 as usize];
            if spec.bed {
                for (s, e, _) in &bed[id] {
                    for b in *s..(*e).min(ch.2) {
                        sig[b as usize] = Some(sig[b as usize].unwrap_or(0.0) + 1.0);
                    }
                }
            } else {
                for (s, e, v) in &wig[id] {
                    for b in *s..(*e).min(ch.2) {
                        sig[b as usize] = Some(*v as f64);
                    }
                }
            }
            let mut t = 0u32;
            while t < ch.2 {
                let te = (t + res).min(ch.2);
                let vals: Vec<f64> = sig[t as usize..te as usize].iter().flatten().cloned().collect();
                if !vals.is_empty() {
                    recs.push(ZRecE {
                        chrom: id as u32,
                        start: t,
                        end: te,
                        valid: vals.len() as u32,
                        min: vals.iter().cloned().fold(f64::INFINITY, f64::min) as f32,
                        max: vals.iter().cloned().fold(f64::NEG_INFINITY, f64::max) as f32,
                        sum: vals.iter().sum::<f64>() as f32,
                        sumsq: vals.iter().map(|x| x * x).sum::<f64>() as f32,
                    });
                }
                t = te;
            }
        }
        let zdata_off = w.pos();
        // blocks
        let mut blocks: Vec<Vec<ZRecE>> = vec![];
        for r in &recs {
            let new_block = match blocks.last() {
                None => true,
                Some(b) => b.len() >= spec.zoom_ips || (!spec.zoom_blocks_span_chroms && b[0].chrom != r.chrom),
            };
            if new_block {
                blocks.push(vec![]);
            }
            blocks.last_mut().unwrap().push(r.clone());
        }
        let mut zleaves = vec![];
        for b in &blocks {
            let mut d = W { b: vec![], le };
            for r in b {
                d.u32(r.chrom);
                d.u32(r.start);
                d.u32(r.end);
                d.u32(r.valid);
                d.f32(r.min);
                d.f32(r.max);
                d.f32(r.sum);
                d.f32(r.sumsq);
            }
            let (bytes, unc) = pack(le, d.b, spec.compress);
            max_unc = max_unc.max(unc);
            let off = w.pos();
            w.bytes(&bytes);
            let first = &b[0];
            let last = b.last().unwrap();
            let end = b.iter().filter(|r| r.chrom == last.chrom).map(|r| r.end).max().unwrap();
            zleaves.push(LeafItem { chrom_s: first.chrom, start: first.start, chrom_e: last.chrom, end, off, size: bytes.len() as u64 });
        }
        let zend = w.pos();
        let zindex_off = write_rtree(&mut w, &shape(zleaves.clone(), spec.fanout, spec.placement), spec.fanout, zleaves.len() as u64, spec.zoom_ips as u32, zend, if spec.placement == Placement::ChildrenFirst { Placement::LevelOrder } else { spec.placement });
        zoom_hdrs.push((res, zdata_off, zindex_off));
        zooms_out.push((res, recs));
    }
    if spec.index_last {
        index_off = write_rtree(&mut w, &shape(leaves.clone(), spec.fanout, spec.placement), spec.fanout, leaves.len() as u64, main_ips, end_of_data, spec.placement);
    }
    if spec.trailing_magic {
        w.u32(magic);
    }
    // summary
    let mut summary = None;
    if summary_off != 0 {
        let mut bases = 0u64;
        let mut mn = f64::INFINITY;
        let mut mx = f64::NEG_INFINITY;
        let mut sum = 0.0;
        let mut sumsq = 0.0;
        for (id, ch) in chroms.iter().enumerate() {
            let mut sig: Vec<Option<f64>> = vec![None; ch.2 as usize];
            if spec.bed {
                for (s, e, _) in &bed[id] {
                    for b in *s..(*e).min(ch.2) {
                        sig[b as usize] = Some(sig[b as usize].unwrap_or(0.0) + 1.0);
                    }
                }
            } else {
                for (s, e, v) in &wig[id] {
                    for b in *s..(*e).min(ch.2) {
                        sig[b as usize] = Some(*v as f64);
                    }
                }
            }
            for v in sig.iter().flatten() {
                bases += 1;
                mn = mn.min(*v);
                mx = mx.max(*v);
                sum += v;
                sumsq += v * v;
            }
        }
        if bases == 0 {
            mn = 0.0;
            mx = 0.0;
        }
        summary = Some((bases, mn, mx, sum, sumsq));
        let mut s = W { b: vec![], le };
        s.u64(bases);
        s.f64(mn);
        s.f64(mx);
        s.f64(sum);
        s.f64(sumsq);
        w.b[summary_off as usize..summary_off as usize + 40].copy_from_slice(&s.b);
    }
    w.patch_u64(data_off as usize, data_count);
    // header
    let mut h = W { b: vec![], le };
    h.u32(magic);
    h.u16(spec.version);
    h.u16(spec.zooms.len() as u16);
    h.u64(chrom_tree_off);
    h.u64(data_off);
    h.u64(index_off);
    let fc = if spec.bed { 3 + spec.chroms.iter().flat_map(|c| c.bed.iter().flatten()).map(|e| if e.2.is_empty() { 0 } else { e.2.split('\t').count() }).max().unwrap_or(0) as u16 } else { 0 };
    h.u16(fc);
    h.u16(if spec.bed { fc.min(12) } else { 0 });
    h.u64(autosql_off);
    h.u64(summary_off);
    h.u32(if spec.compress && spec.version >= 3 { max_unc as u32 } else { 0 });
    h.u64(0);
    for (res, d, i) in &zoom_hdrs {
        h.u32(*res);
        h.u32(0);
        h.u64(*d);
        h.u64(*i);
    }
    let hl = h.b.len();
    w.b[..hl].copy_from_slice(&h.b);
    let _ = W::patch_u32;
    Encoded { bytes: w.b, chroms, wig, bed, zooms: zooms_out, data_count, summary }
}
