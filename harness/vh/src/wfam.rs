//! Writer-family checks: C01, C02, C06, C07, C08, C09 — one enumerator, several oracles.
use crate::drive::*;
use crate::indep;
use crate::model::*;
use crate::refm::*;
use crate::sup::*;
use bigtools::{BigBedRead, BigWigRead};
use serde::{Deserialize, Serialize};
use serde_json::json;
use std::io::Cursor;

#[derive(Clone, Debug, Serialize, Deserialize)]
pub enum FileCase {
    Wig(WigCase),
    Bed(BedCase),
    /// generated: n adjacent 1-base values on one chromosome of length n+4, items_per_slot ips
    WigBig { n: u32, opts: Opts },
    BedBig { n: u32, opts: Opts },
    /// generated: n chromosomes (names sort in input order) with 1-3 items each
    WigMany { n: u32, opts: Opts },
    BedMany { n: u32, opts: Opts },
    /// chromosomes of very different lengths (100 000 / 50 / 7 bases) with data far out on the long
    /// one: arrangement `arr` (see `uneven_chroms`)
    WigUneven { arr: u32, opts: Opts },
    BedUneven { arr: u32, opts: Opts },
    /// chromosome names of unusual shape (prefix chains, 255 / 256 / 1000 bytes, non-ASCII): name
    /// set `set` (see `name_sets`), core layouts rotated over the chromosomes
    WigNames { set: u32, lay: u32, opts: Opts },
    BedNames { set: u32, lay: u32, opts: Opts },
    /// entries of 2*10^7 and 3*10^6 bases, stacked (products of length and depth beyond 2^24) on
    /// chromosomes of 10^8 bases; variant 1 adds entries that reach beyond the chromosome end
    BedLongSpans { variant: u32, opts: Opts },
    /// 16-base chromosomes with entries that start inside and end beyond the chromosome end
    BedBeyondEnd { lay: u32, opts: Opts },
    /// 1 000 one-base values 6 000 bases apart at the start of a chromosome of 4 * 10^9 bases (the
    /// automatic zoom list runs to the end of its candidate table), and the u32-limit chromosomes
    WigHugeSparse { opts: Opts },
    /// sparse data at one scale, dense at the next: variant 0 = 2 100 one-base items 1 000 bases
    /// apart, variant 1 = 1 500 clusters of 20 adjacent values 1 000 bases apart (automatic zoom
    /// levels are then kept, dropped and kept again)
    WigSparse { variant: u32, opts: Opts },
    BedSparse { variant: u32, opts: Opts },
    /// medium-size input: chromosomes of 200 / 30 000 / 300 items (the long one has well over 64 KiB
    /// of text and of encoded sections, several zoom levels of 8 KiB and more, automatic zoom
    /// levels that are kept and dropped), optionally into a destination that accepts at most
    /// `cap` bytes per write call (0 = no limit)
    WigMid { cap: u32, opts: Opts },
    BedMid { cap: u32, opts: Opts },
    /// sections of 8 KiB and more (uncompressed, 1024 items per slot, `n` items on each of two
    /// chromosomes) written into a destination that accepts at most `cap` bytes per write call
    WigShortSink { n: u32, cap: u32, opts: Opts },
    BedShortSink { n: u32, cap: u32, opts: Opts },
    /// chromosomes as long as u32 allows with items at 2^31 and at the very end (C01/C02 only: the
    /// other oracles use per-base arrays)
    WigHuge { opts: Opts },
    BedHuge { opts: Opts },
    /// text sources larger than the line reader's 8 KiB buffer whose multi-byte characters fall on
    /// every alignment relative to the buffer refills: 400 entries with CJK `rest` fields (bigBed) /
    /// 1 500 values on chromosomes with CJK names (bigWig); `shift` ASCII bytes in front move the
    /// alignment
    BedBigText { shift: u32, opts: Opts },
    WigBigText { shift: u32, opts: Opts },
    /// two chromosomes of 40 entries; three entries in the middle of the first carry 150 000 bytes of
    /// hardly compressible text (sections of 64 KiB and more that follow smaller sections)
    BedBigLater { opts: Opts },
    /// one chromosome, three entries, the first with a `rest` of exactly `len` bytes
    BedLongRest { len: u32, opts: Opts },
    /// one chromosome, two entries, a supplied autoSql of exactly `len` bytes
    BedLongSql { len: u32, opts: Opts },
    /// n chromosomes named chr1 .. chrN in that (karyotype, not byte) order, out-of-order
    /// chromosomes allowed: name lookups must not assume sorted names
    WigKaryo { n: u32, opts: Opts },
    BedKaryo { n: u32, opts: Opts },
    /// three chromosomes of which the one at `pos` covers no base: kind 0 = it has zero-length items
    /// only, kind 1 = it is started by the source without any item (`SrcKind::Started` only).  The
    /// other two carry data whose values are all positive (sign 0) or all negative (sign 1): the
    /// hollow chromosome contributes no minimum and no maximum
    /// entries whose `rest` ends in white space or is white space only (an empty last column, a name
    /// ending in a blank, a no-break space): handed over by sources that do not go through text,
    /// they are stored and come back byte for byte
    BedRestEdges { opts: Opts },
    /// entries whose `rest` ends in a control character that is not white space (DEL, ESC, SOH): text
    /// sources strip white space from the end of a line, nothing else
    BedRestCtl { opts: Opts },
    /// `n` identical entries on one stretch (a pile: the depth and its square leave the integers
    /// that single precision holds at 4 097) plus a few staggered ones
    BedPile { n: u32, opts: Opts },
    WigHollow { pos: u32, kind: u32, sign: u32, opts: Opts },
    BedHollow { pos: u32, kind: u32, opts: Opts },
    /// bigwiginfo / bigbedinfo on an encoder-written file (C06 tool part)
    Info(crate::clifam::InfoTool),
    /// `bigbedtobed --zoom` on a file written by the library (C08 tool part)
    ZoomTool(BedCase),
}

impl FileCase {
    pub fn into_wig(self) -> Option<WigCase> {
        match self {
            FileCase::Wig(c) => Some(c),
            _ => None,
        }
    }
    pub fn into_bed(self) -> Option<BedCase> {
        match self {
            FileCase::Bed(c) => Some(c),
            _ => None,
        }
    }
}

pub fn expand(c: &FileCase) -> FileCase {
    match c {
        FileCase::WigBig { n, opts } => {
            let items = (0..*n)
                .map(|i| WItem {
                    s: i,
                    e: i + 1,
                    vb: ((i % 7) as f32).to_bits(),
                })
                .collect();
            FileCase::Wig(WigCase {
                chroms: vec![WChrom {
                    name: "big".into(),
                    len: n + 4,
                    items,
                }],
                extra_sizes: vec![],
                allow_ooo: false,
                opts: opts.clone(),
            })
        }
        FileCase::BedBig { n, opts } => {
            let items = (0..*n)
                .map(|i| BItem {
                    s: i,
                    e: i + 2,
                    rest: String::new(),
                })
                .collect();
            FileCase::Bed(BedCase {
                chroms: vec![BChrom {
                    name: "big".into(),
                    len: n + 4,
                    items,
                }],
                extra_sizes: vec![],
                allow_ooo: false,
                autosql: None,
                opts: opts.clone(),
            })
        }
        FileCase::BedRestEdges { opts } => {
            let rests = ["name\t", "gene A ", "\t\t", " ", "x\u{a0}", "plain", "", "a\tb\t", "\tlead"];
            let mk = |off: u32| -> Vec<BItem> { rests.iter().enumerate().map(|(i, r)| BItem { s: off + i as u32, e: off + i as u32 + 2, rest: r.to_string() }).collect() };
            FileCase::Bed(BedCase { chroms: vec![BChrom { name: "c".into(), len: L, items: mk(0) }, BChrom { name: "d".into(), len: L, items: mk(3) }], extra_sizes: vec![], allow_ooo: false, autosql: None, opts: opts.clone() })
        }
        FileCase::BedRestCtl { opts } => {
            let rests = ["name\t9\u{7f}", "x\u{1b}", "y\t\u{1}", "plain", "\u{7f}", "a\u{8}b\u{8}"];
            let mk = |off: u32| -> Vec<BItem> { rests.iter().enumerate().map(|(i, r)| BItem { s: off + i as u32, e: off + i as u32 + 3, rest: r.to_string() }).collect() };
            FileCase::Bed(BedCase { chroms: vec![BChrom { name: "c".into(), len: L, items: mk(0) }, BChrom { name: "d".into(), len: L, items: mk(2) }], extra_sizes: vec![], allow_ooo: false, autosql: None, opts: opts.clone() })
        }
        FileCase::BedPile { n, opts } => {
            let mut items: Vec<BItem> = (0..*n).map(|i| BItem { s: 10, e: 30, rest: format!("p{}", i) }).collect();
            items.extend([(10u32, 31u32), (12, 20), (29, 40), (50, 51)].into_iter().enumerate().map(|(i, (s, e))| BItem { s, e, rest: format!("q{}", i) }));
            FileCase::Bed(BedCase { chroms: vec![BChrom { name: "pile".into(), len: 100, items }, BChrom { name: "quiet".into(), len: 100, items: vec![BItem { s: 1, e: 9, rest: "r".into() }] }], extra_sizes: vec![], allow_ooo: false, autosql: None, opts: opts.clone() })
        }
        FileCase::WigHollow { pos, kind, sign, opts } => {
            let sg = if *sign == 1 { -1.0f32 } else { 1.0 };
            let full = [vec![(0u32, 3u32, 2.5f32), (3, 4, 1.5), (9, 12, 4.0)], vec![(2, 5, 3.0), (5, 6, 7.25)]];
            let mut k = 0;
            FileCase::Wig(WigCase {
                chroms: (0..3u32)
                    .map(|ci| WChrom {
                        name: format!("h{}", ci + 1),
                        len: L,
                        items: if ci == *pos {
                            if *kind == 0 { vec![WItem { s: 3, e: 3, vb: (sg * 9.0).to_bits() }, WItem { s: 7, e: 7, vb: (sg * 0.25).to_bits() }] } else { vec![] }
                        } else {
                            k += 1;
                            full[k - 1].iter().map(|(s, e, v)| WItem { s: *s, e: *e, vb: (sg * v).to_bits() }).collect()
                        },
                    })
                    .collect(),
                extra_sizes: vec![],
                allow_ooo: false,
                opts: opts.clone(),
            })
        }
        FileCase::BedHollow { pos, kind, opts } => {
            let core = core_bed_layouts();
            let full = [&core[2], &core[7]];
            let mut k = 0;
            FileCase::Bed(BedCase {
                chroms: (0..3u32)
                    .map(|ci| BChrom {
                        name: format!("h{}", ci + 1),
                        len: L,
                        items: if ci == *pos {
                            if *kind == 0 { vec![BItem { s: 3, e: 3, rest: "z1".into() }, BItem { s: 7, e: 7, rest: "z2".into() }] } else { vec![] }
                        } else {
                            k += 1;
                            bed_items(full[k - 1], ci as usize)
                        },
                    })
                    .collect(),
                extra_sizes: vec![],
                allow_ooo: false,
                autosql: None,
                opts: opts.clone(),
            })
        }
        FileCase::WigKaryo { n, opts } => FileCase::Wig(WigCase {
            chroms: (0..*n)
                .map(|ci| WChrom {
                    name: format!("chr{}", ci + 1),
                    len: L,
                    items: (0..(1 + ci % 3)).map(|i| WItem { s: 2 * i + ci % 5, e: 2 * i + ci % 5 + 1 + (ci % 2), vb: ((ci % 9) as f32 + 0.5 * i as f32).to_bits() }).collect(),
                })
                .collect(),
            extra_sizes: vec![],
            allow_ooo: true,
            opts: opts.clone(),
        }),
        FileCase::BedKaryo { n, opts } => FileCase::Bed(BedCase {
            chroms: (0..*n)
                .map(|ci| BChrom {
                    name: format!("chr{}", ci + 1),
                    len: L,
                    items: (0..(1 + ci % 3)).map(|i| BItem { s: i + ci % 5, e: i + ci % 5 + 3 + (ci % 4), rest: format!("k{}_{}", ci, i) }).collect(),
                })
                .collect(),
            extra_sizes: vec![],
            allow_ooo: true,
            autosql: None,
            opts: opts.clone(),
        }),
        FileCase::WigMany { n, opts } => FileCase::Wig(WigCase {
            chroms: (0..*n)
                .map(|ci| WChrom {
                    name: format!("m{:04}", ci),
                    len: L,
                    items: (0..(1 + ci % 3)).map(|i| WItem { s: 2 * i + ci % 5, e: 2 * i + ci % 5 + 1 + (ci % 2), vb: ((ci % 9) as f32 + 0.5 * i as f32).to_bits() }).collect(),
                })
                .collect(),
            extra_sizes: vec![],
            allow_ooo: false,
            opts: opts.clone(),
        }),
        FileCase::BedMany { n, opts } => FileCase::Bed(BedCase {
            chroms: (0..*n)
                .map(|ci| BChrom {
                    name: format!("m{:04}", ci),
                    len: L,
                    items: (0..(1 + ci % 3)).map(|i| BItem { s: i + ci % 5, e: i + ci % 5 + 3 + (ci % 4), rest: format!("r{}_{}", ci, i) }).collect(),
                })
                .collect(),
            extra_sizes: vec![],
            allow_ooo: false,
            autosql: None,
            opts: opts.clone(),
        }),
        FileCase::WigUneven { arr, opts } => FileCase::Wig(WigCase {
            chroms: uneven_chroms(*arr)
                .into_iter()
                .enumerate()
                .map(|(ci, (name, len, items))| WChrom {
                    name,
                    len,
                    items: items.into_iter().enumerate().map(|(i, (s, e))| WItem { s, e, vb: (1.0 + ci as f32 * 4.0 + i as f32).to_bits() }).collect(),
                })
                .collect(),
            extra_sizes: vec![],
            allow_ooo: false,
            opts: opts.clone(),
        }),
        FileCase::BedUneven { arr, opts } => FileCase::Bed(BedCase {
            chroms: uneven_chroms(*arr)
                .into_iter()
                .enumerate()
                .map(|(ci, (name, len, items))| BChrom {
                    name,
                    len,
                    items: items.into_iter().enumerate().map(|(i, (s, e))| BItem { s, e, rest: format!("u{}_{}", ci, i) }).collect(),
                })
                .collect(),
            extra_sizes: vec![],
            allow_ooo: false,
            autosql: None,
            opts: opts.clone(),
        }),
        FileCase::WigNames { set, lay, opts } => {
            let core = core_wig_layouts();
            FileCase::Wig(WigCase {
                chroms: name_sets()[*set as usize]
                    .iter()
                    .enumerate()
                    .map(|(ci, n)| WChrom { name: n.clone(), len: L, items: wig_items(&core[(*lay as usize + ci * 3) % core.len()], *lay as usize + ci, ci) })
                    .collect(),
                extra_sizes: vec![],
                allow_ooo: false,
                opts: opts.clone(),
            })
        }
        FileCase::BedNames { set, lay, opts } => {
            let core = core_bed_layouts();
            FileCase::Bed(BedCase {
                chroms: name_sets()[*set as usize]
                    .iter()
                    .enumerate()
                    .map(|(ci, n)| BChrom { name: n.clone(), len: L, items: bed_items(&core[(*lay as usize + ci * 3) % core.len()], *lay as usize + ci) })
                    .collect(),
                extra_sizes: vec![],
                allow_ooo: false,
                autosql: None,
                opts: opts.clone(),
            })
        }
        FileCase::BedLongSpans { variant, opts } => {
            let mut a = vec![(10u32, 20_000_011u32), (30_000_000, 33_000_001), (30_000_000, 33_000_001), (30_000_000, 33_000_001), (40_000_000, 40_000_003)];
            let mut b = vec![(0u32, 16_777_217u32), (5, 16_777_222), (50_000_000, 99_999_999)];
            if *variant == 1 {
                a.push((99_999_990, 100_000_700));
                b.push((99_999_999, 100_000_001));
            }
            FileCase::Bed(BedCase {
                chroms: [("g1", a), ("g2", b)]
                    .into_iter()
                    .enumerate()
                    .map(|(ci, (n, items))| BChrom { name: n.to_string(), len: 100_000_000, items: items.into_iter().enumerate().map(|(i, (s, e))| BItem { s, e, rest: format!("g{}_{}", ci, i) }).collect() })
                    .collect(),
                extra_sizes: vec![],
                allow_ooo: false,
                autosql: None,
                opts: opts.clone(),
            })
        }
        FileCase::BedBeyondEnd { lay, opts } => {
            let lays: [Vec<(u32, u32)>; 4] = [vec![(10, 20)], vec![(2, 5), (14, 40), (15, 16)], vec![(0, 16), (15, 17), (15, 300)], vec![(3, 3), (12, 18), (12, 18), (13, 100_000)]];
            FileCase::Bed(BedCase {
                chroms: vec![
                    BChrom { name: "c".into(), len: L, items: lays[*lay as usize % 4].iter().enumerate().map(|(i, (s, e))| BItem { s: *s, e: *e, rest: format!("x{}", i) }).collect() },
                    BChrom { name: "d".into(), len: L, items: lays[(*lay as usize + 1) % 4].iter().enumerate().map(|(i, (s, e))| BItem { s: *s, e: *e, rest: format!("y{}", i) }).collect() },
                ],
                extra_sizes: vec![],
                allow_ooo: false,
                autosql: None,
                opts: opts.clone(),
            })
        }
        FileCase::WigHugeSparse { opts } => FileCase::Wig(WigCase {
            chroms: vec![WChrom { name: "hs".into(), len: 4_000_000_000, items: (0..1000u32).map(|i| WItem { s: 6000 * i, e: 6000 * i + 1, vb: ((i % 7) as f32 + 1.0).to_bits() }).collect() }],
            extra_sizes: vec![],
            allow_ooo: false,
            opts: opts.clone(),
        }),
        FileCase::WigSparse { variant, opts } => {
            let mut items = vec![];
            if *variant == 0 {
                for i in 0..2100u32 {
                    items.push(WItem { s: 1000 * i + 7, e: 1000 * i + 8, vb: ((i % 13) as f32 + 0.5).to_bits() });
                }
            } else {
                for c in 0..1500u32 {
                    for j in 0..20u32 {
                        items.push(WItem { s: 1000 * c + j, e: 1000 * c + j + 1, vb: (((c + j) % 17) as f32 * 0.5).to_bits() });
                    }
                }
            }
            FileCase::Wig(WigCase { chroms: vec![WChrom { name: "sp".into(), len: 2_200_000, items }], extra_sizes: vec![], allow_ooo: false, opts: opts.clone() })
        }
        FileCase::BedSparse { variant, opts } => {
            let mut items = vec![];
            let name = |i: u32| format!("{:016x}{:016x}{:016x}", (i as u64 + 1).wrapping_mul(0x9e3779b97f4a7c15), (i as u64 + 7).wrapping_mul(0xc2b2ae3d27d4eb4f), (i as u64 + 3).wrapping_mul(0x165667b19e3779f9));
            if *variant == 0 {
                for i in 0..2100u32 {
                    items.push(BItem { s: 1000 * i + 7, e: 1000 * i + 8, rest: name(i) });
                }
            } else {
                for c in 0..1500u32 {
                    for j in 0..20u32 {
                        items.push(BItem { s: 1000 * c + j, e: 1000 * c + j + 2, rest: name(c * 20 + j) });
                    }
                }
            }
            FileCase::Bed(BedCase { chroms: vec![BChrom { name: "sp".into(), len: 2_200_000, items }], extra_sizes: vec![], allow_ooo: false, autosql: None, opts: opts.clone() })
        }
        FileCase::WigMid { opts, .. } => FileCase::Wig(WigCase {
            chroms: [("m1", 200u32), ("m2", 30_000), ("m3", 300)]
                .iter()
                .enumerate()
                .map(|(ci, (name, n))| WChrom {
                    name: name.to_string(),
                    len: 100_000,
                    // clusters of adjacent values separated by gaps of 0 / 1 / 7 bases and one of 1 000
                    items: (0..*n)
                        .map(|i| {
                            let s = 3 * i + if i > n / 2 { 1000 } else { 0 } + (i / 97) % 2;
                            WItem { s, e: s + 1 + (i % 2), vb: (((i * 7 + ci as u32) % 257) as f32 * 0.25 - 8.0).to_bits() }
                        })
                        .collect(),
                })
                .collect(),
            extra_sizes: vec![],
            allow_ooo: false,
            opts: opts.clone(),
        }),
        FileCase::BedMid { opts, .. } => FileCase::Bed(BedCase {
            chroms: [("m1", 200u32), ("m2", 30_000), ("m3", 300)]
                .iter()
                .enumerate()
                .map(|(ci, (name, n))| BChrom {
                    name: name.to_string(),
                    len: 100_000,
                    items: (0..*n)
                        .map(|i| {
                            let s = 3 * i + if i > n / 2 { 1000 } else { 0 };
                            // every 500th entry is long (nests the following ones), names are hardly compressible
                            let e = s + if i % 500 == 0 { 900 } else { 2 + (i % 4) };
                            BItem { s, e, rest: format!("n{:x}\t{}", (i as u64 + 1).wrapping_mul(0x9e3779b97f4a7c15) ^ ci as u64, i % 1000) }
                        })
                        .collect(),
                })
                .collect(),
            extra_sizes: vec![],
            allow_ooo: false,
            autosql: None,
            opts: opts.clone(),
        }),
        FileCase::WigShortSink { n, opts, .. } => FileCase::Wig(WigCase {
            chroms: ["s1", "s2"]
                .iter()
                .enumerate()
                .map(|(ci, name)| WChrom {
                    name: name.to_string(),
                    len: 3 * n + 10,
                    items: (0..*n).map(|i| WItem { s: 3 * i, e: 3 * i + 2, vb: ((i % 251) as f32 * 0.37 + ci as f32).to_bits() }).collect(),
                })
                .collect(),
            extra_sizes: vec![],
            allow_ooo: false,
            opts: opts.clone(),
        }),
        FileCase::BedShortSink { n, opts, .. } => FileCase::Bed(BedCase {
            chroms: ["s1", "s2"]
                .iter()
                .enumerate()
                .map(|(ci, name)| BChrom {
                    name: name.to_string(),
                    len: 3 * n + 10,
                    items: (0..*n).map(|i| BItem { s: 3 * i, e: 3 * i + 4, rest: format!("e{}_{}", ci, i) }).collect(),
                })
                .collect(),
            extra_sizes: vec![],
            allow_ooo: false,
            autosql: None,
            opts: opts.clone(),
        }),
        FileCase::WigHuge { opts } => FileCase::Wig(WigCase {
            chroms: huge_chroms()
                .into_iter()
                .enumerate()
                .map(|(ci, (name, len, items))| WChrom { name, len, items: items.into_iter().enumerate().map(|(i, (s, e))| WItem { s, e, vb: (0.5 + ci as f32 + 4.0 * i as f32).to_bits() }).collect() })
                .collect(),
            extra_sizes: vec![],
            allow_ooo: false,
            opts: opts.clone(),
        }),
        FileCase::BedHuge { opts } => FileCase::Bed(BedCase {
            chroms: huge_chroms()
                .into_iter()
                .enumerate()
                .map(|(ci, (name, len, items))| BChrom { name, len, items: items.into_iter().enumerate().map(|(i, (s, e))| BItem { s, e, rest: format!("h{}_{}", ci, i) }).collect() })
                .collect(),
            extra_sizes: vec![],
            allow_ooo: false,
            autosql: None,
            opts: opts.clone(),
        }),
        FileCase::BedBigText { shift, opts } => FileCase::Bed(BedCase {
            chroms: vec![BChrom {
                name: "c".into(),
                len: 100_000,
                items: (0..400u32)
                    .map(|i| BItem {
                        s: 5 * i,
                        e: 5 * i + 7,
                        rest: format!(
                            "{}{}",
                            if i == 0 { "x".repeat(*shift as usize) } else { String::new() },
                            (0..30u32).map(|k| char::from_u32(0x4e00 + (i * 31 + k * 7) % 2000).unwrap()).collect::<String>()
                        ),
                    })
                    .collect(),
            }],
            extra_sizes: vec![],
            allow_ooo: false,
            autosql: None,
            opts: opts.clone(),
        }),
        FileCase::WigBigText { shift, opts } => FileCase::Wig(WigCase {
            chroms: (0..3u32)
                .map(|ci| WChrom {
                    // names sort in this order: the ASCII prefix differs
                    name: format!("{}{}\u{67d3}\u{8272}\u{4f53}", ["a", "b", "c"][ci as usize], "y".repeat(*shift as usize)),
                    len: 100_000,
                    items: (0..500u32).map(|i| WItem { s: 3 * i, e: 3 * i + 2, vb: ((i % 11) as f32 + ci as f32 * 0.5).to_bits() }).collect(),
                })
                .collect(),
            extra_sizes: vec![],
            allow_ooo: false,
            opts: opts.clone(),
        }),
        FileCase::BedBigLater { opts } => {
            let noise = |seed: u64, n: usize| -> String {
                let mut x = seed.wrapping_mul(0x9e3779b97f4a7c15) | 1;
                (0..n)
                    .map(|_| {
                        x ^= x << 13;
                        x ^= x >> 7;
                        x ^= x << 17;
                        (b'!' + (x % 90) as u8) as char
                    })
                    .map(|c| if c == '\t' { '_' } else { c })
                    .collect()
            };
            FileCase::Bed(BedCase {
                chroms: ["q1", "q2"]
                    .iter()
                    .enumerate()
                    .map(|(ci, name)| BChrom {
                        name: name.to_string(),
                        len: 1000,
                        items: (0..40u32)
                            .map(|i| BItem { s: 5 * i, e: 5 * i + 7, rest: if ci == 0 && [10, 20, 30].contains(&i) { noise(i as u64 + 1, 150_000) } else { format!("r{}_{}", ci, i) } })
                            .collect(),
                    })
                    .collect(),
                extra_sizes: vec![],
                allow_ooo: false,
                autosql: None,
                opts: opts.clone(),
            })
        }
        FileCase::BedLongRest { len, opts } => FileCase::Bed(BedCase {
            chroms: vec![BChrom {
                name: "c".into(),
                len: L,
                items: vec![
                    BItem { s: 1, e: 4, rest: (0..*len).map(|i| if i % 97 == 96 { '\t' } else { (b'A' + (i % 23) as u8) as char }).collect() },
                    BItem { s: 2, e: 9, rest: "n2".into() },
                    BItem { s: 9, e: 12, rest: "n3\t7".into() },
                ],
            }],
            extra_sizes: vec![],
            allow_ooo: false,
            autosql: None,
            opts: opts.clone(),
        }),
        FileCase::BedLongSql { len, opts } => FileCase::Bed(BedCase {
            chroms: vec![BChrom {
                name: "c".into(),
                len: L,
                items: vec![BItem { s: 1, e: 4, rest: "n1".into() }, BItem { s: 2, e: 9, rest: "n2".into() }],
            }],
            extra_sizes: vec![],
            allow_ooo: false,
            autosql: Some(long_schema(*len as usize).0),
            opts: opts.clone(),
        }),
        other => other.clone(),
    }
}

/// Chromosomes whose lengths differ by orders of magnitude, data far out on the long one: a
/// coordinate of one chromosome compared with a length or coordinate of another shows here and
/// nowhere in the 16-base alphabets.  Names sort in the given order.
pub fn uneven_chroms(arr: u32) -> Vec<(String, u32, Vec<(u32, u32)>)> {
    let long = |n: &str, items: Vec<(u32, u32)>| (n.to_string(), 100_000u32, items);
    let short = |n: &str| (n.to_string(), 50u32, vec![(5u32, 10u32), (20, 30), (40, 50)]);
    let tiny = |n: &str| (n.to_string(), 7u32, vec![(0u32, 7u32)]);
    match arr {
        0 => vec![long("u1", vec![(10, 12), (30_000, 30_005), (60_000, 60_001)]), short("u2")],
        1 => vec![short("u1"), long("u2", vec![(10, 12), (30_000, 30_005), (60_000, 60_001)]), tiny("u3")],
        2 => vec![long("u1", vec![(90_000, 90_001), (99_999, 100_000)]), short("u2"), tiny("u3")],
        3 => vec![long("u1", vec![(60_000, 60_001)]), short("u2"), long("u3", vec![(0, 1), (99_990, 100_000)])],
        _ => vec![tiny("u1"), long("u2", vec![(70_000, 70_010), (70_010, 70_020), (80_000, 80_001), (80_001, 80_002)]), short("u3"), tiny("u4")],
    }
}

/// Chromosome-name sets, each in ascending byte order: names that are prefixes of one another;
/// names of 255, 256 and 1000 bytes (the key size of the chromosome tree is the longest name);
/// multi-byte UTF-8 names; one very long and one one-letter name.
pub fn name_sets() -> Vec<Vec<String>> {
    vec![
        vec!["chr".into(), "chr1".into(), "chr10".into(), "chr100".into()],
        vec!["L".repeat(255), "L".repeat(256), "M".repeat(1000)],
        vec!["chr\u{e9}".into(), "chr\u{3b1}".into(), "chr\u{3b2}\u{3b2}".into()],
        vec!["a".into(), "z".repeat(300)],
        // names that are words of other formats: the columns are separated by tabs only, so a name
        // is whatever stands before the first tab
        vec!["#chrom".into(), "browser".into(), "chr1".into(), "track".into()],
        vec!["browser position".into(), "chr 1".into(), "track name=x".into()],
        vec!["1".into(), "10".into(), "2".into(), "NaN".into(), "X".into(), "inf".into()],
    ]
}

/// one of three chromosomes without a covered base, at every position, through every source that
/// can express it, single- and two-pass
pub fn hollow_cases(bed: bool) -> Vec<FileCase> {
    let mut v = vec![];
    for pos in 0..3u32 {
        for kind in 0..2u32 {
            let srcs: Vec<SrcKind> = if kind == 1 { vec![SrcKind::Started] } else { vec![SrcKind::Iter, SrcKind::SerialText, SrcKind::ParallelFile, SrcKind::Started] };
            for src in srcs {
                for two_pass in [false, true] {
                    for (ips, bs) in [(1u32, 2u32), (1024, 256)] {
                        let mut o = Opts::base();
                        o.ips = ips;
                        o.bs = bs;
                        o.two_pass = two_pass;
                        o.src = src;
                        o.compress = (pos + kind) % 2 == 0;
                        o.zoom = Zoom::Manual(vec![4]);
                        if bed {
                            v.push(FileCase::BedHollow { pos, kind, opts: o });
                        } else {
                            for sign in 0..2u32 {
                                v.push(FileCase::WigHollow { pos, kind, sign, opts: o.clone() });
                            }
                        }
                    }
                }
            }
        }
    }
    v
}

fn names_cases(bed: bool) -> Vec<FileCase> {
    let mut v = vec![];
    for set in 0..name_sets().len() as u32 {
        for lay in 0..3u32 {
            for (ips, bs) in [(1u32, 2u32), (1024, 256)] {
                for two_pass in [false, true] {
                    for src in [SrcKind::Iter, SrcKind::SerialText, SrcKind::ParallelFile] {
                        let mut o = Opts::base();
                        o.ips = ips;
                        o.bs = bs;
                        o.two_pass = two_pass;
                        o.src = src;
                        o.compress = (set + lay) % 2 == 0;
                        o.zoom = Zoom::Manual(vec![4]);
                        v.push(if bed { FileCase::BedNames { set, lay, opts: o } } else { FileCase::WigNames { set, lay, opts: o } });
                    }
                }
            }
        }
    }
    v
}

/// more manual zoom levels than the header has room for (13 and 16): the file's data must be
/// untouched by whatever happens to the surplus levels
fn many_zoom_cases(bed: bool) -> Vec<FileCase> {
    let mut v = vec![];
    for nz in [13u32, 16] {
        for (ips, bs) in [(1u32, 2u32), (1024, 256)] {
            for two_pass in [false, true] {
                for compress in [true, false] {
                    for lay in 0..3usize {
                        let mut o = Opts::base();
                        o.ips = ips;
                        o.bs = bs;
                        o.two_pass = two_pass;
                        o.compress = compress;
                        o.zoom = Zoom::Manual((2..2 + nz).collect());
                        v.push(if bed { FileCase::Bed(bed_multi(lay % chrom_sets().len(), lay, &o)) } else { FileCase::Wig(wig_multi(lay % chrom_sets().len(), lay, &o)) });
                    }
                }
            }
        }
    }
    v
}

pub fn huge_chroms() -> Vec<(String, u32, Vec<(u32, u32)>)> {
    vec![
        ("h1".to_string(), u32::MAX, vec![(0, 1), (2_147_483_647, 2_147_483_649), (4_294_967_290, u32::MAX)]),
        ("h2".to_string(), 3_000_000_000, vec![(2_999_999_990, 3_000_000_000)]),
        ("h3".to_string(), 16, vec![(1, 3), (3, 4), (9, 16)]),
    ]
}

pub fn sparse_cases(bed: bool) -> Vec<FileCase> {
    let mut v = vec![];
    for variant in 0..2u32 {
        for two_pass in [false, true] {
            for compress in [true, false] {
                let mut o = Opts::base();
                o.two_pass = two_pass;
                o.compress = compress;
                o.zoom = Zoom::AutoDefault;
                v.push(if bed { FileCase::BedSparse { variant, opts: o } } else { FileCase::WigSparse { variant, opts: o } });
            }
        }
    }
    v
}

/// Sets the destination write limit a case asks for (reset when the guard is dropped).
pub struct CapGuard;
impl Drop for CapGuard {
    fn drop(&mut self) {
        SINK_CAP.with(|x| x.set(None));
    }
}
pub fn case_sink(case: &FileCase, out: &mut Outcome) -> CapGuard {
    let cap = match case {
        FileCase::WigShortSink { cap, .. } | FileCase::BedShortSink { cap, .. } | FileCase::WigMid { cap, .. } | FileCase::BedMid { cap, .. } => *cap,
        _ => 0,
    };
    if cap > 0 {
        SINK_CAP.with(|x| x.set(Some(cap as usize)));
        out.count("files_written_into_a_short_writing_destination", 1);
    }
    if matches!(case, FileCase::WigMid { .. } | FileCase::BedMid { .. }) {
        out.count("medium_size_files", 1);
    }
    CapGuard
}

/// medium-size cases: a covering list over (slots, compression, pass, staging, source, runtime,
/// zoom list, destination write limit)
pub fn mid_cases(bed: bool) -> Vec<FileCase> {
    let mut v = vec![];
    let mut n = 0usize;
    for (ips, compress) in [(64u32, true), (1024, true), (1024, false), (8192, false)] {
        for two_pass in [false, true] {
            for inmemory in [true, false] {
                for zoom in [Zoom::AutoDefault, Zoom::Manual(vec![10, 250, 1000])] {
                    n += 1;
                    let mut o = Opts::base();
                    o.ips = ips;
                    o.compress = compress;
                    o.two_pass = two_pass;
                    o.inmemory = inmemory;
                    o.zoom = zoom;
                    o.src = [SrcKind::Iter, SrcKind::SerialText, SrcKind::ParallelFile][n % 3];
                    o.rt = [Rt::Current, Rt::Multi(4)][(n / 3) % 2];
                    o.chan = [100usize, 0, 1][(n / 2) % 3];
                    let cap = [0u32, 3000, 0, 20_000][n % 4];
                    v.push(if bed { FileCase::BedMid { cap, opts: o } } else { FileCase::WigMid { cap, opts: o } });
                }
            }
        }
    }
    v
}

pub fn short_sink_cases(bed: bool) -> Vec<FileCase> {
    let mut v = vec![];
    for cap in [1000u32, 4096, 32768] {
        for two_pass in [false, true] {
            for (compress, ips) in [(false, 1024u32), (true, 8192), (false, 64)] {
                for inmemory in [true, false] {
                    let mut o = Opts::base();
                    o.two_pass = two_pass;
                    o.compress = compress;
                    o.ips = ips;
                    o.inmemory = inmemory;
                    o.zoom = Zoom::Manual(vec![8]);
                    v.push(if bed { FileCase::BedShortSink { n: 9000, cap, opts: o } } else { FileCase::WigShortSink { n: 9000, cap, opts: o } });
                }
            }
        }
    }
    v
}

pub fn huge_cases(bed: bool) -> Vec<FileCase> {
    let mut v = vec![];
    for (ips, bs) in [(1u32, 2u32), (1024, 256)] {
        for two_pass in [false, true] {
            for compress in [true, false] {
                for zoom in [Zoom::Manual(vec![1 << 20]), Zoom::AutoDefault, Zoom::Manual(vec![])] {
                    for src in [SrcKind::Iter, SrcKind::ParallelFile] {
                        let mut o = Opts::base();
                        o.ips = ips;
                        o.bs = bs;
                        o.two_pass = two_pass;
                        o.compress = compress;
                        o.zoom = zoom.clone();
                        o.src = src;
                        v.push(if bed { FileCase::BedHuge { opts: o } } else { FileCase::WigHuge { opts: o } });
                    }
                }
            }
        }
    }
    v
}

fn big_text_cases(bed: bool) -> Vec<FileCase> {
    let mut v = vec![];
    for shift in 0..3u32 {
        for src in [SrcKind::SerialText, SrcKind::ParallelFile] {
            for two_pass in [false, true] {
                let mut o = Opts::base();
                o.src = src;
                o.two_pass = two_pass;
                o.ips = 64;
                o.zoom = Zoom::Manual(vec![64]);
                v.push(if bed { FileCase::BedBigText { shift, opts: o } } else { FileCase::WigBigText { shift, opts: o } });
            }
        }
    }
    v
}

fn uneven_cases(bed: bool) -> Vec<FileCase> {
    let mut v = vec![];
    for arr in 0..5u32 {
        for (ips, bs) in [(1u32, 2u32), (2, 2), (1024, 256)] {
            for two_pass in [false, true] {
                for compress in [true, false] {
                    for src in [SrcKind::Iter, SrcKind::ParallelFile] {
                        for zoom in [Zoom::Manual(vec![4]), Zoom::AutoDefault] {
                            let mut o = Opts::base();
                            o.ips = ips;
                            o.bs = bs;
                            o.two_pass = two_pass;
                            o.compress = compress;
                            o.src = src;
                            o.zoom = zoom;
                            v.push(if bed { FileCase::BedUneven { arr, opts: o } } else { FileCase::WigUneven { arr, opts: o } });
                        }
                    }
                }
            }
        }
    }
    v
}

/// many-chromosome files: more chromosomes than the parallel source queues at once (6, 8) and
/// than the pipeline's channels hold (130), through every source, both passes, two runtimes
fn many_cases(bed: bool, quick: bool) -> Vec<FileCase> {
    let mut v = vec![];
    let ns: &[u32] = if quick { &[6, 130, 256, 257] } else { &[6, 8, 101, 102, 130, 256, 257, 300, 512] };
    for &n in ns {
        for src in [SrcKind::Iter, SrcKind::SerialText, SrcKind::ParallelFile] {
            for two_pass in [false, true] {
                for rt in [Rt::Current, Rt::Multi(4)] {
                    for (ips, zoom) in [(1024u32, Zoom::AutoDefault), (1, Zoom::Manual(vec![2]))] {
                        let mut o = Opts::base();
                        o.src = src;
                        o.two_pass = two_pass;
                        o.rt = rt;
                        o.ips = ips;
                        o.zoom = zoom;
                        o.bs = 3;
                        if n <= 130 && src != SrcKind::ParallelFile {
                            // the same number of chromosomes in karyotype order (33+ of them for n >= 101)
                            let mut ok = o.clone();
                            ok.src = src;
                            v.push(if bed { FileCase::BedKaryo { n: n.max(40), opts: ok } } else { FileCase::WigKaryo { n: n.max(40), opts: ok } });
                        }
                        if n >= 256 && rt == Rt::Current {
                            // the default index fan-out: one child node of the root spans 256 chromosomes
                            let mut wide = o.clone();
                            wide.bs = 256;
                            v.push(if bed { FileCase::BedMany { n, opts: wide } } else { FileCase::WigMany { n, opts: wide } });
                        }
                        v.push(if bed { FileCase::BedMany { n, opts: o } } else { FileCase::WigMany { n, opts: o } });
                    }
                }
            }
        }
    }
    v
}

// ---------------------------------------------------------------------------------------------
// enumerators

fn wig_single(layout: &[(u32, u32)], idx: usize, opts: &Opts) -> WigCase {
    WigCase {
        chroms: vec![WChrom {
            name: "c".into(),
            len: L,
            items: wig_items(layout, idx, idx / 3),
        }],
        extra_sizes: vec![],
        allow_ooo: false,
        opts: opts.clone(),
    }
}

fn bed_single(layout: &[(u32, u32)], idx: usize, opts: &Opts) -> BedCase {
    BedCase {
        chroms: vec![BChrom {
            name: "c".into(),
            len: L,
            items: bed_items(layout, idx),
        }],
        extra_sizes: vec![],
        allow_ooo: false,
        autosql: autosql_menu(idx, idx),
        opts: opts.clone(),
    }
}

pub const CUSTOM_AS: &str = "table custom\n\"A custom table\"\n(\nstring chrom; \"c\"\nuint chromStart; \"s\"\nuint chromEnd; \"e\"\nstring name; \"n\"\n)\n";

/// A four-field schema of exactly `total` bytes (the table comment is padded).
pub fn long_schema(total: usize) -> (String, usize) {
    let head = "table longsql\n\"";
    let tail = "\"\n(\nstring chrom; \"c\"\nuint chromStart; \"s\"\nuint chromEnd; \"e\"\nstring name; \"n\"\n)\n";
    let pad = total - head.len() - tail.len();
    let comment: String = (0..pad).map(|i| if i % 61 == 60 { ' ' } else { (b'a' + (i % 26) as u8) as char }).collect();
    let s = format!("{}{}{}", head, comment, tail);
    assert_eq!(s.len(), total);
    (s, 4)
}

/// autosql choice by palette: None (library default), the generated schema for the palette's
/// column count, or a custom schema.
fn autosql_menu(pal: usize, sel: usize) -> Option<String> {
    match sel % 3 {
        0 => None,
        1 => Some(bigtools::bed::autosql::bed_autosql(&rest_palette(pal, 0))),
        _ => Some(CUSTOM_AS.to_string()),
    }
}

fn wig_multi(set_idx: usize, lay_idx: usize, opts: &Opts) -> WigCase {
    let sets = chrom_sets();
    let (names, ooo, extra) = &sets[set_idx];
    let core = core_wig_layouts();
    let chroms = names
        .iter()
        .enumerate()
        .map(|(ci, n)| WChrom {
            name: n.to_string(),
            len: L,
            items: wig_items(&core[(lay_idx + ci * 3) % core.len()], lay_idx + ci, ci),
        })
        .collect();
    WigCase {
        chroms,
        extra_sizes: extra.clone(),
        allow_ooo: *ooo,
        opts: opts.clone(),
    }
}

fn bed_multi(set_idx: usize, lay_idx: usize, opts: &Opts) -> BedCase {
    let sets = chrom_sets();
    let (names, ooo, extra) = &sets[set_idx];
    let core = core_bed_layouts();
    let chroms = names
        .iter()
        .enumerate()
        .map(|(ci, n)| BChrom {
            name: n.to_string(),
            len: L,
            items: bed_items(&core[(lay_idx + ci * 3) % core.len()], lay_idx + ci),
        })
        .collect();
    BedCase {
        chroms,
        extra_sizes: extra.clone(),
        allow_ooo: *ooo,
        autosql: autosql_menu(lay_idx, lay_idx + set_idx),
        opts: opts.clone(),
    }
}

fn k_for(tier: Tier) -> usize {
    if tier == Tier::Quick {
        3
    } else {
        4
    }
}

/// (A) every layout x small covering option list; (B) core multi-chromosome layouts x full
/// option product; (C) the u16 section-count edge.
pub fn wig_family(tier: Tier) -> Box<dyn Iterator<Item = FileCase>> {
    let quick = tier == Tier::Quick;
    let lays = wig_layouts(k_for(tier), L);
    let sopts = small_opts();
    let a = lays.into_iter().enumerate().flat_map(move |(i, l)| {
        let sopts = sopts.clone();
        sopts
            .into_iter()
            .map(move |o| FileCase::Wig(wig_single(&l, i, &o)))
            .collect::<Vec<_>>()
    });
    let fopts = full_opts(quick);
    let b = (0..chrom_sets().len()).flat_map(move |si| {
        let fopts = fopts.clone();
        (0..core_wig_layouts().len()).flat_map(move |li| {
            fopts
                .clone()
                .into_iter()
                .map(move |o| FileCase::Wig(wig_multi(si, li, &o)))
        })
    });
    let mut big = vec![];
    for n in [65535u32, 65536] {
        for two_pass in [false, true] {
            let mut o = Opts::base();
            o.ips = 65535;
            o.two_pass = two_pass;
            o.zoom = Zoom::Manual(vec![16384]);
            big.push(FileCase::WigBig { n, opts: o });
        }
    }
    // index nodes with 2 047 / 2 048 / 2 100 entries (entry count x 32 bytes crosses 65 536): one item
    // per section, block size 4 096
    for n in [2047u32, 2048, 2100] {
        for two_pass in [false, true] {
            let mut o = Opts::base();
            o.ips = 1;
            o.bs = 4096;
            o.two_pass = two_pass;
            o.compress = n % 2 == 0;
            o.zoom = Zoom::Manual(vec![16384]);
            big.push(FileCase::WigBig { n, opts: o });
        }
    }
    Box::new(a.chain(b).chain(big.into_iter()).chain(many_cases(false, quick).into_iter()).chain(uneven_cases(false).into_iter()).chain(names_cases(false).into_iter()).chain(many_zoom_cases(false).into_iter()).chain(big_text_cases(false).into_iter()).chain(hollow_cases(false).into_iter()))
}

pub fn bed_family(tier: Tier) -> Box<dyn Iterator<Item = FileCase>> {
    let quick = tier == Tier::Quick;
    let lays = bed_layouts(k_for(tier), L);
    let sopts = small_opts();
    let a = lays.into_iter().enumerate().flat_map(move |(i, l)| {
        // quick: rotate through the option list three at a time so that each layout still meets
        // both pass modes and both compression modes
        let sopts = sopts.clone();
        let n = sopts.len();
        let pick: Vec<Opts> = if quick {
            (0..4).map(|j| sopts[(i + j * 3) % n].clone()).collect()
        } else {
            sopts
        };
        pick.into_iter()
            .map(move |o| FileCase::Bed(bed_single(&l, i, &o)))
            .collect::<Vec<_>>()
    });
    let fopts = full_opts(quick);
    let b = (0..chrom_sets().len()).flat_map(move |si| {
        let fopts = fopts.clone();
        (0..core_bed_layouts().len()).flat_map(move |li| {
            fopts
                .clone()
                .into_iter()
                .map(move |o| FileCase::Bed(bed_multi(si, li, &o)))
        })
    });
    let mut big = vec![];
    for n in [65535u32, 65536] {
        let mut o = Opts::base();
        o.ips = 65535;
        o.zoom = Zoom::Manual(vec![16384]);
        big.push(FileCase::BedBig { n, opts: o });
    }
    for n in [2048u32, 2100] {
        let mut o = Opts::base();
        o.ips = 1;
        o.bs = 4096;
        o.two_pass = n % 2 == 0;
        o.zoom = Zoom::Manual(vec![16384]);
        big.push(FileCase::BedBig { n, opts: o });
    }
    // supplied schemas longer than the 8 KiB reader / writer buffers
    let mut longsql = vec![];
    for len in [8191u32, 8192, 8193, 16385, 70001] {
        for two_pass in [false, true] {
            for compress in [true, false] {
                let mut o = Opts::base();
                o.two_pass = two_pass;
                o.compress = compress;
                longsql.push(FileCase::BedLongSql { len, opts: o });
            }
        }
    }
    // ... and than 16 MiB (a bound a reader might put on a NUL-terminated string)
    for (len, two_pass) in [(16_777_300u32, false), (20_000_003, true)] {
        let mut o = Opts::base();
        o.two_pass = two_pass;
        longsql.push(FileCase::BedLongSql { len, opts: o });
    }
    // `rest` fields longer than the 8 KiB and 64 KiB buffers on the way
    let mut longrest = vec![];
    for len in [8190u32, 8193, 70_000] {
        for two_pass in [false, true] {
            for compress in [true, false] {
                for ips in [1u32, 1024] {
                    for src in [SrcKind::Iter, SrcKind::SerialText] {
                        let mut o = Opts::base();
                        o.two_pass = two_pass;
                        o.compress = compress;
                        o.ips = ips;
                        o.src = src;
                        o.zoom = Zoom::Manual(vec![4]);
                        longrest.push(FileCase::BedLongRest { len, opts: o });
                    }
                }
            }
        }
    }
    Box::new(
        a.chain(b)
            .chain(big.into_iter())
            .chain(many_cases(true, quick).into_iter())
            .chain(longsql.into_iter())
            .chain(uneven_cases(true).into_iter())
            .chain(names_cases(true).into_iter())
            .chain(longrest.into_iter())
            .chain({
                let mut v = vec![];
                for ips in [4u32, 64] {
                    for compress in [true, false] {
                        for two_pass in [false, true] {
                            for inmemory in [true, false] {
                                let mut o = Opts::base();
                                o.ips = ips;
                                o.compress = compress;
                                o.two_pass = two_pass;
                                o.inmemory = inmemory;
                                o.zoom = Zoom::Manual(vec![16]);
                                v.push(FileCase::BedBigLater { opts: o });
                            }
                        }
                    }
                }
                v.into_iter()
            })
            .chain(many_zoom_cases(true).into_iter())
            .chain(big_text_cases(true).into_iter())
            .chain(hollow_cases(true).into_iter())
            .chain({
                let mut v = vec![];
                for src in [SrcKind::Iter, SrcKind::Started] {
                    for two_pass in [false, true] {
                        for (ips, compress) in [(1u32, false), (1024, true)] {
                            let mut o = Opts::base();
                            o.src = src;
                            o.two_pass = two_pass;
                            o.ips = ips;
                            o.compress = compress;
                            o.zoom = Zoom::Manual(vec![4]);
                            v.push(FileCase::BedRestEdges { opts: o.clone() });
                            for src2 in [SrcKind::Iter, SrcKind::SerialText, SrcKind::ParallelFile] {
                                if src == SrcKind::Iter {
                                    let mut o2 = o.clone();
                                    o2.src = src2;
                                    v.push(FileCase::BedRestCtl { opts: o2 });
                                }
                            }
                        }
                    }
                }
                v.into_iter()
            }),
    )
}

/// zoom-focused option list for C07/C08
pub fn zoom_opts(quick: bool) -> Vec<Opts> {
    let zooms = vec![
        Zoom::Manual(vec![2]),
        Zoom::Manual(vec![3]),
        Zoom::Manual(vec![4, 16]),
        Zoom::Manual(vec![2, 4, 8]),
        Zoom::Auto { initial: 2, max: 3 },
        // a manual list given in descending order
        Zoom::Manual(vec![4, 2]),
        // more levels than the ten the header directory was sized for
        Zoom::Manual(vec![2, 3, 4, 5, 6, 7, 8, 9, 10, 11, 12]),
    ];
    let ipss: &[u32] = if quick { &[1, 1024] } else { &[1, 2, 1024] };
    let mut v = vec![];
    let mut n = 0;
    for z in &zooms {
        for &ips in ipss {
            for two_pass in [false, true] {
                for compress in [true, false] {
                    if quick && compress != (n % 2 == 0) {
                        n += 1;
                        continue;
                    }
                    n += 1;
                    v.push(Opts {
                        compress,
                        ips,
                        bs: if ips == 1 { 2 } else { 256 },
                        zoom: z.clone(),
                        inmemory: true,
                        rt: Rt::Current,
                        chan: 100,
                        two_pass,
                        src: [SrcKind::Iter, SrcKind::ParallelFile, SrcKind::SerialText][n % 3],
                    });
                }
            }
        }
    }
    v
}

/// manual zoom lists that name a size more than once (adjacent and non-adjacent repeats): a size
/// given twice is one level
pub fn dup_zoom_opts() -> Vec<Opts> {
    let mut v = vec![];
    let mut n = 0;
    for z in [vec![2u32, 2], vec![4, 2, 4], vec![8, 2, 8, 2, 4]] {
        for ips in [1u32, 1024] {
            for two_pass in [false, true] {
                n += 1;
                let mut o = Opts::base();
                o.ips = ips;
                o.bs = if ips == 1 { 2 } else { 256 };
                o.two_pass = two_pass;
                o.compress = n % 2 == 0;
                o.zoom = Zoom::Manual(z.clone());
                v.push(o);
            }
        }
    }
    v
}

pub fn wig_zoom_family(tier: Tier) -> Box<dyn Iterator<Item = FileCase>> {
    let quick = tier == Tier::Quick;
    let lays = wig_layouts(k_for(tier), L);
    let zo = zoom_opts(quick);
    let zo2 = zo.clone();
    let a = lays.into_iter().enumerate().flat_map(move |(i, l)| {
        zo.clone()
            .into_iter()
            .map(move |o| FileCase::Wig(wig_single(&l, i, &o)))
            .collect::<Vec<_>>()
    });
    let b = (0..chrom_sets().len()).flat_map(move |si| {
        let zo2 = zo2.clone();
        (0..core_wig_layouts().len()).flat_map(move |li| {
            zo2.clone()
                .into_iter()
                .map(move |o| FileCase::Wig(wig_multi(si, li, &o)))
        })
    });
    let d = (0..chrom_sets().len()).flat_map(move |si| (0..core_wig_layouts().len()).flat_map(move |li| dup_zoom_opts().into_iter().map(move |o| FileCase::Wig(wig_multi(si, li, &o)))));
    Box::new(a.chain(b).chain(d))
}

pub fn bed_zoom_family(tier: Tier) -> Box<dyn Iterator<Item = FileCase>> {
    let quick = tier == Tier::Quick;
    let lays = bed_layouts(k_for(tier), L);
    let zo = zoom_opts(quick);
    let zo2 = zo.clone();
    let a = lays.into_iter().enumerate().flat_map(move |(i, l)| {
        let zo = zo.clone();
        let n = zo.len();
        let pick: Vec<Opts> = if quick {
            (0..5).map(|j| zo[(i + j * 2) % n].clone()).collect()
        } else {
            zo
        };
        pick.into_iter()
            .map(move |o| FileCase::Bed(bed_single(&l, i, &o)))
            .collect::<Vec<_>>()
    });
    let b = (0..chrom_sets().len()).flat_map(move |si| {
        let zo2 = zo2.clone();
        (0..core_bed_layouts().len()).flat_map(move |li| {
            zo2.clone()
                .into_iter()
                .map(move |o| FileCase::Bed(bed_multi(si, li, &o)))
        })
    });
    let d = (0..chrom_sets().len()).flat_map(move |si| (0..core_bed_layouts().len()).flat_map(move |li| dup_zoom_opts().into_iter().map(move |o| FileCase::Bed(bed_multi(si, li, &o)))));
    Box::new(a.chain(b).chain(d))
}

// ---------------------------------------------------------------------------------------------
// shared helpers

pub struct Written {
    pub bytes: Vec<u8>,
    pub dec: Option<indep::Decoded>,
}

fn count_structure(dec: &indep::Decoded, nchrom: usize, out: &mut Outcome) {
    let sections = dec.main.leaves.len();
    if sections >= 2 {
        out.count("files_with_2+_blocks", 1);
    }
    if sections > nchrom {
        out.count("files_with_2+_blocks_in_a_chromosome", 1);
    }
    if dec.main.levels >= 2 {
        out.count("files_with_2+_index_levels", 1);
    }
    if dec.main.levels >= 3 {
        out.count("files_with_3+_index_levels", 1);
    }
    if dec.zooms.len() >= 1 {
        out.count("files_with_zoom_levels", 1);
    }
    if dec.zooms.len() >= 2 {
        out.count("files_with_2+_zoom_levels", 1);
    }
    if dec.zooms.iter().any(|z| z.index.leaves.len() >= 2) {
        out.count("files_with_2+_blocks_in_a_zoom_level", 1);
    }
    if nchrom >= 2 {
        out.count("files_with_2+_chromosomes", 1);
    }
    if dec.any_compressed {
        out.count("files_compressed", 1);
    } else {
        out.count("files_uncompressed", 1);
    }
}

/// Write a bigWig with the real writer (panic-guarded).  On refusal/panic records a failure.
pub fn do_write_wig(c: &WigCase, out: &mut Outcome) -> Option<Vec<u8>> {
    let tags = wig_tags(c);
    match guarded(|| write_wig(c)) {
        Ok(Ok(b)) => Some(b),
        Ok(Err(e)) => {
            out.fail("write_refused_valid_input", &tags, e);
            None
        }
        Err(p) => {
            out.fail("write_panicked", &tags, p);
            None
        }
    }
}

pub fn do_write_bed(c: &BedCase, out: &mut Outcome) -> Option<Vec<u8>> {
    let tags = bed_tags(c);
    match guarded(|| write_bed(c)) {
        Ok(Ok(b)) => Some(b),
        Ok(Err(e)) => {
            out.fail("write_refused_valid_input", &tags, e);
            None
        }
        Err(p) => {
            out.fail("write_panicked", &tags, p);
            None
        }
    }
}

fn structure(bytes: &[u8], nchrom: usize, out: &mut Outcome) -> Option<indep::Decoded> {
    match indep::decode(bytes) {
        Ok(d) => {
            count_structure(&d, nchrom, out);
            Some(d)
        }
        Err(_) => None,
    }
}

// ---------------------------------------------------------------------------------------------
// C01

pub struct C01;

pub fn oracle_c01(c: &WigCase, bytes: &[u8], out: &mut Outcome) {
    let tags = wig_tags(c);
    let r = guarded(|| -> Result<(), (String, String)> {
        let mut r = BigWigRead::open(Cursor::new(bytes.to_vec()))
            .map_err(|e| ("open_failed".to_string(), format!("{}", e)))?;
        let got: Vec<(String, u32)> = r.chroms().iter().map(|c| (c.name.clone(), c.length)).collect();
        let want: Vec<(String, u32)> = c.chroms.iter().map(|c| (c.name.clone(), c.len)).collect();
        if got != want {
            return Err((
                "chrom_table".to_string(),
                format!("chromosome table {:?}, expected {:?}", got, want),
            ));
        }
        for ch in &c.chroms {
            let it = r
                .get_interval(&ch.name, 0, ch.len)
                .map_err(|e| ("read_error".to_string(), format!("{}: {}", ch.name, e)))?;
            let mut got = vec![];
            for v in it {
                let v = v.map_err(|e| ("read_error".to_string(), format!("{}: {}", ch.name, e)))?;
                got.push((v.start, v.end, v.value.to_bits()));
            }
            let want: Vec<(u32, u32, u32)> = ch.items.iter().map(|i| (i.s, i.e, i.vb)).collect();
            if got != want {
                // distinguish the zero-length-at-edge corner from everything else
                let want_nz: Vec<_> = want
                    .iter()
                    .filter(|w| !(w.0 == w.1 && (w.0 == 0 || w.0 == ch.len)))
                    .cloned()
                    .collect();
                let kind = if got == want_nz {
                    "edge_zero_length_value_not_returned"
                } else {
                    "roundtrip_mismatch"
                };
                return Err((
                    kind.to_string(),
                    format!("{}: read {:?}, wrote {:?}", ch.name, got, want),
                ));
            }
        }
        // the same full-span reads through ONE caching reader with a history: a narrow query into
        // the middle of every chromosome first, then every chromosome in reverse and in forward
        // order; each must equal the plain reader's answer
        let mut cr = BigWigRead::open(Cursor::new(bytes.to_vec())).map_err(|e| ("open_failed".to_string(), format!("{}", e)))?.cached();
        fn full<R: bigtools::BBIFileRead>(rd: &mut BigWigRead<R>, ch: &WChrom) -> Result<Vec<(u32, u32, u32)>, String> {
            let mut v = vec![];
            for x in rd.get_interval(&ch.name, 0, ch.len).map_err(|e| format!("{}", e))? {
                let x = x.map_err(|e| format!("{}", e))?;
                v.push((x.start, x.end, x.value.to_bits()));
            }
            Ok(v)
        }
        for ch in &c.chroms {
            if let Some(m) = ch.items.get(ch.items.len() / 2) {
                if let Ok(it) = cr.get_interval(&ch.name, m.s, m.s + 1) {
                    for _ in it {}
                }
            }
        }
        let order: Vec<&WChrom> = c.chroms.iter().rev().chain(c.chroms.iter()).collect();
        for ch in order {
            let a = full(&mut cr, ch);
            let b = full(&mut r, ch);
            if a != b {
                return Err(("cached_reader_full_span_differs".to_string(), format!("{}: caching reader with a history read {:?}, plain reader {:?}", ch.name, a, b)));
            }
        }
        Ok(())
    });
    match r {
        Ok(Ok(())) => {}
        Ok(Err((k, d))) => out.fail(&k, &tags, d),
        Err(p) => out.fail("read_panicked", &tags, p),
    }
}

impl Check for C01 {
    type Case = FileCase;
    fn id(&self) -> &'static str {
        "C01"
    }
    fn cases(&self, tier: Tier) -> Box<dyn Iterator<Item = FileCase> + '_> {
        Box::new(wig_family(tier).chain(huge_cases(false).into_iter()).chain(short_sink_cases(false).into_iter()).chain(mid_cases(false).into_iter()))
    }
    fn run(&self, case: &FileCase, out: &mut Outcome) {
        let FileCase::Wig(c) = expand(case) else { return };
        if let FileCase::WigShortSink { cap, .. } | FileCase::WigMid { cap, .. } = case {
            if *cap > 0 {
                SINK_CAP.with(|x| x.set(Some(*cap as usize)));
                out.count("files_written_into_a_short_writing_destination", 1);
            }
        }
        if matches!(case, FileCase::WigMid { .. }) {
            out.count("medium_size_files", 1);
        }
        let written = do_write_wig(&c, out);
        SINK_CAP.with(|x| x.set(None));
        let Some(bytes) = written else { return };
        let dec = structure(&bytes, c.chroms.len(), out);
        if matches!(case, FileCase::WigHuge { .. }) {
            out.count("files_with_coordinates_up_to_u32_max", 1);
        }
        let items: usize = c.chroms.iter().map(|c| c.items.len()).sum();
        out.nontrivial = items >= 2
            && dec
                .as_ref()
                .map(|d| d.main.leaves.len() >= 2 || c.chroms.len() >= 2 || !d.zooms.is_empty())
                .unwrap_or(false);
        out.outcome_hash = Some(fnv(&bytes));
        oracle_c01(&c, &bytes, out);
    }
    fn space(&self, tier: Tier) -> serde_json::Value {
        let q = tier == Tier::Quick;
        json!({
            "A_layouts_WL(k)": wig_layouts(k_for(tier), L).len(), "k": k_for(tier), "chrom_len": L,
            "A_option_sets": small_opts().len(),
            "B_core_layouts": core_wig_layouts().len(), "B_chrom_sets": chrom_sets().len(),
            "B_option_product": full_opts(q).len(),
            "C_u16_edge_cases": 4,
        })
    }
}

// ---------------------------------------------------------------------------------------------
// C02

pub struct C02;

pub fn oracle_c02(c: &BedCase, bytes: &[u8], out: &mut Outcome) {
    let tags = bed_tags(c);
    let r = guarded(|| -> Result<(), (String, String)> {
        let mut r = BigBedRead::open(Cursor::new(bytes.to_vec()))
            .map_err(|e| ("open_failed".to_string(), format!("{}", e)))?;
        let got: Vec<(String, u32)> = r.chroms().iter().map(|c| (c.name.clone(), c.length)).collect();
        let want: Vec<(String, u32)> = c.chroms.iter().map(|c| (c.name.clone(), c.len)).collect();
        if got != want {
            return Err((
                "chrom_table".to_string(),
                format!("chromosome table {:?}, expected {:?}", got, want),
            ));
        }
        let n: usize = c.chroms.iter().map(|c| c.items.len()).sum();
        let ic = r
            .item_count()
            .map_err(|e| ("read_error".to_string(), format!("item_count: {}", e)))?;
        if ic != n as u64 {
            return Err(("item_count".to_string(), format!("item_count {} != {} entries", ic, n)));
        }
        let asql = r
            .autosql()
            .map_err(|e| ("read_error".to_string(), format!("autosql: {}", e)))?;
        let want_as = c
            .autosql
            .clone()
            .unwrap_or_else(|| bigtools::bed::autosql::BED3.to_string());
        if asql.as_deref() != Some(want_as.as_str()) {
            return Err((
                "autosql_not_verbatim".to_string(),
                format!("autosql {:?}, expected {:?}", asql, want_as),
            ));
        }
        let fc = r.info().header.field_count;
        let want_fc = declared_fields(&want_as);
        if let Some(wf) = want_fc {
            if fc as usize != wf {
                return Err((
                    "field_count".to_string(),
                    format!("header field_count {} != {} declared fields", fc, wf),
                ));
            }
        }
        for ch in &c.chroms {
            let it = r
                .get_interval(&ch.name, 0, ch.len)
                .map_err(|e| ("read_error".to_string(), format!("{}: {}", ch.name, e)))?;
            let mut got = vec![];
            for v in it {
                let v = v.map_err(|e| {
                    (
                        "read_error_after_accepted_write".to_string(),
                        format!("{}: {}", ch.name, e),
                    )
                })?;
                got.push((v.start, v.end, v.rest));
            }
            let want: Vec<(u32, u32, String)> =
                ch.items.iter().map(|i| (i.s, i.e, i.rest.clone())).collect();
            if got != want {
                return Err((
                    "roundtrip_mismatch".to_string(),
                    format!("{}: read {:?}, wrote {:?}", ch.name, got, want),
                ));
            }
        }
        // one caching reader with a history (narrow queries first, then every chromosome in
        // reverse and forward order) must give the plain reader's answers
        let mut cr = BigBedRead::open(Cursor::new(bytes.to_vec())).map_err(|e| ("open_failed".to_string(), format!("{}", e)))?.cached();
        fn full<R: bigtools::BBIFileRead>(rd: &mut BigBedRead<R>, ch: &BChrom) -> Result<Vec<(u32, u32, String)>, String> {
            let mut v = vec![];
            for x in rd.get_interval(&ch.name, 0, ch.len).map_err(|e| format!("{}", e))? {
                let x = x.map_err(|e| format!("{}", e))?;
                v.push((x.start, x.end, x.rest));
            }
            Ok(v)
        }
        for ch in &c.chroms {
            if let Some(m) = ch.items.get(ch.items.len() / 2) {
                if let Ok(it) = cr.get_interval(&ch.name, m.s, m.s + 1) {
                    for _ in it {}
                }
            }
        }
        let order: Vec<&BChrom> = c.chroms.iter().rev().chain(c.chroms.iter()).collect();
        for ch in order {
            let a = full(&mut cr, ch);
            let b = full(&mut r, ch);
            if a != b {
                return Err(("cached_reader_full_span_differs".to_string(), format!("{}: caching reader with a history read {:?}, plain reader {:?}", ch.name, a.map(|v| v.len()), b.map(|v| v.len()))));
            }
        }
        Ok(())
    });
    match r {
        Ok(Ok(())) => {}
        Ok(Err((k, d))) => out.fail(&k, &tags, d),
        Err(p) => out.fail("read_panicked", &tags, p),
    }
}

/// Number of fields declared by a single-table schema: count of ';' inside the outermost
/// parentheses (independent of the autoSql parser under test).
pub fn declared_fields(asql: &str) -> Option<usize> {
    let open = asql.find('(')?;
    let close = asql.rfind(')')?;
    if close <= open {
        return None;
    }
    let body = &asql[open + 1..close];
    // remove quoted comments
    let mut n = 0;
    let mut in_q = false;
    for ch in body.chars() {
        match ch {
            '"' => in_q = !in_q,
            ';' if !in_q => n += 1,
            _ => {}
        }
    }
    Some(n)
}

impl Check for C02 {
    type Case = FileCase;
    fn id(&self) -> &'static str {
        "C02"
    }
    fn cases(&self, tier: Tier) -> Box<dyn Iterator<Item = FileCase> + '_> {
        let mut spans = vec![];
        for two_pass in [false, true] {
            for (ips, bs) in [(1u32, 2u32), (1024, 256)] {
                let mut o = Opts::base();
                o.two_pass = two_pass;
                o.ips = ips;
                o.bs = bs;
                o.zoom = Zoom::Manual(vec![4]);
                for lay in 0..4u32 {
                    spans.push(FileCase::BedBeyondEnd { lay, opts: o.clone() });
                }
                let mut oz = o.clone();
                oz.zoom = Zoom::Manual(vec![1 << 16]);
                for variant in 0..2u32 {
                    spans.push(FileCase::BedLongSpans { variant, opts: oz.clone() });
                }
            }
        }
        Box::new(bed_family(tier).chain(huge_cases(true).into_iter()).chain(short_sink_cases(true).into_iter()).chain(spans.into_iter()).chain(mid_cases(true).into_iter()))
    }
    fn run(&self, case: &FileCase, out: &mut Outcome) {
        let FileCase::Bed(c) = expand(case) else { return };
        if let FileCase::BedShortSink { cap, .. } | FileCase::BedMid { cap, .. } = case {
            if *cap > 0 {
                SINK_CAP.with(|x| x.set(Some(*cap as usize)));
                out.count("files_written_into_a_short_writing_destination", 1);
            }
        }
        if matches!(case, FileCase::BedMid { .. }) {
            out.count("medium_size_files", 1);
        }
        let written = do_write_bed(&c, out);
        SINK_CAP.with(|x| x.set(None));
        let Some(bytes) = written else { return };
        if matches!(case, FileCase::BedHuge { .. }) {
            out.count("files_with_coordinates_up_to_u32_max", 1);
        }
        let dec = structure(&bytes, c.chroms.len(), out);
        let items: usize = c.chroms.iter().map(|c| c.items.len()).sum();
        let overlapping = c
            .chroms
            .iter()
            .any(|ch| ch.items.windows(2).any(|w| w[0].e > w[1].s));
        if overlapping {
            out.count("cases_with_overlapping_entries", 1);
        }
        if c.autosql.is_some() {
            out.count("cases_with_supplied_autosql", 1);
        }
        out.nontrivial = items >= 2
            && dec
                .as_ref()
                .map(|d| d.main.leaves.len() >= 2 || c.chroms.len() >= 2 || !d.zooms.is_empty() || overlapping)
                .unwrap_or(false);
        out.outcome_hash = Some(fnv(&bytes));
        oracle_c02(&c, &bytes, out);
    }
    fn space(&self, tier: Tier) -> serde_json::Value {
        let q = tier == Tier::Quick;
        json!({
            "A_layouts_BL(k)": bed_layouts(k_for(tier), L).len(), "k": k_for(tier), "chrom_len": L,
            "A_option_sets_per_layout": if q {4} else {small_opts().len()},
            "B_core_layouts": core_bed_layouts().len(), "B_chrom_sets": chrom_sets().len(),
            "B_option_product": full_opts(q).len(),
            "rest_palettes": 5, "autosql_choices": 3,
            "C_u16_edge_cases": 2,
        })
    }
}

// ---------------------------------------------------------------------------------------------
// C06

pub struct C06;

fn cmp_summary(
    what: &str,
    got: &bigtools::Summary,
    want: &Stats,
    min_alts: &[f64],
    max_alts: &[f64],
    tags: &[String],
    out: &mut Outcome,
) {
    if got.bases_covered != want.bases {
        out.fail(
            "summary_bases_covered",
            tags,
            format!("{}: bases_covered {} != {}", what, got.bases_covered, want.bases),
        );
    }
    if !min_alts.iter().any(|m| m.to_bits() == got.min_val.to_bits() || *m == got.min_val) {
        out.fail(
            "summary_min",
            tags,
            format!("{}: min {:e}, expected one of {:?}", what, got.min_val, min_alts),
        );
    }
    if !max_alts.iter().any(|m| *m == got.max_val) {
        out.fail(
            "summary_max",
            tags,
            format!("{}: max {:e}, expected one of {:?}", what, got.max_val, max_alts),
        );
    }
    if !close64(got.sum, want.sum, want.abs_sum) {
        out.fail("summary_sum", tags, format!("{}: sum {:e} != {:e}", what, got.sum, want.sum));
    }
    if !close64(got.sum_squares, want.sumsq, want.abs_sumsq) {
        out.fail(
            "summary_sum_squares",
            tags,
            format!("{}: sum_squares {:e} != {:e}", what, got.sum_squares, want.sumsq),
        );
    }
    if got.min_val.is_nan() || got.max_val.is_nan() || got.sum.is_nan() || got.sum_squares.is_nan() {
        out.fail("summary_nan", tags, format!("{}: NaN in summary {:?}", what, got));
    }
}

pub fn oracle_c06_wig(c: &WigCase, bytes: &[u8], out: &mut Outcome) {
    let tags = wig_tags(c);
    let mut tot = Stats {
        min: f64::INFINITY,
        max: f64::NEG_INFINITY,
        ..Default::default()
    };
    let mut all_min = f64::INFINITY;
    let mut all_max = f64::NEG_INFINITY;
    let mut any_item = false;
    for ch in &c.chroms {
        // weight by length: identical to the per-base statistics
        if ch.len > 200_000 {
            tot = merge_stats(&tot, &wig_stats_items(ch));
        } else {
            tot = merge_stats(&tot, &stats_of(&wig_signal(ch)));
        }
        for it in &ch.items {
            any_item = true;
            all_min = all_min.min(it.v() as f64);
            all_max = all_max.max(it.v() as f64);
        }
    }
    // zero-length values have no bases: min/max over all items or over covered bases both pass
    let mut min_alts = vec![];
    let mut max_alts = vec![];
    if tot.bases > 0 {
        min_alts.push(tot.min);
        max_alts.push(tot.max);
    } else {
        min_alts.push(0.0);
        max_alts.push(0.0);
    }
    if any_item {
        min_alts.push(all_min);
        max_alts.push(all_max);
    }
    let r = guarded(|| {
        let mut r = BigWigRead::open(Cursor::new(bytes.to_vec())).map_err(|e| format!("{}", e))?;
        r.get_summary().map_err(|e| format!("{}", e))
    });
    match r {
        Ok(Ok(s)) => {
            cmp_summary("bigWig", &s, &tot, &min_alts, &max_alts, &tags, out);
            // the same through sources whose reads come back short (5- and 64-byte pages): the
            // numbers must not depend on how many bytes one read call returns
            for page in [5u64, 64] {
                let r2 = guarded(|| {
                    let mut r = BigWigRead::open(crate::qfam::PagedMem::new(bytes, page)).map_err(|e| format!("{}", e))?;
                    r.get_summary().map_err(|e| format!("{}", e))
                });
                out.count("summaries_through_short_reading_sources", 1);
                match r2 {
                    Ok(Ok(s2)) => {
                        if format!("{:?}", s2) != format!("{:?}", s) {
                            out.fail("summary_depends_on_read_sizes", &tags, format!("source with {}-byte pages: {:?}, plain source {:?}", page, s2, s));
                        }
                    }
                    other => out.fail("summary_depends_on_read_sizes", &tags, format!("source with {}-byte pages: {:?}", page, other)),
                }
            }
        }
        Ok(Err(e)) => out.fail("read_error", &tags, e),
        Err(p) => out.fail("read_panicked", &tags, p),
    }
}

pub fn oracle_c06_bed(c: &BedCase, bytes: &[u8], out: &mut Outcome) {
    let tags = bed_tags(c);
    let mut tot = Stats {
        min: f64::INFINITY,
        max: f64::NEG_INFINITY,
        ..Default::default()
    };
    for ch in &c.chroms {
        let beyond = ch.items.iter().any(|i| i.e > ch.len);
        if ch.len > 200_000 || beyond {
            // no per-base array: sweep over the entries' end points (bases beyond the chromosome
            // end are covered bases like any others)
            tot = merge_stats(&tot, &bed_stats_sweep(ch));
            out.count(if beyond { "bed_chromosomes_with_entries_beyond_the_end" } else { "bed_chromosomes_of_1e8_bases" }, 1);
        } else {
            let pb = stats_of(&bed_signal(ch));
            let sw = bed_stats_sweep(ch);
            if pb.bases != sw.bases || pb.sum != sw.sum || pb.sumsq != sw.sumsq {
                out.fail("harness_panic", &[], format!("per-base and sweep references disagree: {:?} vs {:?}", pb, sw));
            }
            tot = merge_stats(&tot, &pb);
        }
    }
    let (min_alts, max_alts) = if tot.bases > 0 {
        (vec![tot.min], vec![tot.max])
    } else {
        (vec![0.0], vec![0.0])
    };
    let n: usize = c.chroms.iter().map(|c| c.items.len()).sum();
    let r = guarded(|| {
        let mut r = BigBedRead::open(Cursor::new(bytes.to_vec())).map_err(|e| format!("{}", e))?;
        let s = r.get_summary().map_err(|e| format!("{}", e))?;
        let ic = r.item_count().map_err(|e| format!("{}", e))?;
        Ok::<_, String>((s, ic))
    });
    match r {
        Ok(Ok((s, ic))) => {
            cmp_summary("bigBed", &s, &tot, &min_alts, &max_alts, &tags, out);
            for page in [5u64, 64] {
                let r2 = guarded(|| {
                    let mut r = BigBedRead::open(crate::qfam::PagedMem::new(bytes, page)).map_err(|e| format!("{}", e))?;
                    let s = r.get_summary().map_err(|e| format!("{}", e))?;
                    let ic = r.item_count().map_err(|e| format!("{}", e))?;
                    Ok::<_, String>((s, ic))
                });
                out.count("summaries_through_short_reading_sources", 1);
                match r2 {
                    Ok(Ok((s2, ic2))) => {
                        if format!("{:?}", s2) != format!("{:?}", s) || ic2 != ic {
                            out.fail("summary_depends_on_read_sizes", &tags, format!("source with {}-byte pages: {:?} / {} items, plain source {:?} / {}", page, s2, ic2, s, ic));
                        }
                    }
                    other => out.fail("summary_depends_on_read_sizes", &tags, format!("source with {}-byte pages: {:?}", page, other)),
                }
            }
            if ic != n as u64 || s.total_items != n as u64 {
                out.fail(
                    "item_count",
                    &tags,
                    format!("item_count {} / total_items {} != {} entries", ic, s.total_items, n),
                );
            }
        }
        Ok(Err(e)) => out.fail("read_error", &tags, e),
        Err(p) => out.fail("read_panicked", &tags, p),
    }
}

fn c06_opts() -> Vec<Opts> {
    let mut v = vec![];
    for two_pass in [false, true] {
        for (compress, ips) in [(true, 1024u32), (false, 1), (true, 2)] {
            let mut o = Opts::base();
            o.two_pass = two_pass;
            o.compress = compress;
            o.ips = ips;
            o.bs = if ips == 1 { 2 } else { 256 };
            v.push(o);
        }
    }
    v
}

impl Check for C06 {
    type Case = FileCase;
    fn id(&self) -> &'static str {
        "C06"
    }
    fn cases(&self, tier: Tier) -> Box<dyn Iterator<Item = FileCase> + '_> {
        let k = k_for(tier);
        let opts = c06_opts();
        let quick = tier == Tier::Quick;
        let o1 = opts.clone();
        let w = wig_layouts(k, L).into_iter().enumerate().flat_map(move |(i, l)| {
            let pick: Vec<Opts> = if quick {
                vec![o1[i % 3].clone(), o1[3 + (i + 1) % 3].clone()]
            } else {
                o1.clone()
            };
            pick.into_iter()
                .map(move |o| FileCase::Wig(wig_single(&l, i, &o)))
                .collect::<Vec<_>>()
        });
        let o2 = opts.clone();
        let b = bed_layouts(k, L).into_iter().enumerate().flat_map(move |(i, l)| {
            let pick: Vec<Opts> = if quick {
                vec![o2[i % 3].clone(), o2[3 + (i + 1) % 3].clone()]
            } else {
                o2.clone()
            };
            pick.into_iter()
                .map(move |o| FileCase::Bed(bed_single(&l, i, &o)))
                .collect::<Vec<_>>()
        });
        let o3 = opts.clone();
        let m = (0..chrom_sets().len()).flat_map(move |si| {
            let o3 = o3.clone();
            (0..8usize).flat_map(move |li| {
                o3.clone().into_iter().flat_map(move |o| {
                    vec![
                        FileCase::Wig(wig_multi(si, li, &o)),
                        FileCase::Bed(bed_multi(si, li, &o)),
                    ]
                })
            })
        });
        let tools = crate::clifam::info_tool_cases().into_iter().map(FileCase::Info);
        // large spans, entries beyond the chromosome end, u32-limit chromosomes
        let mut big = vec![];
        for o in c06_opts() {
            for variant in 0..2u32 {
                big.push(FileCase::BedLongSpans { variant, opts: o.clone() });
            }
            for lay in 0..4u32 {
                big.push(FileCase::BedBeyondEnd { lay, opts: o.clone() });
            }
            let mut oz = o.clone();
            oz.zoom = Zoom::Manual(vec![1 << 20]);
            big.push(FileCase::WigHuge { opts: oz.clone() });
            big.push(FileCase::BedHuge { opts: oz });
        }
        big.extend(hollow_cases(false));
        big.extend(hollow_cases(true));
        for n in [4096u32, 4097, 5000] {
            for two_pass in [false, true] {
                let mut o = Opts::base();
                o.two_pass = two_pass;
                o.ips = if two_pass { 1024 } else { 64 };
                big.push(FileCase::BedPile { n, opts: o });
            }
        }
        Box::new(m.chain(w).chain(b).chain(tools).chain(big.into_iter()))
    }
    fn run(&self, case: &FileCase, out: &mut Outcome) {
        match expand(case) {
            FileCase::Info(t) => {
                out.nontrivial = true;
                crate::clifam::c06_tool(&t, out);
            }
            FileCase::Wig(c) => {
                let Some(bytes) = do_write_wig(&c, out) else { return };
                structure(&bytes, c.chroms.len(), out);
                let items: usize = c.chroms.iter().map(|c| c.items.len()).sum();
                out.nontrivial = items >= 2;
                out.count("wig_cases", 1);
                oracle_c06_wig(&c, &bytes, out);
            }
            FileCase::Bed(c) => {
                let Some(bytes) = do_write_bed(&c, out) else { return };
                structure(&bytes, c.chroms.len(), out);
                let overlapping = c
                    .chroms
                    .iter()
                    .any(|ch| ch.items.windows(2).any(|w| w[0].e > w[1].s));
                if overlapping {
                    out.count("bed_cases_with_overlap", 1);
                }
                out.nontrivial = overlapping || c.chroms.len() >= 2;
                out.count("bed_cases", 1);
                oracle_c06_bed(&c, &bytes, out);
            }
            _ => {}
        }
    }
    fn space(&self, tier: Tier) -> serde_json::Value {
        let q = tier == Tier::Quick;
        json!({
            "wig_layouts": wig_layouts(k_for(tier), L).len(),
            "bed_layouts": bed_layouts(k_for(tier), L).len(),
            "options_per_layout": if q {2} else {6},
            "option_list": "single/two-pass x {(zlib, ips 1024), (raw, ips 1), (zlib, ips 2)}",
            "multi_chromosome_cases": 3 * 8 * 6 * 2,
        })
    }
}

// ---------------------------------------------------------------------------------------------
// C07 / C08: zoom levels

pub struct C07;
pub struct C08;

fn zr_from(z: &bigtools::ZoomRecord) -> ZR {
    ZR {
        start: z.start,
        end: z.end,
        valid: z.summary.bases_covered,
        min: z.summary.min_val,
        max: z.summary.max_val,
        sum: z.summary.sum,
        sumsq: z.summary.sum_squares,
    }
}

/// Generic over the two readers through closures.
fn check_zooms(
    chroms: &[(String, u32, Vec<Option<f64>>)],
    levels: &[u32],
    mut query: impl FnMut(&str, u32, u32, u32) -> Result<Vec<ZR>, String>,
    opts: &Opts,
    all_ranges: bool,
    tags: &[String],
    out: &mut Outcome,
) {
    // levels strictly increasing
    for w in levels.windows(2) {
        if w[1] <= w[0] {
            out.fail(
                "zoom_levels_not_increasing",
                tags,
                format!("zoom resolutions {:?}", levels),
            );
        }
    }
    if let Zoom::Manual(m) = &opts.zoom {
        // stored in increasing order; the header directory has room for ten levels
        let mut want = m.clone();
        want.sort();
        want.dedup();
        want.truncate(10);
        // a manual list keeps every requested level that has at least one record
        let any_data = chroms.iter().any(|c| c.2.iter().any(|x| x.is_some()));
        if any_data && levels != want.as_slice() {
            out.fail(
                "zoom_levels_manual_list",
                tags,
                format!("stored zoom levels {:?}, manual list {:?}", levels, want),
            );
        }
    }
    let mut dont_care = 0u64;
    for &res in levels {
        for (name, len, signal) in chroms {
            let full = match query(name, 0, *len, res) {
                Ok(v) => v,
                Err(e) => {
                    out.fail("zoom_read_error", tags, format!("{} res {}: {}", name, res, e));
                    continue;
                }
            };
            out.count("zoom_records_checked", full.len() as u64);
            for (k, d) in check_zoom_level(signal, res, &full, &mut dont_care) {
                out.fail(&k, tags, format!("{} res {}: {}", name, res, d));
            }
            if all_ranges {
                // a range query returns every record strictly intersecting the range, ascending
                for s in 0..=*len {
                    for e in s..=*len {
                        let got = match query(name, s, e, res) {
                            Ok(v) => v,
                            Err(err) => {
                                out.fail("zoom_read_error", tags, format!("{} [{},{}) res {}: {}", name, s, e, res, err));
                                continue;
                            }
                        };
                        out.count("zoom_range_queries", 1);
                        for r in &full {
                            let must = r.start < e && r.end > s && r.start < r.end;
                            if must && !got.iter().any(|g| g.start == r.start && g.end == r.end) {
                                out.fail(
                                    "zoom_range_query_missed_record",
                                    tags,
                                    format!("{} res {} query [{},{}) misses record [{},{})", name, res, s, e, r.start, r.end),
                                );
                            }
                        }
                        for g in &got {
                            if g.end < s || g.start > e {
                                out.fail(
                                    "zoom_range_query_disjoint_record",
                                    tags,
                                    format!("{} res {} query [{},{}) returned [{},{})", name, res, s, e, g.start, g.end),
                                );
                            }
                            if !full.iter().any(|r| r.start == g.start && r.end == g.end) {
                                out.fail(
                                    "zoom_range_query_unknown_record",
                                    tags,
                                    format!("{} res {} query [{},{}) returned [{},{}) which the full query does not list", name, res, s, e, g.start, g.end),
                                );
                            }
                        }
                        if got.windows(2).any(|w| w[1].start < w[0].start) {
                            out.fail("zoom_range_query_order", tags, format!("{} res {} query [{},{}) not ascending", name, res, s, e));
                        }
                    }
                }
            }
        }
    }
    out.count("dont_care_zero_valid_records", dont_care);
}

pub fn oracle_c07(c: &WigCase, bytes: &[u8], all_ranges: bool, out: &mut Outcome) {
    let tags = wig_tags(c);
    let r = guarded(|| {
        let mut r = match BigWigRead::open(Cursor::new(bytes.to_vec())) {
            Ok(r) => r,
            Err(e) => {
                out.fail("open_failed", &tags, format!("{}", e));
                return;
            }
        };
        let levels: Vec<u32> = r.info().zoom_headers.iter().map(|z| z.reduction_level).collect();
        let mut rc = match BigWigRead::open(Cursor::new(bytes.to_vec())) {
            Ok(r) => r.cached(),
            Err(_) => return,
        };
        let mut zoom_paths_disagree: Vec<String> = vec![];
        let mut zoom_path_queries = 0u64;
        let mut zoom_by_value_queries = 0u64;
        if !levels.is_empty() {
            out.count("files_with_zoom_levels_read", 1);
        }
        let chroms: Vec<(String, u32, Vec<Option<f64>>)> = c
            .chroms
            .iter()
            .map(|ch| (ch.name.clone(), ch.len, wig_signal(ch)))
            .collect();
        check_zooms(
            &chroms,
            &levels,
            |name, s, e, res| {
                let it = r.get_zoom_interval(name, s, e, res).map_err(|e| format!("{}", e))?;
                let mut v = vec![];
                for z in it {
                    v.push(zr_from(&z.map_err(|e| format!("{}", e))?));
                }
                // the other access paths must give the same answer: the caching reader (one instance
                // for the whole file, so earlier queries have filled its cache) and the by-value iterator
                let mut vc = vec![];
                // (every third query is preceded by a call that moves the source behind the cache's back)
                if (s + e) % 3 == 0 {
                    let _ = rc.get_summary();
                }
                for z in rc.get_zoom_interval(name, s, e, res).map_err(|e| format!("cached: {}", e))? {
                    vc.push(zr_from(&z.map_err(|e| format!("cached: {}", e))?));
                }
                // by-value iterator (a fresh reader each time): the full span and every 8th range
                let by_value = s == 0 || (s + 3 * e) % 8 == 0;
                let mut vm = vec![];
                if by_value {
                    let rm = BigWigRead::open(Cursor::new(bytes.to_vec())).map_err(|e| format!("{}", e))?;
                    for z in rm.get_zoom_interval_move(name, s, e, res).map_err(|e| format!("by-value: {}", e))? {
                        vm.push(zr_from(&z.map_err(|e| format!("by-value: {}", e))?));
                    }
                    zoom_by_value_queries += 1;
                }
                let key = |v: &Vec<ZR>| v.iter().map(|z| (z.start, z.end, z.valid, z.min.to_bits(), z.max.to_bits(), z.sum.to_bits(), z.sumsq.to_bits())).collect::<Vec<_>>();
                // ... and consumed through `Iterator::nth` (skip, step_by are built on it): nth(0)
                // repeated, nth(1) repeated or skip(2), by the range
                {
                    let pat = ((s + 2 * e) % 3) as usize;
                    let mut it = rc.get_zoom_interval(name, s, e, res).map_err(|e| format!("cached: {}", e))?;
                    let mut vn = vec![];
                    if pat < 2 {
                        while let Some(z) = it.nth(pat) {
                            vn.push(zr_from(&z.map_err(|e| format!("nth: {}", e))?));
                        }
                    } else {
                        for z in it.skip(2) {
                            vn.push(zr_from(&z.map_err(|e| format!("skip: {}", e))?));
                        }
                    }
                    let want: Vec<ZR> = match pat {
                        0 => v.clone(),
                        1 => v.iter().skip(1).step_by(2).cloned().collect(),
                        _ => v.iter().skip(2).cloned().collect(),
                    };
                    if key(&vn) != key(&want) {
                        zoom_paths_disagree.push(format!("{} res {} [{},{}): consumed with {} gives {} records, the plain loop {} (of which {} expected)", name, res, s, e, ["nth(0)", "nth(1)", "skip(2)"][pat], vn.len(), v.len(), want.len()));
                    }
                }
                if key(&vc) != key(&v) || (by_value && key(&vm) != key(&v)) {
                    zoom_paths_disagree.push(format!("{} res {} [{},{}): plain {} cached {} by-value {} records", name, res, s, e, v.len(), vc.len(), vm.len()));
                }
                zoom_path_queries += 1;
                Ok(v)
            },
            &c.opts,
            all_ranges,
            &tags,
            out,
        );
        out.count("zoom_queries_plain_and_cached", zoom_path_queries);
        out.count("zoom_queries_by_value_iterator", zoom_by_value_queries);
        for d in zoom_paths_disagree {
            out.fail("zoom_access_paths_disagree", &tags, d);
        }
    });
    if let Err(p) = r {
        out.fail("read_panicked", &tags, p);
    }
}

/// Zoom oracle without per-base arrays (chromosomes of 10^9 bases): levels strictly increasing;
/// per level and chromosome the records are ordered, disjoint and no longer than the resolution;
/// every record's covered count, sum, minimum and maximum equal those of the stored values clipped
/// to its span, and every stored base lies in a record.
pub fn oracle_c07_items(c: &WigCase, bytes: &[u8], out: &mut Outcome) {
    let tags = wig_tags(c);
    let r = guarded(|| {
        let mut r = match BigWigRead::open(Cursor::new(bytes.to_vec())) {
            Ok(r) => r,
            Err(e) => {
                out.fail("open_failed", &tags, format!("{}", e));
                return;
            }
        };
        let levels: Vec<u32> = r.info().zoom_headers.iter().map(|z| z.reduction_level).collect();
        out.count("files_with_zoom_levels_read", (!levels.is_empty()) as u64);
        if levels.windows(2).any(|w| w[1] <= w[0]) {
            out.fail("zoom_levels_not_increasing", &tags, format!("zoom resolutions {:?}", levels));
        }
        for &res in &levels {
            for ch in &c.chroms {
                let recs: Vec<bigtools::ZoomRecord> = match r.get_zoom_interval(&ch.name, 0, ch.len, res).map_err(|e| format!("{}", e)).and_then(|it| it.collect::<Result<Vec<_>, _>>().map_err(|e| format!("{}", e))) {
                    Ok(v) => v,
                    Err(e) => {
                        out.fail("zoom_read_error", &tags, format!("{} res {}: {}", ch.name, res, e));
                        continue;
                    }
                };
                out.count("zoom_records_checked", recs.len() as u64);
                let mut covered_total = 0u64;
                for (k, z) in recs.iter().enumerate() {
                    if z.end <= z.start || z.end - z.start > res || (k > 0 && z.start < recs[k - 1].end) {
                        out.fail("zoom_too_long", &tags, format!("{} res {}: record {} [{},{}) is empty, longer than the resolution or overlaps its predecessor", ch.name, res, k, z.start, z.end));
                        break;
                    }
                    let (mut n, mut sum, mut mn, mut mx) = (0u64, 0f64, f64::INFINITY, f64::NEG_INFINITY);
                    for it in &ch.items {
                        let (a, b) = (it.s.max(z.start), it.e.min(z.end));
                        if b > a {
                            n += (b - a) as u64;
                            sum += (b - a) as f64 * it.v() as f64;
                            mn = mn.min(it.v() as f64);
                            mx = mx.max(it.v() as f64);
                        }
                    }
                    covered_total += n;
                    let close = |a: f64, b: f64| (a - b).abs() <= 1e-5 * b.abs().max(1.0);
                    if z.summary.bases_covered != n || !close(z.summary.sum, sum) || (n > 0 && (!close(z.summary.min_val, mn) || !close(z.summary.max_val, mx))) {
                        out.fail("zoom_stats", &tags, format!("{} res {}: record {} [{},{}) covered {} sum {} min {} max {}, data gives {} / {} / {} / {}", ch.name, res, k, z.start, z.end, z.summary.bases_covered, z.summary.sum, z.summary.min_val, z.summary.max_val, n, sum, mn, mx));
                        break;
                    }
                }
                let want: u64 = ch.items.iter().map(|i| (i.e - i.s) as u64).sum();
                if covered_total != want {
                    out.fail("zoom_base_coverage", &tags, format!("{} res {}: records cover {} stored bases, the data has {}", ch.name, res, covered_total, want));
                }
            }
        }
    });
    if let Err(p) = r {
        out.fail("read_panicked", &tags, p);
    }
}

pub fn oracle_c08(c: &BedCase, bytes: &[u8], all_ranges: bool, out: &mut Outcome) {
    let tags = bed_tags(c);
    let r = guarded(|| {
        let mut r = match BigBedRead::open(Cursor::new(bytes.to_vec())) {
            Ok(r) => r,
            Err(e) => {
                out.fail("open_failed", &tags, format!("{}", e));
                return;
            }
        };
        let levels: Vec<u32> = r.info().zoom_headers.iter().map(|z| z.reduction_level).collect();
        let mut rc = match BigBedRead::open(Cursor::new(bytes.to_vec())) {
            Ok(r) => r.cached(),
            Err(_) => return,
        };
        let mut zoom_paths_disagree: Vec<String> = vec![];
        let mut zoom_path_queries = 0u64;
        let mut zoom_by_value_queries = 0u64;
        if !levels.is_empty() {
            out.count("files_with_zoom_levels_read", 1);
        }
        let chroms: Vec<(String, u32, Vec<Option<f64>>)> = c
            .chroms
            .iter()
            .map(|ch| (ch.name.clone(), ch.len, bed_signal(ch)))
            .collect();
        check_zooms(
            &chroms,
            &levels,
            |name, s, e, res| {
                let it = r.get_zoom_interval(name, s, e, res).map_err(|e| format!("{}", e))?;
                let mut v = vec![];
                for z in it {
                    v.push(zr_from(&z.map_err(|e| format!("{}", e))?));
                }
                // the other access paths must give the same answer: the caching reader (one instance
                // for the whole file, so earlier queries have filled its cache) and the by-value iterator
                let mut vc = vec![];
                // (every third query is preceded by a call that moves the source behind the cache's back)
                if (s + e) % 3 == 0 {
                    let _ = rc.get_summary();
                }
                for z in rc.get_zoom_interval(name, s, e, res).map_err(|e| format!("cached: {}", e))? {
                    vc.push(zr_from(&z.map_err(|e| format!("cached: {}", e))?));
                }
                // by-value iterator (a fresh reader each time): the full span and every 8th range
                let by_value = s == 0 || (s + 3 * e) % 8 == 0;
                let mut vm = vec![];
                if by_value {
                    let rm = BigBedRead::open(Cursor::new(bytes.to_vec())).map_err(|e| format!("{}", e))?;
                    for z in rm.get_zoom_interval_move(name, s, e, res).map_err(|e| format!("by-value: {}", e))? {
                        vm.push(zr_from(&z.map_err(|e| format!("by-value: {}", e))?));
                    }
                    zoom_by_value_queries += 1;
                }
                let key = |v: &Vec<ZR>| v.iter().map(|z| (z.start, z.end, z.valid, z.min.to_bits(), z.max.to_bits(), z.sum.to_bits(), z.sumsq.to_bits())).collect::<Vec<_>>();
                // ... and consumed through `Iterator::nth` (skip, step_by are built on it): nth(0)
                // repeated, nth(1) repeated or skip(2), by the range
                {
                    let pat = ((s + 2 * e) % 3) as usize;
                    let mut it = rc.get_zoom_interval(name, s, e, res).map_err(|e| format!("cached: {}", e))?;
                    let mut vn = vec![];
                    if pat < 2 {
                        while let Some(z) = it.nth(pat) {
                            vn.push(zr_from(&z.map_err(|e| format!("nth: {}", e))?));
                        }
                    } else {
                        for z in it.skip(2) {
                            vn.push(zr_from(&z.map_err(|e| format!("skip: {}", e))?));
                        }
                    }
                    let want: Vec<ZR> = match pat {
                        0 => v.clone(),
                        1 => v.iter().skip(1).step_by(2).cloned().collect(),
                        _ => v.iter().skip(2).cloned().collect(),
                    };
                    if key(&vn) != key(&want) {
                        zoom_paths_disagree.push(format!("{} res {} [{},{}): consumed with {} gives {} records, the plain loop {} (of which {} expected)", name, res, s, e, ["nth(0)", "nth(1)", "skip(2)"][pat], vn.len(), v.len(), want.len()));
                    }
                }
                if key(&vc) != key(&v) || (by_value && key(&vm) != key(&v)) {
                    zoom_paths_disagree.push(format!("{} res {} [{},{}): plain {} cached {} by-value {} records", name, res, s, e, v.len(), vc.len(), vm.len()));
                }
                zoom_path_queries += 1;
                Ok(v)
            },
            &c.opts,
            all_ranges,
            &tags,
            out,
        );
        out.count("zoom_queries_plain_and_cached", zoom_path_queries);
        out.count("zoom_queries_by_value_iterator", zoom_by_value_queries);
        for d in zoom_paths_disagree {
            out.fail("zoom_access_paths_disagree", &tags, d);
        }
    });
    if let Err(p) = r {
        out.fail("read_panicked", &tags, p);
    }
}

fn gap_features_wig(c: &WigCase, out: &mut Outcome) {
    let res: Vec<u32> = match &c.opts.zoom {
        Zoom::Manual(v) => v.clone(),
        Zoom::Auto { initial, .. } => vec![*initial],
        _ => vec![],
    };
    for ch in &c.chroms {
        for w in ch.items.windows(2) {
            let gap = w[1].s - w[0].e;
            if res.iter().any(|r| gap > *r) {
                out.count("layouts_with_gap_longer_than_resolution", 1);
                return;
            }
        }
    }
}

impl Check for C07 {
    type Case = FileCase;
    fn id(&self) -> &'static str {
        "C07"
    }
    fn cases(&self, tier: Tier) -> Box<dyn Iterator<Item = FileCase> + '_> {
        // + chromosomes of 100 000 / 50 / 7 bases with sparse data (automatic zoom lists keep and drop
        // levels there as they never do on 16-base chromosomes)
        Box::new(wig_zoom_family(tier).chain(uneven_cases(false).into_iter()).chain(mid_cases(false).into_iter()).chain(sparse_cases(false).into_iter()).chain({
            let mut v = vec![];
            for two_pass in [false, true] {
                for compress in [true, false] {
                    for zoom in [Zoom::AutoDefault, Zoom::Manual(vec![1 << 20, 1 << 26])] {
                        let mut o = Opts::base();
                        o.two_pass = two_pass;
                        o.compress = compress;
                        o.zoom = zoom;
                        v.push(FileCase::WigHugeSparse { opts: o.clone() });
                        v.push(FileCase::WigHuge { opts: o });
                    }
                }
            }
            v.into_iter()
        }))
    }
    fn run(&self, case: &FileCase, out: &mut Outcome) {
        let FileCase::Wig(c) = expand(case) else { return };
        let _cap = case_sink(case, out);
        let Some(bytes) = do_write_wig(&c, out) else { return };
        if matches!(case, FileCase::WigHugeSparse { .. } | FileCase::WigHuge { .. }) {
            // chromosomes of 10^9 bases: the oracle works from the items, not from per-base arrays
            out.nontrivial = true;
            out.count("files_with_coordinates_up_to_u32_max", 1);
            structure(&bytes, c.chroms.len(), out);
            oracle_c07_items(&c, &bytes, out);
            return;
        }
        let dec = structure(&bytes, c.chroms.len(), out);
        gap_features_wig(&c, out);
        out.nontrivial = dec.as_ref().map(|d| !d.zooms.is_empty()).unwrap_or(false)
            && c.chroms.iter().map(|c| c.items.len()).sum::<usize>() >= 2;
        // range queries on every file whose layout index is small enough to keep quick quick:
        // all multi-chromosome files and every single-chromosome file with <= 3 items
        let all_ranges = (c.chroms.iter().all(|ch| ch.items.len() <= 3) || c.chroms.len() > 1) && c.chroms.iter().all(|ch| ch.len <= 64);
        oracle_c07(&c, &bytes, all_ranges, out);
    }
    fn space(&self, tier: Tier) -> serde_json::Value {
        let q = tier == Tier::Quick;
        json!({
            "layouts_WL(k)": wig_layouts(k_for(tier), L).len(), "k": k_for(tier),
            "zoom_option_sets": zoom_opts(q).len(),
            "zoom_lists": "manual [2],[3],[4,16],[2,4,8]; auto initial 2 max 3",
            "multi_chromosome": 3 * 8 * zoom_opts(q).len(),
            "range_queries": "all 0<=s<=e<=16 on every level for files with <=3 items per chromosome and all multi-chromosome files",
        })
    }
}

impl Check for C08 {
    type Case = FileCase;
    fn id(&self) -> &'static str {
        "C08"
    }
    fn cases(&self, tier: Tier) -> Box<dyn Iterator<Item = FileCase> + '_> {
        let zo = zoom_opts(tier == Tier::Quick);
        let step = if tier == Tier::Quick { 4 } else { 1 };
        let tools = (0..3usize).flat_map(move |si| {
            let zo = zo.clone();
            (0..8usize).step_by(step).map(move |li| FileCase::ZoomTool(bed_multi(si, li, &zo[(li * 3 + si) % zo.len()])))
        });
        // the zoom tool on chromosomes of very different lengths (a short one first, a long one later)
        let tools = tools.chain((0..5u32).flat_map(|arr| {
            [false, true].into_iter().filter_map(move |two_pass| {
                let mut o = Opts::base();
                o.two_pass = two_pass;
                o.ips = if two_pass { 1024 } else { 2 };
                o.zoom = Zoom::Manual(vec![4, 64]);
                match expand(&FileCase::BedUneven { arr, opts: o }) {
                    FileCase::Bed(c) => Some(FileCase::ZoomTool(c)),
                    _ => None,
                }
            })
        }));
        Box::new(bed_zoom_family(tier).chain(tools).chain(uneven_cases(true).into_iter()).chain(mid_cases(true).into_iter()).chain(sparse_cases(true).into_iter()).chain({
            let mut v = vec![];
            for lay in 0..4u32 {
                for two_pass in [false, true] {
                    for zoom in [Zoom::Manual(vec![4]), Zoom::Manual(vec![10, 40]), Zoom::AutoDefault] {
                        let mut o = Opts::base();
                        o.two_pass = two_pass;
                        o.zoom = zoom;
                        o.ips = if lay % 2 == 0 { 1 } else { 1024 };
                        if let FileCase::Bed(c) = expand(&FileCase::BedBeyondEnd { lay, opts: o.clone() }) {
                            if !matches!(o.zoom, Zoom::AutoDefault) {
                                v.push(FileCase::ZoomTool(c));
                            }
                        }
                        v.push(FileCase::BedBeyondEnd { lay, opts: o });
                    }
                }
            }
            v.into_iter()
        }))
    }
    fn run(&self, case: &FileCase, out: &mut Outcome) {
        if let FileCase::ZoomTool(c) = case {
            out.nontrivial = true;
            crate::clifam::c08_tool(c, out);
            return;
        }
        let FileCase::Bed(c) = expand(case) else { return };
        let _cap = case_sink(case, out);
        let Some(bytes) = do_write_bed(&c, out) else { return };
        let dec = structure(&bytes, c.chroms.len(), out);
        let overlapping = c
            .chroms
            .iter()
            .any(|ch| ch.items.windows(2).any(|w| w[0].e > w[1].s));
        if overlapping {
            out.count("cases_with_overlapping_entries", 1);
        }
        out.nontrivial = dec.as_ref().map(|d| !d.zooms.is_empty()).unwrap_or(false)
            && c.chroms.iter().map(|c| c.items.len()).sum::<usize>() >= 2;
        // entries reaching beyond the chromosome end: their bases are covered bases like any others,
        // so the oracle works on chromosomes extended to the furthest entry end
        let mut cx = c.clone();
        for ch in cx.chroms.iter_mut() {
            let far = ch.items.iter().map(|i| i.e).max().unwrap_or(0);
            if far > ch.len {
                ch.len = far;
                out.count("chromosomes_with_entries_beyond_the_end", 1);
            }
        }
        let all_ranges = (cx.chroms.iter().all(|ch| ch.items.len() <= 2) || cx.chroms.len() > 1) && cx.chroms.iter().all(|ch| ch.len <= 64);
        oracle_c08(&cx, &bytes, all_ranges, out);
    }
    fn space(&self, tier: Tier) -> serde_json::Value {
        let q = tier == Tier::Quick;
        json!({
            "layouts_BL(k)": bed_layouts(k_for(tier), L).len(), "k": k_for(tier),
            "zoom_option_sets_per_layout": if q {5} else {zoom_opts(q).len()},
            "zoom_lists": "manual [2],[3],[4,16],[2,4,8]; auto initial 2 max 3",
            "multi_chromosome": 3 * 8 * zoom_opts(q).len(),
        })
    }
}

// ---------------------------------------------------------------------------------------------
// C09: well-formedness for the independent decoder

pub struct C09;

fn c09_common(
    d: &indep::Decoded,
    names: &[(String, u32)],
    opts: &Opts,
    tags: &[String],
    out: &mut Outcome,
) {
    for p in d.problems.iter().take(4) {
        // the words of the message (numbers stripped) identify the rule that was broken
        out.fail(&format!("malformed:{}", slug(p)), tags, p.clone());
    }
    // a B+ tree needs ascending keys; bigtools writes leaves in id (first-appearance) order, so
    // this is demanded only when the input named its chromosomes in ascending order
    let input_sorted = names.windows(2).all(|w| w[0].0.as_bytes() < w[1].0.as_bytes());
    if d.chrom_keys_unsorted {
        if input_sorted {
            out.fail("malformed:chromosome_tree_keys_not_sorted", tags, format!("chromosome tree keys {:?}", d.chroms));
        } else {
            out.count("dont_care_unsorted_chrom_keys_for_out_of_order_input", 1);
        }
    }
    if d.version != 4 {
        out.fail("header_version", tags, format!("version {}", d.version));
    }
    if !d.le {
        out.fail("header_byte_order", tags, "writer produced a big-endian file on a little-endian host".into());
    }
    // chromosome table: ids dense in first-appearance order, sizes as supplied
    let mut by_id: Vec<(u32, String, u32)> = d.chroms.iter().map(|c| (c.1, c.0.clone(), c.2)).collect();
    by_id.sort();
    let got: Vec<(String, u32)> = by_id.iter().map(|c| (c.1.clone(), c.2)).collect();
    if got != names {
        out.fail(
            "chrom_tree_content",
            tags,
            format!("chromosome tree (by id) {:?}, expected {:?}", got, names),
        );
    }
    if opts.compress != (d.uncompress_buf > 0) && !d.main.leaves.is_empty() {
        out.fail(
            "uncompress_buf_vs_compression",
            tags,
            format!("compress={} but uncompressBufSize={}", opts.compress, d.uncompress_buf),
        );
    }
    if d.main.block_size != opts.bs {
        out.fail("index_block_size", tags, format!("index block size {} != option {}", d.main.block_size, opts.bs));
    }
    if d.main.items_per_slot != opts.ips {
        out.fail("index_items_per_slot", tags, format!("itemsPerSlot {} != option {}", d.main.items_per_slot, opts.ips));
    }
    if d.zooms.len() > 10 {
        out.fail("too_many_zoom_levels", tags, format!("{} zoom levels", d.zooms.len()));
    }
}

fn c09_zooms(
    d: &indep::Decoded,
    signals: &[Vec<Option<f64>>],
    tags: &[String],
    out: &mut Outcome,
) {
    let mut dc = 0u64;
    for z in &d.zooms {
        for (ci, sig) in signals.iter().enumerate() {
            let recs: Vec<ZR> = z
                .blocks
                .iter()
                .flatten()
                .filter(|r| r.chrom == ci as u32)
                .map(|r| ZR {
                    start: r.start,
                    end: r.end,
                    valid: r.valid as u64,
                    min: r.min as f64,
                    max: r.max as f64,
                    sum: r.sum as f64,
                    sumsq: r.sumsq as f64,
                })
                .collect();
            out.count("zoom_records_decoded", recs.len() as u64);
            for (k, det) in check_zoom_level(sig, z.reduction, &recs, &mut dc) {
                out.fail(&k, tags, format!("decoded zoom {} chrom {}: {}", z.reduction, ci, det));
            }
        }
        // records grouped by chromosome in ascending id order
        let ids: Vec<u32> = z.blocks.iter().flatten().map(|r| r.chrom).collect();
        if ids.windows(2).any(|w| w[1] < w[0]) {
            out.fail("zoom_chrom_order", tags, format!("zoom {} records not grouped by ascending chromosome", z.reduction));
        }
    }
}

pub fn oracle_c09_wig(c: &WigCase, bytes: &[u8], out: &mut Outcome) {
    let tags = wig_tags(c);
    let d = match indep::decode(bytes) {
        Ok(d) => d,
        Err(e) => {
            out.fail("undecodable_file", &tags, e);
            return;
        }
    };
    if d.kind != indep::Kind::Wig {
        out.fail("wrong_magic", &tags, "bigWig writer produced a bigBed magic".into());
    }
    let names: Vec<(String, u32)> = c.chroms.iter().map(|c| (c.name.clone(), c.len)).collect();
    c09_common(&d, &names, &c.opts, &tags, out);
    if d.data_count != d.wig_sections.len() as u64 {
        out.fail("data_count", &tags, format!("dataCount {} != {} sections", d.data_count, d.wig_sections.len()));
    }
    // decoded records = input
    for (ci, ch) in c.chroms.iter().enumerate() {
        let got: Vec<(u32, u32, u32)> = d
            .wig_sections
            .iter()
            .filter(|s| s.chrom == ci as u32)
            .flat_map(|s| s.items.iter().map(|i| (i.0, i.1, i.2.to_bits())))
            .collect();
        let want: Vec<(u32, u32, u32)> = ch.items.iter().map(|i| (i.s, i.e, i.vb)).collect();
        if got != want {
            out.fail("decoded_records_differ", &tags, format!("{}: decoded {:?}, wrote {:?}", ch.name, got, want));
        }
    }
    if d.wig_sections.windows(2).any(|w| w[1].chrom < w[0].chrom) {
        out.fail("section_chrom_order", &tags, "sections not in ascending chromosome order".into());
    }
    // summary from decoded records
    if let Some(s) = &d.summary {
        let mut tot = Stats { min: f64::INFINITY, max: f64::NEG_INFINITY, ..Default::default() };
        for ch in &c.chroms {
            tot = merge_stats(&tot, &stats_of(&wig_signal(ch)));
        }
        if s.bases != tot.bases || !close64(s.sum, tot.sum, tot.abs_sum) || !close64(s.sumsq, tot.sumsq, tot.abs_sumsq) {
            out.fail("decoded_summary", &tags, format!("summary {:?}, data gives bases {} sum {:e} sumsq {:e}", s, tot.bases, tot.sum, tot.sumsq));
        }
    } else {
        out.fail("no_total_summary", &tags, "totalSummaryOffset is 0 in a version 4 file".into());
    }
    let signals: Vec<Vec<Option<f64>>> = c.chroms.iter().map(wig_signal).collect();
    c09_zooms(&d, &signals, &tags, out);
}

pub fn oracle_c09_bed(c: &BedCase, bytes: &[u8], out: &mut Outcome) {
    let tags = bed_tags(c);
    let d = match indep::decode(bytes) {
        Ok(d) => d,
        Err(e) => {
            out.fail("undecodable_file", &tags, e);
            return;
        }
    };
    if d.kind != indep::Kind::Bed {
        out.fail("wrong_magic", &tags, "bigBed writer produced a bigWig magic".into());
    }
    let names: Vec<(String, u32)> = c.chroms.iter().map(|c| (c.name.clone(), c.len)).collect();
    c09_common(&d, &names, &c.opts, &tags, out);
    let n: usize = c.chroms.iter().map(|c| c.items.len()).sum();
    if d.data_count != n as u64 {
        out.fail("data_count", &tags, format!("dataCount {} != {} entries", d.data_count, n));
    }
    let want_as = c.autosql.clone().unwrap_or_else(|| bigtools::bed::autosql::BED3.to_string());
    if d.autosql.as_deref() != Some(want_as.as_str()) {
        out.fail("decoded_autosql", &tags, format!("autoSql {:?}", d.autosql));
    }
    if let Some(fc) = declared_fields(&want_as) {
        if d.field_count as usize != fc || d.defined_field_count as usize > fc {
            out.fail("decoded_field_count", &tags, format!("fieldCount {} definedFieldCount {} vs {} declared", d.field_count, d.defined_field_count, fc));
        }
    }
    for (ci, ch) in c.chroms.iter().enumerate() {
        let got: Vec<(u32, u32, String)> = d
            .bed_blocks
            .iter()
            .flatten()
            .filter(|e| e.0 == ci as u32)
            .map(|e| (e.1, e.2, e.3.clone()))
            .collect();
        let want: Vec<(u32, u32, String)> = ch.items.iter().map(|i| (i.s, i.e, i.rest.clone())).collect();
        if got != want {
            out.fail("decoded_records_differ", &tags, format!("{}: decoded {:?}, wrote {:?}", ch.name, got, want));
        }
    }
    if let Some(s) = &d.summary {
        let mut tot = Stats { min: f64::INFINITY, max: f64::NEG_INFINITY, ..Default::default() };
        for ch in &c.chroms {
            tot = merge_stats(&tot, &stats_of(&bed_signal(ch)));
        }
        let minmax_ok = tot.bases == 0 || (s.min == tot.min && s.max == tot.max);
        if s.bases != tot.bases || !close64(s.sum, tot.sum, tot.abs_sum) || !close64(s.sumsq, tot.sumsq, tot.abs_sumsq) || !minmax_ok {
            out.fail("decoded_summary", &tags, format!("summary {:?}, depth gives bases {} min {} max {} sum {} sumsq {}", s, tot.bases, tot.min, tot.max, tot.sum, tot.sumsq));
        }
    } else {
        out.fail("no_total_summary", &tags, "totalSummaryOffset is 0 in a version 4 file".into());
    }
    let signals: Vec<Vec<Option<f64>>> = c.chroms.iter().map(bed_signal).collect();
    c09_zooms(&d, &signals, &tags, out);
}

impl Check for C09 {
    type Case = FileCase;
    fn id(&self) -> &'static str {
        "C09"
    }
    fn cases(&self, tier: Tier) -> Box<dyn Iterator<Item = FileCase> + '_> {
        Box::new(
            wig_family(tier)
                .chain(bed_family(tier))
                .chain(wig_zoom_family(tier))
                .chain(bed_zoom_family(tier))
                .chain(mid_cases(false).into_iter())
                .chain(mid_cases(true).into_iter())
                .chain(sparse_cases(false).into_iter())
                .chain(sparse_cases(true).into_iter())
                .chain(short_sink_cases(false).into_iter())
                .chain(short_sink_cases(true).into_iter()),
        )
    }
    fn run(&self, case: &FileCase, out: &mut Outcome) {
        let _cap = case_sink(case, out);
        match expand(case) {
            FileCase::Wig(c) => {
                let Some(bytes) = do_write_wig(&c, out) else { return };
                let dec = structure(&bytes, c.chroms.len(), out);
                out.nontrivial = dec.map(|d| d.main.leaves.len() >= 2 || !d.zooms.is_empty()).unwrap_or(false);
                out.outcome_hash = Some(fnv(&bytes));
                out.count("wig_files", 1);
                oracle_c09_wig(&c, &bytes, out);
            }
            FileCase::Bed(c) => {
                let Some(bytes) = do_write_bed(&c, out) else { return };
                let dec = structure(&bytes, c.chroms.len(), out);
                out.nontrivial = dec.map(|d| d.main.leaves.len() >= 2 || !d.zooms.is_empty()).unwrap_or(false);
                out.outcome_hash = Some(fnv(&bytes));
                out.count("bed_files", 1);
                oracle_c09_bed(&c, &bytes, out);
            }
            _ => {}
        }
    }
    fn space(&self, tier: Tier) -> serde_json::Value {
        json!({
            "union_of": ["C01 space", "C02 space", "C07 space", "C08 space"],
            "k": k_for(tier),
            "decoder": "harness/vh/src/indep.rs (byte slicing + miniz_oxide inflate; no bigtools code)",
        })
    }
}

/// Rule identifier from a decoder message: its first words with numbers and punctuation removed.
pub fn slug(msg: &str) -> String {
    let cleaned: String = msg
        .chars()
        .map(|c| if c.is_ascii_alphabetic() { c.to_ascii_lowercase() } else { ' ' })
        .collect();
    cleaned.split_whitespace().take(7).collect::<Vec<_>>().join("_")
}
