//! Reference models: per-base arrays and plain statistics.  No bigtools code.
use crate::model::*;

pub fn wig_per_base(ch: &WChrom) -> Vec<Option<f32>> {
    let mut v = vec![None; ch.len as usize];
    for it in &ch.items {
        for b in it.s..it.e {
            v[b as usize] = Some(it.v());
        }
    }
    v
}

pub fn bed_depth(ch: &BChrom) -> Vec<u32> {
    let mut v = vec![0u32; ch.len as usize];
    for it in &ch.items {
        for b in it.s..it.e.min(ch.len) {
            v[b as usize] += 1;
        }
    }
    v
}

pub fn wig_signal(ch: &WChrom) -> Vec<Option<f64>> {
    wig_per_base(ch).into_iter().map(|x| x.map(|v| v as f64)).collect()
}

pub fn bed_signal(ch: &BChrom) -> Vec<Option<f64>> {
    bed_depth(ch)
        .into_iter()
        .map(|d| if d > 0 { Some(d as f64) } else { None })
        .collect()
}

#[derive(Clone, Debug, Default)]
pub struct Stats {
    pub bases: u64,
    pub min: f64,
    pub max: f64,
    pub sum: f64,
    pub sumsq: f64,
    /// sum of |term| for the association-order-independent tolerance
    pub abs_sum: f64,
    pub abs_sumsq: f64,
}

pub fn stats_of(signal: &[Option<f64>]) -> Stats {
    let mut s = Stats {
        min: f64::INFINITY,
        max: f64::NEG_INFINITY,
        ..Default::default()
    };
    for v in signal.iter().flatten() {
        s.bases += 1;
        s.min = s.min.min(*v);
        s.max = s.max.max(*v);
        s.sum += *v;
        s.sumsq += *v * *v;
        s.abs_sum += v.abs();
        s.abs_sumsq += *v * *v;
    }
    s
}

pub fn merge_stats(a: &Stats, b: &Stats) -> Stats {
    Stats {
        bases: a.bases + b.bases,
        min: a.min.min(b.min),
        max: a.max.max(b.max),
        sum: a.sum + b.sum,
        sumsq: a.sumsq + b.sumsq,
        abs_sum: a.abs_sum + b.abs_sum,
        abs_sumsq: a.abs_sumsq + b.abs_sumsq,
    }
}

/// f64 comparison tolerant to re-association: |a-b| <= 1e-12 * (sum of |terms|) (+ tiny).
pub fn close64(a: f64, b: f64, scale: f64) -> bool {
    if a == b {
        return true;
    }
    if a.is_nan() || b.is_nan() {
        return false;
    }
    (a - b).abs() <= 1e-12 * scale.max(a.abs()).max(b.abs())
}

/// f32 comparison: equal, or within two ulps of the f32 nearest the exact value (scale guards
/// against cancellation when the terms are much larger than the result).
pub fn close32(got: f32, exact: f64, scale: f64) -> bool {
    let want = exact as f32;
    if got == want || (got.is_nan() && want.is_nan()) {
        return true;
    }
    if got.is_infinite() || want.is_infinite() {
        // overflow boundary: accept if the exact value is within 2^-22 of f32::MAX
        return exact.abs() >= (f32::MAX as f64) * (1.0 - 1e-6) && got.is_sign_positive() == (exact > 0.0);
    }
    let tol = (scale.max(exact.abs()) * 2.4e-7).max(f32::MIN_POSITIVE as f64 * 2.0);
    ((got as f64) - exact).abs() <= tol
}

#[derive(Clone, Debug)]
pub struct ZR {
    pub start: u32,
    pub end: u32,
    pub valid: u64,
    pub min: f64,
    pub max: f64,
    pub sum: f64,
    pub sumsq: f64,
}

/// Check one zoom level of one chromosome against the per-base signal.
/// Returns (kind, detail) problems.  `dont_care` counts records without any data base whose
/// covered count is 0 (consistent, although useless).
pub fn check_zoom_level(
    signal: &[Option<f64>],
    res: u32,
    recs: &[ZR],
    dont_care: &mut u64,
) -> Vec<(String, String)> {
    let mut p = vec![];
    let len = signal.len() as u32;
    let mut cover = vec![0u32; signal.len()];
    let mut prev_end = 0u32;
    let mut prev_start = 0u32;
    for (i, r) in recs.iter().enumerate() {
        if r.end < r.start {
            p.push(("zoom_record_inverted".into(), format!("record {} [{},{})", i, r.start, r.end)));
            continue;
        }
        if r.end > len {
            p.push((
                "zoom_record_beyond_chrom".into(),
                format!("record {} [{},{}) beyond chromosome length {}", i, r.start, r.end, len),
            ));
            continue;
        }
        if i > 0 {
            if r.start < prev_start {
                p.push(("zoom_order".into(), format!("record {} [{},{}) starts before its predecessor", i, r.start, r.end)));
            }
            if r.start < prev_end {
                p.push(("zoom_overlap".into(), format!("record {} [{},{}) overlaps predecessor ending at {}", i, r.start, r.end, prev_end)));
            }
        }
        prev_end = prev_end.max(r.end);
        prev_start = r.start;
        if r.end - r.start > res {
            p.push(("zoom_too_long".into(), format!("record {} [{},{}) longer than resolution {}", i, r.start, r.end, res)));
        }
        for b in r.start..r.end {
            cover[b as usize] += 1;
        }
        let st = stats_of(&signal[r.start as usize..r.end as usize]);
        if st.bases != r.valid {
            p.push((
                "zoom_valid_count".into(),
                format!("record {} [{},{}) reports {} covered bases, data has {}", i, r.start, r.end, r.valid, st.bases),
            ));
        }
        if st.bases == 0 {
            if r.valid == 0 {
                *dont_care += 1;
            }
            continue;
        }
        let chk = |name: &str, got: f64, exact: f64, scale: f64, p: &mut Vec<(String, String)>| {
            if !close32(got as f32, exact, scale) {
                p.push((
                    "zoom_stats".into(),
                    format!("record {} [{},{}) {} = {:e}, data gives {:e}", i, r.start, r.end, name, got, exact),
                ));
            }
        };
        chk("min", r.min, st.min, 0.0, &mut p);
        chk("max", r.max, st.max, 0.0, &mut p);
        chk("sum", r.sum, st.sum, st.abs_sum, &mut p);
        chk("sumsq", r.sumsq, st.sumsq, st.abs_sumsq, &mut p);
    }
    for (b, v) in signal.iter().enumerate() {
        if v.is_some() && cover[b] != 1 {
            p.push((
                "zoom_base_coverage".into(),
                format!("base {} has data but lies in {} records", b, cover[b]),
            ));
            break;
        }
    }
    p
}


/// Coverage statistics of a bigBed chromosome by a sweep over the entries' end points (no per-base
/// array: for chromosomes of 10^8 bases and more, and for entries reaching beyond the chromosome
/// end, whose bases count like any others).  Zero-length entries cover nothing.
pub fn bed_stats_sweep(ch: &BChrom) -> Stats {
    let mut ev: Vec<(u64, i64)> = vec![];
    for it in &ch.items {
        if it.e > it.s {
            ev.push((it.s as u64, 1));
            ev.push((it.e as u64, -1));
        }
    }
    ev.sort();
    let mut s = Stats { min: f64::INFINITY, max: f64::NEG_INFINITY, ..Default::default() };
    let mut depth: i64 = 0;
    let mut prev: u64 = 0;
    for (pos, d) in ev {
        if pos > prev && depth > 0 {
            let len = (pos - prev) as f64;
            let dp = depth as f64;
            s.bases += pos - prev;
            s.min = s.min.min(dp);
            s.max = s.max.max(dp);
            s.sum += len * dp;
            s.sumsq += len * dp * dp;
            s.abs_sum += len * dp;
            s.abs_sumsq += len * dp * dp;
        }
        prev = pos;
        depth += d;
    }
    s
}

/// Statistics of a bigWig chromosome from its (non-overlapping) values, weighted by length.
pub fn wig_stats_items(ch: &WChrom) -> Stats {
    let mut s = Stats { min: f64::INFINITY, max: f64::NEG_INFINITY, ..Default::default() };
    for it in &ch.items {
        if it.e > it.s {
            let len = (it.e - it.s) as f64;
            let v = it.v() as f64;
            s.bases += (it.e - it.s) as u64;
            s.min = s.min.min(v);
            s.max = s.max.max(v);
            s.sum += len * v;
            s.sumsq += len * v * v;
            s.abs_sum += len * v.abs();
            s.abs_sumsq += len * v * v;
        }
    }
    s
}
