//! `crossbeam_utils::atomic::AtomicCell` cannot be compiled under loom; the one operation
//! tempfilebuffer.rs uses, `swap`, is modelled as an atomic exchange (a loom mutex held only for
//! the exchange), which gives loom a scheduling point before and after it.
pub struct AtomicCell<T>(loom::sync::Mutex<T>);

impl<T> AtomicCell<T> {
    pub fn new(v: T) -> Self {
        AtomicCell(loom::sync::Mutex::new(v))
    }
    pub fn swap(&self, v: T) -> T {
        std::mem::replace(&mut *self.0.lock().unwrap(), v)
    }
    /// crossbeam's `store`: an exchange whose old value is dropped
    pub fn store(&self, v: T) {
        drop(self.swap(v));
    }
    pub fn into_inner(self) -> T {
        self.0.into_inner().unwrap()
    }
}

impl<T: Default> AtomicCell<T> {
    /// crossbeam's `take`: exchange with the default value
    pub fn take(&self) -> T {
        self.swap(T::default())
    }
}

impl<T: Copy> AtomicCell<T> {
    pub fn load(&self) -> T {
        *self.0.lock().unwrap()
    }
}
