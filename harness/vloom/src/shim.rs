//! `crossbeam_utils::atomic::AtomicCell` cannot be compiled under loom; the one operation
//! tempfilebuffer.rs uses, `swap`, is modelled as an atomic exchange (a loom mutex held only for
//! the exchange), which gives loom a scheduling point before and after it.
pub struct AtomicCell<T>(loom::sync::Mutex<T>);

impl<T> AtomicCell<T> {
    pub fn new(v: T) -> Self {
        AtomicCell(loom::sync::Mutex::new(v))
    }
    pub fn swap(&self, v: T) -> T {
        std::mem::replace(&mut *self.0.lock().unwrap(), v)
    }
}
