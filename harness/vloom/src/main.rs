//! C12: exhaustive interleaving exploration (loom) of the real tempfilebuffer.rs.
#![allow(dead_code)]
mod shim;
#[allow(unused_imports, unused_variables, unused_mut)]
mod tfb {
    include!(concat!(env!("OUT_DIR"), "/tempfilebuffer.rs"));
}
#[path = "../../vh/src/sup.rs"]
mod sup;

use serde::{Deserialize, Serialize};
use serde_json::json;
use std::collections::HashSet;
use std::io::{BufWriter, Write};
use std::sync::atomic::{AtomicU64, Ordering};
use std::sync::Mutex as StdMutex;
use sup::*;
use tfb::{TempFileBuffer, TempFileBufferWriter};

#[derive(Clone, Debug, Serialize, Deserialize, PartialEq)]
pub enum Prog {
    /// consumer: switch(dest); await_real_file()
    SwitchAwait,
    /// consumer never switches: expect_closed_write(&mut dest)
    ClosedWrite,
    /// consumer: len(); expect_closed_write  (the write_zooms pattern)
    LenClosedWrite,
    /// consumer: switch; poll is_real_file_ready with yields; await_real_file  (converters)
    SwitchPollAwait,
    /// consumer: len() alone
    LenOnly,
    /// zoom pattern: two per-chromosome buffers whose destination is the writer half of a global
    /// buffer; then len(); expect_closed_write on the global one.  `second` = writes of the
    /// second producer.
    Nested { second: Vec<usize> },
    /// two-level stack whose lower (global) buffer IS switched to its destination: before the first
    /// per-chromosome buffer is handed over (0), between the two (1, the global buffer then holds
    /// staged bytes of its own when the second hand-over copies into it) or after both (2); then
    /// await_real_file on the global buffer
    NestedSwitch { second: Vec<usize>, switch_at: u8 },
    /// ONE producer thread writes through two successive buffers (as a pipeline task does for
    /// successive chromosomes): the first is switched mid-stream by the consumer, the second is
    /// read back with len(); expect_closed_write.  Nothing of the first stream may show up in the
    /// second (state parked per thread would).
    Successive { second: Vec<usize> },
    /// the consumer half shared by two threads: one polls is_real_file_ready (with yields), one
    /// waits in len(); both must come back once the producer is done
    TwoConsumers,
    /// the producer offers all its chunks at once through `write_vectored` and advances by the count
    /// reported (what `write_all_vectored` does); consumer: switch; await_real_file
    VectoredProducer,
    /// the producer fails (panics) after its last write, so its writer half is dropped while the
    /// thread unwinds: the consumer still gets the bytes written until then and is not left waiting
    PanickingProducer,
}

#[derive(Clone, Debug, Serialize, Deserialize)]
pub struct Scen {
    pub writes: Vec<usize>,
    /// flush after this many writes (None = never)
    pub flush_after: Option<usize>,
    pub inmemory: bool,
    pub prog: Prog,
    /// wrap the writer half in a BufWriter of capacity 2, as the pipeline does (capacity 8 KiB there)
    pub bufwriter: bool,
    /// None = all schedules (unbounded DPOR); Some(k) = all schedules with at most k preemptions
    #[serde(default)]
    pub preemption_bound: Option<usize>,
    /// the destination accepts at most two bytes per write call (legal `Write` behaviour)
    #[serde(default)]
    pub short_dest: bool,
    /// the destination answers its first write call with ErrorKind::Interrupted (a retry request,
    /// not a failure: write_all and BufWriter retry it)
    #[serde(default)]
    pub interrupt_dest: bool,
}

/// Destination that records the size of every write call it receives.
#[derive(Default, Debug)]
pub struct Dest {
    pub data: Vec<u8>,
    pub calls: Vec<usize>,
    pub short: bool,
    pub interrupt_next: bool,
}
impl Dest {
    fn new(short: bool) -> Dest {
        Dest { data: vec![], calls: vec![], short, interrupt_next: false }
    }
    fn interrupting(short: bool) -> Dest {
        Dest { data: vec![], calls: vec![], short, interrupt_next: true }
    }
}
impl Write for Dest {
    fn write(&mut self, buf: &[u8]) -> std::io::Result<usize> {
        if self.interrupt_next && !buf.is_empty() {
            self.interrupt_next = false;
            return Err(std::io::Error::new(std::io::ErrorKind::Interrupted, "interrupted, try again"));
        }
        let n = if self.short { buf.len().min(2) } else { buf.len() };
        self.data.extend_from_slice(&buf[..n]);
        self.calls.push(n);
        Ok(n)
    }
    fn flush(&mut self) -> std::io::Result<()> {
        Ok(())
    }
}

static EXECUTIONS: AtomicU64 = AtomicU64::new(0);
static OUTCOMES: StdMutex<Option<HashSet<Vec<usize>>>> = StdMutex::new(None);

fn record_outcome(calls: &[usize]) {
    let mut g = OUTCOMES.lock().unwrap();
    g.get_or_insert_with(HashSet::new).insert(calls.to_vec());
}

fn payload(writes: &[usize], base: u8) -> Vec<Vec<u8>> {
    let mut n = base;
    writes
        .iter()
        .map(|sz| {
            (0..*sz)
                .map(|_| {
                    n = n.wrapping_add(1);
                    n
                })
                .collect()
        })
        .collect()
}

fn produce<W: Write>(mut w: W, chunks: &[Vec<u8>], flush_after: Option<usize>) {
    for (i, c) in chunks.iter().enumerate() {
        w.write_all(c).expect("write to staging buffer failed");
        if flush_after == Some(i + 1) {
            w.flush().expect("flush failed");
        }
    }
    // dropping the writer publishes the final state
}

fn spawn_producer<R: Write + Send + 'static>(
    writer: TempFileBufferWriter<R>,
    chunks: Vec<Vec<u8>>,
    flush_after: Option<usize>,
    bufwriter: bool,
) -> loom::thread::JoinHandle<()> {
    loom::thread::spawn(move || {
        if bufwriter {
            let bw = BufWriter::with_capacity(2, writer);
            produce(bw, &chunks, flush_after);
        } else {
            produce(writer, &chunks, flush_after);
        }
    })
}

fn one_execution(s: &Scen) {
    EXECUTIONS.fetch_add(1, Ordering::Relaxed);
    let chunks = payload(&s.writes, 0);
    let all: Vec<u8> = chunks.iter().flatten().cloned().collect();
    match &s.prog {
        Prog::Nested { second } => {
            let chunks2 = payload(second, 100);
            let all2: Vec<u8> = chunks2.iter().flatten().cloned().collect();
            let (gbuf, gwriter) = TempFileBuffer::<Dest>::new(s.inmemory);
            let _ = Dest::new(false);
            let (mut c1, w1) = TempFileBuffer::<TempFileBufferWriter<Dest>>::new(s.inmemory);
            let (mut c2, w2) = TempFileBuffer::<TempFileBufferWriter<Dest>>::new(s.inmemory);
            let h1 = spawn_producer(w1, chunks.clone(), s.flush_after, s.bufwriter);
            let h2 = spawn_producer(w2, chunks2.clone(), None, s.bufwriter);
            // chromosome 1, then chromosome 2, each spliced into the global staging buffer
            c1.switch(gwriter);
            let gwriter = c1.await_real_file();
            c2.switch(gwriter);
            let gwriter = c2.await_real_file();
            drop(gwriter);
            let total = (all.len() + all2.len()) as u64;
            let len = gbuf.len().expect("len failed");
            assert_eq!(len, total, "len() = {} but {} bytes were written", len, total);
            let mut out = Dest::new(s.short_dest);
            gbuf.expect_closed_write(&mut out).expect("expect_closed_write failed");
            let mut want = all.clone();
            want.extend_from_slice(&all2);
            assert_eq!(out.data, want, "nested: destination bytes differ from the bytes written");
            record_outcome(&out.calls);
            h1.join().unwrap();
            h2.join().unwrap();
        }
        Prog::Successive { second } => {
            let chunks2 = payload(second, 100);
            let all2: Vec<u8> = chunks2.iter().flatten().cloned().collect();
            let (mut b1, w1) = TempFileBuffer::<Dest>::new(s.inmemory);
            let (b2, w2) = TempFileBuffer::<Dest>::new(s.inmemory);
            let (c1, c2, fl) = (chunks.clone(), chunks2.clone(), s.flush_after);
            let h = loom::thread::spawn(move || {
                produce(w1, &c1, fl);
                produce(w2, &c2, None);
            });
            b1.switch(Dest::new(s.short_dest));
            let d1 = b1.await_real_file();
            assert_eq!(d1.data, all, "first of two successive buffers: destination bytes differ from the bytes written");
            let len = b2.len().expect("len failed");
            assert_eq!(len, all2.len() as u64, "len() = {} but {} bytes were written to the second buffer", len, all2.len());
            let mut out = Dest::new(s.short_dest);
            b2.expect_closed_write(&mut out).expect("expect_closed_write failed");
            assert_eq!(out.data, all2, "second of two successive buffers: destination bytes differ from the bytes written");
            record_outcome(&d1.calls);
            h.join().unwrap();
        }
        Prog::VectoredProducer => {
            let (mut buf, writer) = TempFileBuffer::<Dest>::new(s.inmemory);
            let c = chunks.clone();
            let h = loom::thread::spawn(move || {
                let mut w = writer;
                let flat: Vec<u8> = c.iter().flatten().cloned().collect();
                let mut done = 0usize;
                while done < flat.len() {
                    let mut slices = vec![];
                    let mut off = 0usize;
                    for ch in &c {
                        let end = off + ch.len();
                        if end > done {
                            slices.push(std::io::IoSlice::new(&flat[done.max(off)..end]));
                        }
                        off = end;
                    }
                    let n = w.write_vectored(&slices).expect("write_vectored failed");
                    assert!(n > 0 && done + n <= flat.len(), "write_vectored reported {} bytes of {} offered", n, flat.len() - done);
                    done += n;
                }
            });
            buf.switch(Dest::new(s.short_dest));
            let d = buf.await_real_file();
            assert_eq!(d.data, all, "vectored producer: destination bytes differ from the bytes written");
            record_outcome(&d.calls);
            h.join().unwrap();
        }
        Prog::PanickingProducer => {
            let (mut buf, writer) = TempFileBuffer::<Dest>::new(s.inmemory);
            let c = chunks.clone();
            let h = loom::thread::spawn(move || {
                let prev = std::panic::take_hook();
                std::panic::set_hook(Box::new(|_| {}));
                let _ = std::panic::catch_unwind(std::panic::AssertUnwindSafe(move || {
                    let mut w = writer;
                    for ch in &c {
                        w.write_all(ch).unwrap();
                    }
                    panic!("the producer fails after its last write");
                }));
                std::panic::set_hook(prev);
            });
            buf.switch(Dest::new(s.short_dest));
            let d = buf.await_real_file();
            assert_eq!(d.data, all, "panicking producer: destination bytes differ from the bytes written before the failure");
            record_outcome(&d.calls);
            h.join().unwrap();
        }
        Prog::TwoConsumers => {
            let (buf, writer) = TempFileBuffer::<Dest>::new(s.inmemory);
            let h = spawn_producer(writer, chunks.clone(), s.flush_after, s.bufwriter);
            let buf = loom::sync::Arc::new(buf);
            let (b1, b2) = (buf.clone(), buf.clone());
            let poller = loom::thread::spawn(move || {
                while !b1.is_real_file_ready() {
                    loom::thread::yield_now();
                }
            });
            let want_len = all.len() as u64;
            let asker = loom::thread::spawn(move || {
                let len = b2.len().expect("len failed");
                assert_eq!(len, want_len, "len() = {} but {} bytes were written", len, want_len);
            });
            poller.join().unwrap();
            asker.join().unwrap();
            h.join().unwrap();
            let buf = loom::sync::Arc::try_unwrap(buf).ok().expect("consumer half still shared");
            let mut out = Dest::new(s.short_dest);
            buf.expect_closed_write(&mut out).expect("expect_closed_write failed");
            assert_eq!(out.data, all, "two consumers: copied bytes differ from the bytes written");
            record_outcome(&out.calls);
        }
        Prog::NestedSwitch { second, switch_at } => {
            let chunks2 = payload(second, 100);
            let all2: Vec<u8> = chunks2.iter().flatten().cloned().collect();
            let (mut gbuf, gwriter) = TempFileBuffer::<Dest>::new(s.inmemory);
            let (mut c1, w1) = TempFileBuffer::<TempFileBufferWriter<Dest>>::new(s.inmemory);
            let (mut c2, w2) = TempFileBuffer::<TempFileBufferWriter<Dest>>::new(s.inmemory);
            let h1 = spawn_producer(w1, chunks.clone(), s.flush_after, s.bufwriter);
            let h2 = spawn_producer(w2, chunks2.clone(), None, s.bufwriter);
            if *switch_at == 0 {
                gbuf.switch(Dest::new(s.short_dest));
            }
            c1.switch(gwriter);
            let gwriter = c1.await_real_file();
            if *switch_at == 1 {
                gbuf.switch(Dest::new(s.short_dest));
            }
            c2.switch(gwriter);
            let gwriter = c2.await_real_file();
            if *switch_at == 2 {
                gbuf.switch(Dest::new(s.short_dest));
            }
            drop(gwriter);
            let d = gbuf.await_real_file();
            let mut want = all.clone();
            want.extend_from_slice(&all2);
            assert_eq!(d.data, want, "nested, lower buffer switched: destination bytes differ from the bytes written");
            record_outcome(&d.calls);
            h1.join().unwrap();
            h2.join().unwrap();
        }
        prog => {
            let (mut buf, writer) = TempFileBuffer::<Dest>::new(s.inmemory);
            let h = spawn_producer(writer, chunks.clone(), s.flush_after, s.bufwriter);
            match prog {
                Prog::SwitchAwait => {
                    buf.switch(if s.interrupt_dest { Dest::interrupting(s.short_dest) } else { Dest::new(s.short_dest) });
                    let d = buf.await_real_file();
                    assert_eq!(d.data, all, "destination bytes differ from the bytes written");
                    record_outcome(&d.calls);
                }
                Prog::SwitchPollAwait => {
                    buf.switch(if s.interrupt_dest { Dest::interrupting(s.short_dest) } else { Dest::new(s.short_dest) });
                    while !buf.is_real_file_ready() {
                        loom::thread::yield_now();
                    }
                    let d = buf.await_real_file();
                    assert_eq!(d.data, all, "destination bytes differ from the bytes written");
                    record_outcome(&d.calls);
                }
                Prog::ClosedWrite => {
                    let mut out = if s.interrupt_dest { Dest::interrupting(s.short_dest) } else { Dest::new(s.short_dest) };
                    buf.expect_closed_write(&mut out).expect("expect_closed_write failed");
                    assert_eq!(out.data, all, "copied bytes differ from the bytes written");
                    record_outcome(&out.calls);
                }
                Prog::LenClosedWrite => {
                    let len = buf.len().expect("len failed");
                    assert_eq!(len, all.len() as u64, "len() = {} but {} bytes were written", len, all.len());
                    let mut out = Dest::new(s.short_dest);
                    buf.expect_closed_write(&mut out).expect("expect_closed_write failed");
                    assert_eq!(out.data, all, "copied bytes differ from the bytes written");
                    record_outcome(&out.calls);
                }
                Prog::LenOnly => {
                    let len = buf.len().expect("len failed");
                    assert_eq!(len, all.len() as u64, "len() = {} but {} bytes were written", len, all.len());
                    record_outcome(&[len as usize]);
                }
                Prog::Nested { .. } | Prog::NestedSwitch { .. } | Prog::Successive { .. } | Prog::TwoConsumers | Prog::PanickingProducer | Prog::VectoredProducer => unreachable!(),
            }
            h.join().unwrap();
        }
    }
}

pub struct C12;

fn write_histories(max_n: usize) -> Vec<Vec<usize>> {
    // all sequences of n in 0..=max_n writes with sizes from {0, 1, 3}, simplest first
    let mut out = vec![vec![]];
    let mut layer = vec![vec![]];
    for _ in 0..max_n {
        let mut next = vec![];
        for h in &layer {
            for sz in [0usize, 1, 3] {
                let mut x: Vec<usize> = h.clone();
                x.push(sz);
                next.push(x);
            }
        }
        out.extend(next.iter().cloned());
        layer = next;
    }
    out
}

impl Check for C12 {
    type Case = Scen;
    fn id(&self) -> &'static str {
        "C12"
    }
    fn cases(&self, tier: Tier) -> Box<dyn Iterator<Item = Scen> + '_> {
        let quick = tier == Tier::Quick;
        let mut v = vec![];
        let hist = write_histories(if quick { 3 } else { 4 });
        let progs = [
            Prog::SwitchAwait,
            Prog::ClosedWrite,
            Prog::LenClosedWrite,
            Prog::SwitchPollAwait,
            Prog::LenOnly,
        ];
        for inmemory in [true, false] {
            for prog in &progs {
                for h in &hist {
                    // a flush in the middle and one after the last write (a switch may be pending at either)
                    let flushes: Vec<Option<usize>> = if h.is_empty() {
                        vec![None]
                    } else if quick {
                        if h.len() <= 2 && matches!(prog, Prog::SwitchAwait | Prog::SwitchPollAwait) {
                            vec![None, Some(1), Some(h.len())]
                        } else {
                            vec![None]
                        }
                    } else {
                        vec![None, Some(1), Some(h.len())]
                    };
                    for fl in flushes {
                        v.push(Scen {
                            writes: h.clone(),
                            flush_after: fl,
                            inmemory,
                            prog: prog.clone(),
                            bufwriter: false,
                            preemption_bound: None,
                            short_dest: false,
                            interrupt_dest: false,
                        });
                        // the same against a destination that takes two bytes per call
                        if h.iter().any(|w| *w == 3) && (h.len() <= 2 || !quick) && *prog != Prog::LenOnly {
                            v.push(Scen {
                                writes: h.clone(),
                                flush_after: fl,
                                inmemory,
                                prog: prog.clone(),
                                bufwriter: false,
                                preemption_bound: None,
                                short_dest: true,
                                interrupt_dest: false,
                            });
                        }
                    }
                }
            }
            // staged lengths that are multiples of 4 KiB up to 128 KiB (256 KiB thorough), one write:
            // whatever piece size a copy of the staged bytes uses, a whole number of pieces is among them
            for k in 1..=(if quick { 32usize } else { 64 }) {
                for prog in [Prog::SwitchAwait, Prog::LenClosedWrite] {
                    v.push(Scen { writes: vec![4096 * k], flush_after: None, inmemory, prog, bufwriter: false, preemption_bound: Some(2), short_dest: false, interrupt_dest: false });
                }
            }
            // a producer that writes through write_vectored
            for h in hist.iter().filter(|h| h.len() == 2 || (h.len() == 3 && !quick)) {
                for short_dest in [false, true] {
                    v.push(Scen { writes: h.clone(), flush_after: None, inmemory, prog: Prog::VectoredProducer, bufwriter: false, preemption_bound: None, short_dest, interrupt_dest: false });
                }
            }
            // a producer that fails after its last write
            for h in hist.iter().filter(|h| h.len() <= 2) {
                v.push(Scen { writes: h.clone(), flush_after: None, inmemory, prog: Prog::PanickingProducer, bufwriter: false, preemption_bound: None, short_dest: false, interrupt_dest: false });
            }
            // two threads on the consumer half
            for h in hist.iter().filter(|h| h.len() <= 2) {
                v.push(Scen { writes: h.clone(), flush_after: None, inmemory, prog: Prog::TwoConsumers, bufwriter: false, preemption_bound: Some(3), short_dest: false, interrupt_dest: false });
            }
            // BufWriter-wrapped producer (as in write_data): byte-granular writes regrouped
            for prog in [Prog::SwitchAwait, Prog::LenClosedWrite] {
                for h in [vec![1usize, 3], vec![3, 3, 1]] {
                    v.push(Scen {
                        writes: h,
                        flush_after: None,
                        inmemory,
                        prog: prog.clone(),
                        bufwriter: true,
                        preemption_bound: None,
                        short_dest: false,
                        interrupt_dest: false,
                    });
                }
            }
            // nested (zoom) pattern, three threads; the larger ones are preemption-bounded
            let nested: Vec<(Vec<usize>, Vec<usize>, Option<usize>)> = if quick {
                vec![
                    (vec![], vec![], None),
                    (vec![1], vec![], None),
                    (vec![], vec![1], None),
                    (vec![1], vec![1], Some(2)),
                ]
            } else {
                vec![
                    (vec![], vec![], None),
                    (vec![1], vec![], None),
                    (vec![], vec![1], None),
                    (vec![1], vec![1], None),
                    (vec![3, 1], vec![1], None),
                    (vec![1, 1], vec![3, 1], Some(3)),
                    (vec![1, 3, 1], vec![3, 1, 1], Some(2)),
                ]
            };
            // a destination that answers its first write call with Interrupted
            for prog in [Prog::SwitchAwait, Prog::ClosedWrite, Prog::SwitchPollAwait] {
                for h in [vec![1usize], vec![3, 1], vec![1, 3, 1]] {
                    v.push(Scen {
                        writes: h,
                        flush_after: None,
                        inmemory,
                        prog: prog.clone(),
                        bufwriter: false,
                        preemption_bound: None,
                        short_dest: false,
                        interrupt_dest: true,
                    });
                }
            }
            // one producer thread, two successive buffers
            for (a, b) in [(vec![1usize, 1], vec![1usize]), (vec![3, 1], vec![1, 3]), (vec![1], vec![])] {
                v.push(Scen {
                    writes: a,
                    flush_after: None,
                    inmemory,
                    prog: Prog::Successive { second: b },
                    bufwriter: false,
                    preemption_bound: None,
                    short_dest: false,
                    interrupt_dest: false,
                });
            }
            // two-level stacks whose lower buffer is switched at each of the three possible moments
            for switch_at in 0..3u8 {
                let list: Vec<(Vec<usize>, Vec<usize>, Option<usize>)> = if quick {
                    vec![(vec![1], vec![1], Some(2))]
                } else {
                    vec![(vec![1], vec![1], None), (vec![3, 1], vec![1], Some(3)), (vec![1], vec![], None), (vec![], vec![3], None)]
                };
                for (a, b, pb) in list {
                    v.push(Scen {
                        writes: a,
                        flush_after: None,
                        inmemory,
                        prog: Prog::NestedSwitch { second: b, switch_at },
                        bufwriter: false,
                        preemption_bound: pb,
                        short_dest: false,
                        interrupt_dest: false,
                    });
                }
            }
            for (a, b, pb) in nested {
                v.push(Scen {
                    writes: a,
                    flush_after: None,
                    inmemory,
                    prog: Prog::Nested { second: b },
                    bufwriter: false,
                    preemption_bound: pb,
                    short_dest: false,
                    interrupt_dest: false,
                });
            }
        }
        Box::new(v.into_iter())
    }
    fn run(&self, s: &Scen, out: &mut Outcome) {
        let before = EXECUTIONS.load(Ordering::Relaxed);
        *OUTCOMES.lock().unwrap() = None;
        let s2 = s.clone();
        let pb = s.preemption_bound;
        if pb.is_some() {
            out.count("scenarios_with_preemption_bound", 1);
        } else {
            out.count("scenarios_unbounded", 1);
        }
        let r = guarded(move || {
            let mut b = loom::model::Builder::new();
            b.max_branches = 200_000;
            if pb.is_some() {
                b.preemption_bound = pb;
            }
            // unbounded DPOR unless LOOM_MAX_PREEMPTIONS is set in the environment
            b.check(move || one_execution(&s2));
        });
        let execs = EXECUTIONS.load(Ordering::Relaxed) - before;
        out.count("executions", execs);
        out.count("scenarios", 1);
        let n_out = OUTCOMES.lock().unwrap().as_ref().map(|h| h.len()).unwrap_or(0);
        out.count("distinct_delivery_patterns", n_out as u64);
        if n_out >= 2 {
            out.count("scenarios_with_2+_delivery_patterns", 1);
        }
        if matches!(s.prog, Prog::Successive { .. }) {
            out.count("successive_buffer_scenarios", 1);
        }
        if matches!(s.prog, Prog::NestedSwitch { .. }) {
            out.count("nested_scenarios_with_switched_lower_buffer", 1);
        }
        if matches!(s.prog, Prog::Nested { .. }) {
            out.count("nested_scenarios", 1);
        }
        if s.short_dest {
            out.count("short_write_destination_scenarios", 1);
        }
        if s.interrupt_dest {
            out.count("interrupting_destination_scenarios", 1);
        }
        if s.inmemory {
            out.count("inmemory_scenarios", 1);
        } else {
            out.count("tempfile_scenarios", 1);
        }
        out.nontrivial = execs >= 2;
        out.outcome_hash = Some(execs.wrapping_mul(31).wrapping_add(n_out as u64));
        if let Err(p) = r {
            let kind = if p.contains("deadlock") {
                "deadlock"
            } else if p.contains("differ") {
                "bytes_lost_duplicated_or_reordered"
            } else if p.contains("len()") {
                "wrong_staged_length"
            } else {
                "panic_in_some_interleaving"
            };
            out.fail(kind, &[], p);
        }
    }
    fn space(&self, tier: Tier) -> serde_json::Value {
        let q = tier == Tier::Quick;
        json!({
            "producer_histories": write_histories(if q {3} else {4}).len(),
            "write_sizes": [0, 1, 3], "max_writes": if q {3} else {4},
            "staging": ["in-memory", "temp-file"],
            "consumer_programs": ["switch;await", "expect_closed_write", "len;expect_closed_write", "switch;poll;await", "len"],
            "nested_three_thread_scenarios": if q {"4 per staging kind; the largest bounded to 2 preemptions"} else {"7 per staging kind; the two largest bounded to 3 and 2 preemptions"},
            "bufwriter_scenarios": 4,
            "schedules": "all (loom DPOR, no preemption bound unless the scenario says so) at every Mutex / Condvar / atomic-cell operation",
        })
    }
    fn case_cap_s(&self) -> u64 {
        600
    }
}

fn main() {
    let argv: Vec<String> = std::env::args().collect();
    let args = parse_args(&argv[1..]);
    std::process::exit(run_check(&C12, &args));
}
