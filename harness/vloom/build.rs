//! Copies the real tempfilebuffer.rs into OUT_DIR, rewriting only its two synchronisation
//! imports so that every Mutex / Condvar / Arc / atomic-cell operation becomes a loom scheduling
//! point.  Fails the build if the source no longer has exactly those imports.
use std::path::PathBuf;

fn main() {
    let root = std::env::var("BIGTOOLS_SRC").unwrap_or_else(|_| "/repo/bigtools".to_string());
    let src = PathBuf::from(&root).join("src/utils/file/tempfilebuffer.rs");
    println!("cargo:rerun-if-changed={}", src.display());
    println!("cargo:rerun-if-env-changed=BIGTOOLS_SRC");
    let text = std::fs::read_to_string(&src).expect("read tempfilebuffer.rs");
    let a = "use std::sync::{Arc, Condvar, Mutex};";
    let b = "use crossbeam_utils::atomic::AtomicCell;";
    assert_eq!(text.matches(a).count(), 1, "expected exactly one `{}`", a);
    assert_eq!(text.matches(b).count(), 1, "expected exactly one `{}`", b);
    assert!(
        !text.contains("unsafe"),
        "tempfilebuffer.rs now contains `unsafe`: the loom check's no-data-race argument needs review"
    );
    let mut out = text
        .replace(a, "use loom::sync::{Arc, Condvar, Mutex};")
        .replace(b, "use crate::shim::AtomicCell;");
    if let Some(i) = out.find("#[cfg(test)]") {
        out.truncate(i);
    }
    // thread-local statics become loom's (fresh per execution and per loom thread); any other
    // static would be state shared between executions and invisible to loom
    out = out.replace("std::thread_local!", "thread_local!").replace("thread_local!", "loom::thread_local!");
    let mut outside = String::new();
    let mut rest = out.as_str();
    while let Some(i) = rest.find("loom::thread_local!") {
        outside.push_str(&rest[..i]);
        let after = &rest[i..];
        let open = after.find('{').expect("thread_local! without a block");
        let mut depth = 0usize;
        let mut end = after.len();
        for (j, ch) in after[open..].char_indices() {
            match ch {
                '{' => depth += 1,
                '}' => {
                    depth -= 1;
                    if depth == 0 {
                        end = open + j + 1;
                        break;
                    }
                }
                _ => {}
            }
        }
        rest = &after[end..];
    }
    outside.push_str(rest);
    // any other std::sync / crossbeam use left would be invisible to loom
    // (`std::thread::panicking()` is a question about the current thread, not a primitive)
    let checked = out.replace("std::thread::panicking", "thread_panicking");
    for bad in ["std::sync", "crossbeam", "std::thread", "parking_lot"] {
        assert!(
            !checked.contains(bad),
            "rewritten tempfilebuffer.rs still mentions `{}`",
            bad
        );
    }
    assert!(
        !outside.contains("static "),
        "rewritten tempfilebuffer.rs has a `static` outside thread_local!: state shared between executions"
    );
    let dest = PathBuf::from(std::env::var("OUT_DIR").unwrap()).join("tempfilebuffer.rs");
    std::fs::write(dest, out).unwrap();
}
