//! Copies the real tempfilebuffer.rs into OUT_DIR, rewriting only its two synchronisation
//! imports so that every Mutex / Condvar / Arc / atomic-cell operation becomes a loom scheduling
//! point.  Fails the build if the source no longer has exactly those imports.
use std::path::PathBuf;

fn main() {
    let root = std::env::var("BIGTOOLS_SRC").unwrap_or_else(|_| "/repo/bigtools".to_string());
    let src = PathBuf::from(&root).join("src/utils/file/tempfilebuffer.rs");
    println!("cargo:rerun-if-changed={}", src.display());
    println!("cargo:rerun-if-env-changed=BIGTOOLS_SRC");
    let text = std::fs::read_to_string(&src).expect("read tempfilebuffer.rs");
    let a = "use std::sync::{Arc, Condvar, Mutex};";
    let b = "use crossbeam_utils::atomic::AtomicCell;";
    assert_eq!(text.matches(a).count(), 1, "expected exactly one `{}`", a);
    assert_eq!(text.matches(b).count(), 1, "expected exactly one `{}`", b);
    assert!(
        !text.contains("unsafe"),
        "tempfilebuffer.rs now contains `unsafe`: the loom check's no-data-race argument needs review"
    );
    let mut out = text
        .replace(a, "use loom::sync::{Arc, Condvar, Mutex};")
        .replace(b, "use crate::shim::AtomicCell;");
    if let Some(i) = out.find("#[cfg(test)]") {
        out.truncate(i);
    }
    // any other std::sync / crossbeam use left would be invisible to loom
    for bad in ["std::sync", "crossbeam", "std::thread", "parking_lot", "static "] {
        assert!(
            !out.contains(bad),
            "rewritten tempfilebuffer.rs still mentions `{}`",
            bad
        );
    }
    let dest = PathBuf::from(std::env::var("OUT_DIR").unwrap()).join("tempfilebuffer.rs");
    std::fs::write(dest, out).unwrap();
}
