#!/bin/sh
# Build the harness offline from files on disk (run once after a fresh restore).
set -e
cd "$(dirname "$0")/.."
mkdir -p .cache/tmp
export CARGO_NET_OFFLINE=true CARGO_TARGET_DIR="$PWD/.cache/target-h"
(cd harness && cargo build --release --offline -p vh -p vloom)
echo setup ok
