#!/usr/bin/env python3
"""Regenerates /verif/MANIFEST.json from py/registry.py (run after editing the registry)."""
import json, os, sys
VERIF = os.path.dirname(os.path.dirname(os.path.abspath(__file__)))
sys.path.insert(0, os.path.join(VERIF, "py"))
import registry

checks = []
for pid in sorted(registry.CHECKS):
    m = registry.CHECKS[pid]
    if m.get("unregistered"):
        continue
    checks.append({
        "property_id": pid,
        "quick_cmd": f"./check {pid} --tier quick",
        "thorough_cmd": f"./check {pid} --tier thorough",
        "evidence_file": f"/verif/evidence/{pid}.json",
        "replay_cmd_template": f"./check {pid} --replay {{path}}",
        "engine": m.get("engine_name", "vh"),
        "level_claimed": {
            "category": m["level"],
            "text": m.get("level_text", m["rule"]),
            "design_ref": m.get("design_ref", f"DESIGN.md section 4, {pid}"),
        },
        "level_note": "; ".join(m.get("assumptions", [])),
        "technique": m.get("technique", "bounded-exhaustive enumeration of inputs and option sets on the real code, compared with a reference model"),
    })

manifest = {
    "version": 1,
    "setup_cmd": "./tools/setup.sh",
    "hooks": registry.HOOKS,
    "engines": registry.ENGINES,
    "checks": checks,
    "not_applicable": registry.NOT_APPLICABLE,
    "notes": registry.NOTES,
}
with open(os.path.join(VERIF, "MANIFEST.json"), "w") as f:
    json.dump(manifest, f, indent=1)
    f.write("\n")
print(f"{len(checks)} checks, {len(registry.NOT_APPLICABLE)} not_applicable")
