#!/bin/bash
# usage: VREG=/tmp/vregN run_mutant_isolated.sh <patch.diff> <check id>...
# Like run_mutant.sh, but on PRIVATE copies (a git worktree of /repo's HEAD and a copy of /verif's working
# tree with the harness' path dependency rewritten), so that /repo stays free for other runs.
# SYNC=1 refreshes the copy of /verif first.
set -u
R=${VREG:-/tmp/vreg9}
patch=$1; shift
if [ ! -d $R/repo ]; then
  mkdir -p $R
  git -C /repo worktree add --detach $R/repo HEAD -q || exit 2
fi
git -C $R/repo checkout -q -- . ; git -C $R/repo checkout -q --detach "$(git -C /repo rev-parse HEAD)"
if [ ! -d $R/verif ] || [ -n "${SYNC:-}" ]; then
  mkdir -p $R/verif
  rsync -a --delete --exclude .cache --exclude replays --exclude .git /verif/ $R/verif/
  sed -i "s#path = \"/repo/bigtools\"#path = \"$R/repo/bigtools\"#" $R/verif/harness/vh/Cargo.toml
  touch $R/verif/harness/vh/src/*.rs
fi
export VERIF_REPO=$R/repo BIGTOOLS_SRC=$R/repo/bigtools VERIF_OUT_BASE=$R/verif/.cache/mutant-out
( cd $R/repo && git apply "$patch" ) || { echo "MUTANT-RESULT PATCH-DOES-NOT-APPLY"; exit 1; }
cd $R/verif
for c in "$@"; do
  out=$(./check $c --tier ${TIER:-quick} 2>&1); rc=$?
  echo "MUTANT-RESULT $c exit=$rc $(echo "$out" | grep -m1 '^VIOLATION\|^MACHINERY')"
  echo "$out" | grep -m2 "unlisted failure kinds\|first:" | cut -c1-400
done
git -C $R/repo checkout -q -- .
