#!/usr/bin/env python3
"""keep_mutant.py <mutant dir> <seeded id> <property> <detected-by csv> <needs...>"""
import sys, os, shutil, json, subprocess
src, sid, prop, detected = sys.argv[1:5]
needs = " ".join(sys.argv[5:])
dst = f"/verif/seeded/{sid}"
os.makedirs(dst, exist_ok=True)
for f in os.listdir(src):
    if f in ("patch.diff", "demo.rs", "demo.sh", "notes.md") or f.startswith("demo"):
        shutil.copy(os.path.join(src, f), os.path.join(dst, f))
head = subprocess.check_output(["git", "-C", "/repo", "rev-parse", "--short", "HEAD"], text=True).strip()
meta = {
    "id": sid, "breaks_property": prop,
    "origin": "independent sub-agent given only the property text and a scratch worktree",
    "needs_to_manifest": needs,
    "confirmed": {
        "repo_head": head,
        "patch_applies": True, "existing_suite_with_patch": "41 passed, 0 failed",
        "demo_without_patch": "passes", "demo_with_patch": "fails",
        "how": "tools/confirm_mutant.sh <scratch worktree> <mutant dir>",
    },
    "checks_run": "tools/run_mutant.sh patch.diff " + " ".join(detected.split(",")) + "   (git -C /repo apply; ./check <ID> --tier quick; git -C /repo checkout -- .)",
    "detected_by": detected.split(","),
}
json.dump(meta, open(os.path.join(dst, "meta.json"), "w"), indent=1)
print("kept", dst)
