#!/bin/bash
# usage: confirm_mutant.sh <scratch worktree> <mutant dir>
# Confirms: patch applies at /repo's HEAD, suite passes with it, demo fails with it and passes without.
set -u
WT=$1; MD=$2
HEAD=$(git -C /repo rev-parse HEAD)
cd "$WT" || exit 2
git checkout -q -- . ; rm -f bigtools/tests/demo_mutant.rs
git checkout -q --detach "$HEAD" || exit 2
export CARGO_NET_OFFLINE=true
if ! git apply --check "$MD/patch.diff" 2>/dev/null; then echo "CONFIRM patch_applies=no"; exit 1; fi
cp "$MD/demo.rs" bigtools/tests/demo_mutant.rs 2>/dev/null
run_demo() { if [ -f "$MD/demo.rs" ]; then timeout 600 cargo test --offline -p bigtools --test demo_mutant >$WT/../$(basename $MD)-demo.log 2>&1; else timeout 1500 bash "$MD/demo.sh" >$WT/../$(basename $MD)-demo.log 2>&1; fi; echo $?; }
clean=$(run_demo)
git apply "$MD/patch.diff"
mut=$(run_demo)
rm -f bigtools/tests/demo_mutant.rs
suite=$(timeout 1200 cargo test --workspace --no-fail-fast --offline 2>&1 | awk '/^test result/ {p+=$4; f+=$6} END {printf "passed=%d failed=%d", p, f}')
git checkout -q -- .
echo "CONFIRM patch_applies=yes demo_clean_exit=$clean demo_mutant_exit=$mut suite_with_patch: $suite"
