#!/bin/bash
# usage: profile_cases.sh <ID> [tier]   prints the slowest cases and per-worker totals (static hash partition, 16 workers)
ID=$1; T=${2:-quick}; BIN="/verif/.cache/target-h/release/vh $ID"; [ "$ID" = C12 ] && BIN=/verif/.cache/target-h/release/vloom
for i in $(seq 0 15); do ( s=$(date +%s.%N); VH_TIMES=1 $BIN --tier $T --part $i/16 2>&1 >/dev/null | grep '^TIME' > /verif/.cache/tmp/prof.$i; e=$(date +%s.%N); echo "worker $i $(echo "$e - $s" | bc) s" ) & done | sort -k3 -n -r | head -4
wait
cat /verif/.cache/tmp/prof.* | sort -k6 -n -r | head -${N:-15} | cut -c1-260; rm -f /verif/.cache/tmp/prof.*
