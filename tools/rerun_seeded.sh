#!/bin/bash
# usage: rerun_seeded.sh [id-glob]   Re-runs every kept seeded change against the checks recorded in its
# meta.json (detected_by) and reports any that is no longer detected. Applies each patch to /repo's working tree
# and reverts it; /repo must be clean and nothing else may build from it meanwhile.
set -u
cd /verif
pat=${1:-C*}
ok=0; bad=0
for d in seeded/$pat/; do
  id=$(basename $d)
  [ -f $d/meta.json ] || continue
  checks=$(python3 -c "import json;print(' '.join(json.load(open('$d/meta.json'))['detected_by']))")
  res=$(tools/run_mutant.sh /verif/$d/patch.diff $checks 2>&1 | grep MUTANT-RESULT)
  if echo "$res" | grep -q "exit=1 VIOLATION"; then ok=$((ok+1)); echo "SEEDED $id detected ($checks)"; else bad=$((bad+1)); echo "SEEDED $id NOT-DETECTED: $res"; fi
done
echo "SEEDED-SUMMARY detected=$ok not_detected=$bad"
