#!/bin/bash
# usage: rerun_seeded.sh [id-glob]
# Re-runs every kept seeded change against the checks recorded in its meta.json (detected_by) and
# reports any that is no longer detected.  Works on PRIVATE copies so that /repo and /verif stay free:
#   /tmp/vreg/repo   git worktree of /repo's HEAD (patches are applied and reverted there)
#   /tmp/vreg/verif  copy of /verif's working tree (without .cache), harness path dependency rewritten
# FIRST=1 stops at the first of the recorded checks that reports the change.
# Both are removed at the end (KEEP=1 keeps them for a following run).
set -u
pat=${1:-C*}
R=${VREG:-/tmp/vreg}
if [ ! -d $R/repo ]; then
  mkdir -p $R
  git -C /repo worktree add --detach $R/repo HEAD -q || exit 2
fi
git -C $R/repo checkout -q --detach "$(git -C /repo rev-parse HEAD)" && git -C $R/repo checkout -q -- .
mkdir -p $R/verif
rsync -a --delete --exclude .cache --exclude replays --exclude .git /verif/ $R/verif/
sed -i "s#path = \"/repo/bigtools\"#path = \"$R/repo/bigtools\"#" $R/verif/harness/vh/Cargo.toml
export VERIF_REPO=$R/repo BIGTOOLS_SRC=$R/repo/bigtools VERIF_OUT_BASE=$R/verif/.cache/mutant-out
cd $R/verif
ok=0; bad=0
n=0
for d in seeded/$pat/; do
  id=$(basename $d)
  [ -f $d/meta.json ] || continue
  n=$((n+1))
  if [ -n "${SHARD:-}" ]; then [ $(( n % ${SHARD#*/} )) -eq $(( ${SHARD%/*} % ${SHARD#*/} )) ] || continue; fi
  checks=$(python3 -c "import json;print(' '.join(json.load(open('$d/meta.json'))['detected_by']))")
  ( cd $R/repo && git apply $R/verif/$d/patch.diff ) || { echo "SEEDED $id PATCH-DOES-NOT-APPLY"; bad=$((bad+1)); continue; }
  res=""
  for c in $checks; do
    out=$(./check $c --tier ${TIER:-quick} 2>&1); rc=$?
    res="$res $c:exit=$rc"
    [ $rc -eq 1 ] && echo "$out" | grep -q '^VIOLATION' && res="$res(VIOLATION)" && [ -n "${FIRST:-}" ] && break
  done
  git -C $R/repo checkout -q -- .
  if echo "$res" | grep -q "exit=1(VIOLATION)"; then ok=$((ok+1)); echo "SEEDED $id detected:$res"; else bad=$((bad+1)); echo "SEEDED $id NOT-DETECTED:$res"; fi
done
echo "SEEDED-SUMMARY detected=$ok not_detected=$bad"
if [ -z "${KEEP:-}" ]; then
  cd /; git -C /repo worktree remove --force $R/repo; rm -rf $R
fi
