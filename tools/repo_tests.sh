#!/bin/sh
# Runs the repository's own suite (guard off) and prints a one-line verdict.
cd /repo && CARGO_NET_OFFLINE=true cargo test --workspace --no-fail-fast --offline 2>&1 | awk '
/^test result/ {p+=$4; f+=$6}
/FAILED|panicked/ {print}
END {printf "REPO-TESTS passed=%d failed=%d\n", p, f; exit (f>0)}'
