#!/bin/bash
# usage: run_mutant.sh <patch.diff> <check id>...   (applies to /repo, runs quick checks, reverts)
set -u
P=$1; shift
cd /repo || exit 2
if [ -n "$(git status --porcelain --untracked-files=no)" ]; then echo "repo not clean"; exit 2; fi
trap 'git -C /repo checkout -q -- .' EXIT
git apply "$P" || { echo "patch does not apply"; exit 2; }
cd /verif
export VERIF_OUT_BASE=/verif/.cache/mutant-out
for id in "$@"; do
  out=$(./check $id --tier ${TIER:-quick} 2>&1); rc=$?
  echo "MUTANT-RESULT $id exit=$rc $(echo "$out" | grep -E '^VIOLATION|MACHINERY' | head -1)"
  echo "$out" | grep -E "first:|unlisted failure kinds" | head -2 | cut -c1-300
done
