"""Per-property metadata used by ./check: evidence level, enumeration rule, non-vacuity counters."""
import engines

E1_ASSUME = [
    "inputs larger than the stated small scope are not explored (bounds are tied to the code's branches in DESIGN.md 3.5)",
    "rustc/std, tokio, libdeflate as used by bigtools are trusted",
    "the reference models in harness/vh/src/refm.rs and the independent decoder in indep.rs are trusted (kept to plain vectors and byte slicing)",
]

CHECKS = {
    "C01": {
        "level": "exploration",
        "rule": "exhaustive: every bigWig layout WL(k) (<=k items from gaps {0,1,3} x lengths {0,1,2,5} on a 16-base chromosome, plus end-at-chromosome-end variants) x a covering option list, plus 8 core layouts x 3 chromosome sets x the full option product, plus the 65535/65536-item section edge; written by the real writer, read back by the real reader, compared with the input. distinct = distinct canonical (layout, values, options) case; non-trivial = >=2 items and (>=2 blocks or >=2 chromosomes or a zoom level present)",
        "require": ["files_with_2+_blocks_in_a_chromosome", "files_with_2+_index_levels",
                    "files_with_2+_chromosomes", "files_with_zoom_levels", "files_compressed", "files_uncompressed"],
        "assumptions": E1_ASSUME,
    },
    "C02": {
        "level": "exploration",
        "rule": "exhaustive: every bigBed layout BL(k) (<=k entries from start deltas {0,1,3} x lengths {0,1,2,6,to-end}) x covering options x 5 rest palettes x 3 autoSql choices, plus core layouts x chromosome sets x full option product, plus the 65535/65536-entry edge. non-trivial = >=2 entries and (>=2 blocks, >=2 chromosomes, zoom level or overlapping entries)",
        "require": ["files_with_2+_blocks_in_a_chromosome", "files_with_2+_index_levels",
                    "files_with_2+_chromosomes", "cases_with_overlapping_entries", "cases_with_supplied_autosql"],
        "assumptions": E1_ASSUME,
    },
    "C06": {
        "level": "exploration",
        "needs_cli": True,
        "rule": "exhaustive: all WL(k) and BL(k) layouts x {single,two-pass} x block/compression variants, plus multi-chromosome cases; total summary and item count read through the real reader compared with per-base statistics of the input. non-trivial = >=2 items (bigWig) / overlapping entries or several chromosomes (bigBed)",
        "require": ["wig_cases", "bed_cases", "bed_cases_with_overlap", "files_with_2+_chromosomes", "tool_info_runs"],
        "assumptions": E1_ASSUME,
    },
    "C07": {
        "level": "exploration",
        "rule": "exhaustive: all WL(k) layouts x zoom option list (manual [2],[3],[4,16],[2,4,8], auto initial 2) x items_per_slot x pass x compression, plus multi-chromosome cases; every stored level read back in full and for all 153 ranges, compared record by record with the per-base array. non-trivial = a zoom level is present and >=2 items",
        "require": ["files_with_zoom_levels_read", "layouts_with_gap_longer_than_resolution",
                    "files_with_2+_blocks_in_a_zoom_level", "files_with_2+_zoom_levels", "zoom_range_queries"],
        "assumptions": E1_ASSUME,
    },
    "C08": {
        "level": "exploration",
        "needs_cli": True,
        "rule": "exhaustive: all BL(k) layouts x zoom option list x items_per_slot x pass x compression, plus multi-chromosome cases; every stored level compared record by record with the coverage-depth array. non-trivial = a zoom level is present and >=2 entries",
        "require": ["files_with_zoom_levels_read", "cases_with_overlapping_entries",
                    "files_with_2+_blocks_in_a_zoom_level", "files_with_2+_zoom_levels", "zoom_range_queries", "tool_zoom_runs"],
        "assumptions": E1_ASSUME,
    },
    "C03": {
        "level": "model_checking",
        "needs_py": True,
        "technique": "bounded-exhaustive range enumeration plus explicit enumeration of all query histories up to a depth on one reader instance (real code), each answer compared with a reference",
        "rule": "exhaustive: files from WL(k) x 6 (items_per_slot, block_size, compression) sets and multi-chromosome core files x all 153 ranges x 7 access paths (plain, cached, reopened, cached+reopened, by-value iterator, values() plain and cached); all query histories of length d over a boundary-focused alphabet on one plain and one caching reader instance; one 5003-block scenario crossing the cache reset. states = distinct answer vectors, transitions = queries applied in histories. non-trivial = >=2 items",
        "require": ["range_files", "files_with_2+_blocks", "files_with_2+_index_levels", "histories", "cache_reset_scenarios"],
        "mc_counters": {"states": "history_distinct_answer_vectors", "transitions": "history_transitions", "traces": "histories"},
        "assumptions": E1_ASSUME + ["zero-length stored values and empty ranges are don't-care for sub-range answers (overlap is undefined for them)"],
    },
    "C04": {
        "level": "model_checking",
        "needs_cli": True,
        "needs_py": True,
        "technique": "bounded-exhaustive range enumeration plus explicit enumeration of all query histories up to a depth on one reader instance (real code), each answer compared with a must-include / must-exclude reference",
        "rule": "exhaustive: BL(k) layouts (quick: those where an earlier entry ends after a later one) x (items_per_slot 1..3, block_size 2..3) x all 136 ranges x 4 access paths, multi-chromosome core files, and all query histories of length d on plain and caching readers. Oracle: every entry with positive overlap returned once in stored order, none wholly outside; touching entries don't-care. non-trivial = >=2 entries",
        "require": ["range_files", "files_with_2+_blocks", "files_with_2+_index_levels", "files_with_block_max_end_not_last", "histories", "tool_range_runs"],
        "mc_counters": {"states": "history_distinct_answer_vectors", "transitions": "history_transitions", "traces": "histories"},
        "assumptions": E1_ASSUME,
    },
    "C05": {
        "level": "exploration",
        "rule": "exhaustive: block counts n=1..N x fan-outs b=2..B x chromosome splits {1,2,3} x {bigWig main+zoom indexes, bigBed main index, bigBed with nested spans (every 4th entry long, so node spans are not monotone in their end)}; the written tree is walked by the independent decoder (structure, spans, depth = ceil-log) and every boundary query (block starts/ends +-1) through the real reader is compared with a linear scan; every such query is also the FIRST query of a fresh caching reader, followed by every whole-chromosome query on the same reader (nodes cached while answering a narrow query must serve every later one). non-trivial = tree with >=2 levels",
        "require": ["index_queries", "zoom_index_queries", "cached_first_query_histories", "trees_with_partial_nodes", "trees_with_4+_levels",
                    "main_index_levels_1", "main_index_levels_2", "main_index_levels_3"],
        "assumptions": E1_ASSUME,
    },
    "C09": {
        "level": "exploration",
        "rule": "exhaustive over the union of the C01, C02, C07 and C08 case spaces: every byte image produced by the real writers is decoded by the independent decoder (header/offset/count consistency, chromosome B+ tree, every R-tree node and span, contiguous blocks, zlib streams within uncompressBufSize, items per block, decoded records = input, total summary and every zoom record recomputed). non-trivial = >=2 data blocks or a zoom level",
        "require": ["wig_files", "bed_files", "files_with_2+_index_levels", "files_with_2+_blocks_in_a_zoom_level",
                    "files_compressed", "files_uncompressed", "zoom_records_decoded"],
        "assumptions": E1_ASSUME + ["miniz_oxide is the independent zlib implementation"],
    },
    "C12": {
        "level": "model_checking",
        "bin": "vloom",
        "engine_name": "vloom",
        "technique": "exhaustive interleaving exploration (loom DPOR, no preemption bound) of the real tempfilebuffer.rs source with its sync imports rewritten to loom's",
        "rule": "every scenario = (producer history of 0..n writes of sizes {0,1,3}, optional flush, drop) x staging kind x consumer program (switch+await, closed-write, len+closed-write, switch+poll+await, len, nested zoom pattern with 3 threads); loom enumerates ALL schedules at every Mutex/Condvar/atomic-cell operation of the real code; per execution the destination bytes must equal the bytes written (once, in order), len() must equal the bytes written, no panic, no deadlock. evaluations = scenarios; transitions = complete executions (schedules) explored; states = distinct (scenario, destination write-call pattern) terminal outcomes; every execution is an execution of the implementation",
        "require": ["executions", "nested_scenarios", "inmemory_scenarios", "tempfile_scenarios", "scenarios_with_2+_delivery_patterns"],
        "mc_counters": {"states": "distinct_delivery_patterns", "transitions": "executions", "traces": "executions"},
        "assumptions": ["crossbeam AtomicCell::swap is modelled as an atomic exchange (loom mutex held for the exchange only)",
                        "loom 0.7.2's DPOR is trusted to enumerate all inequivalent schedules",
                        "memory orderings weaker than acquire/release on the cell are not explored",
                        "temp-file staging uses real files (no scheduling points inside file I/O)"],
    },
    "C13": {
        "level": "exploration",
        "needs_cli": True,
        "rule": "exhaustive: every violation class (out-of-order starts, overlap, start>end, beyond chromosome, unknown chromosome, chromosome order, non-contiguous chromosome, 8-10 malformed-line shapes, empty input) injected at every position (chromosome first/middle/last x item first/middle/last) of a valid 3x3 input x {bigWig, bigBed} x {iterator, serial text, parallel file} x {single, two-pass} x runtimes; plus valid degenerate inputs (zero-length only, single item, a source yielding no values). Each write runs under catch_unwind and a wall-clock watchdog. Oracle: invalid -> Err value (not Ok, not panic, not hang); valid -> returns without panic or hang. Tool part: the converter binaries on 13 kinds of unrepresentable / degenerate input x threads x --parallel x --single-pass, and bigwigmerge on inputs whose chromosome sizes disagree (bigWig and bedGraph output): non-zero, non-panic exit (101 / signal = violation), valid inputs succeed. non-trivial = every case (each is a distinct injection)",
        "require": ["invalid_refused", "valid_returned_ok", "tool_refusal_runs", "tool_valid_ok", "tool_merge_refusal_runs"],
        "assumptions": E1_ASSUME + ["hang verdicts are wall-clock caps (15 s where a case takes < 5 ms)"],
    },
    "C14": {
        "needs_cli": True,
        "needs_py": True,
        "level": "fault_enumeration",
        "technique": "exhaustive crash-point and fault-position enumeration over the recorded destination operation log of the real writer",
        "rule": "for each history (file type x chromosomes x pass x zooms x compression [x slots, buffering]; small and > 8 KiB per chromosome): (a) every prefix of the recorded write/seek/flush log is materialised and opened with the typed and generic readers - each accepted image must serve the complete chromosome table, records and zoom levels or refuse the query; (b) for every operation index and each fault mode (fail once / fail from then on / short write) the write call must not return Ok(()) (short write: Ok only with byte-identical output); (c) the destination after each refused input must be rejected or fully served. non-trivial = every history",
        "require": ["crash_points", "images_rejected", "images_accepted", "fault_runs", "fault_runs_returned_err", "refused_input_runs"],
        "assumptions": E1_ASSUME + ["torn writes inside one destination operation are outside the property's quantifier",
                                    "a panic under an injected I/O error counts as 'did not report success'"],
    },
    "C18": {
        "level": "model_checking",
        "technique": "bounded-exhaustive enumeration of small text files for the indexer/chunker, and explicit-state breadth-first search over FileView read/seek histories on the real object against a reference cursor",
        "rule": "(a) index_chroms on every file described by (1-4 chromosome runs x run lengths) x (uniform lines or one line x3/x10/x40/x800/x1500 longer at every position - the last two exceed one / two 8 KiB reader buffers) x final newline x {bedGraph, bed}, plus non-grouped orders: result = linear scan; (b) FileView over a 10-byte file, every window 0<=a<=b<=12: breadth-first search over read/seek operations (state = reported position, real object rebuilt by replaying the history) plus all operation sequences to a depth, each step compared with a reference cursor over bytes[a..b] (out-of-range seeks: no panic, position stays inside the window); (c) split_file_into_chunks_by_size for every chunk count 1..lines+2: a line-aligned partition; (d) records through per-chunk and per-chromosome views = serial record stream. states = positions reached per window, transitions = operations applied. non-trivial = >=2 runs / non-empty window",
        "require": ["indexed_files", "non_grouped_files", "chunkings", "compositions", "view_windows", "view_histories"],
        "mc_counters": {"states": "view_states", "transitions": "view_transitions", "traces": "view_histories"},
        "assumptions": E1_ASSUME,
    },
    "C19": {
        "needs_py": True,
        "level": "exploration",
        "needs_cli": True,
        "mem_gb": 2,
        "rule": "exhaustive: generated schema for every extra-column count 0..40 (declared fields counted independently, parsed, written and read back); supplied schemas (single table; helper declaration followed by the table) stored verbatim with the table's declared field count, through the library and through the tool with file input and with the BED on standard input (-, stdin, /dev/stdin; with --autosql / -as= and with a generated schema), read back by the independent decoder, by bigbedinfo --autosql and through the Python binding (write(autosql=) then sql(), sql(parse=True), sql() on encoder-written files); every schema of a grammar-based generator (all field forms x declaration types, 1-3 fields, 1-3 declarations) must parse with the generated counts; every character truncation and every single-token mutation of a schema core; every string up to a length bound over the delimiter alphabet with keyword prefixes/suffixes. Each parse runs under catch_unwind inside a worker with a 2 GB address-space cap and a wall cap (hang / unbounded growth = failure). non-trivial = every block",
        "require": ["parses", "parses_ok", "parses_err", "schema_roundtrips", "grammar_schemas", "truncations", "token_mutations", "short_strings", "tool_schema_runs", "tool_schema_runs_from_stdin", "tool_schema_runs_ucsc_spelling", "tool_schema_info_runs", "python_schema_calls"],
        "assumptions": E1_ASSUME + ["hang / unbounded growth verdicts are a 30 s wall cap and a 2 GB address-space cap per block of parses (a parse normally takes microseconds)"],
    },
    "C15": {
        "level": "exploration",
        "needs_cli": True,
        "rule": "exhaustive: merge_sections_many on every pair of sorted disjoint streams with <=2 intervals whose endpoints come from a set around base 0 and both 50,000-base window boundaries (x value patterns incl. cancelling and explicit zeros), every triple of <=1-interval streams, every <=3-interval stream alone / doubled / negated; merge_into on every overlapping pair over small coordinates; fill and fill_start_to_end on every WL(3) layout x start/end choices; each output compared with the per-base sum (exact: all values dyadic). The merge tool is covered by the tool part (see counters tool_*). non-trivial = every block",
        "require": ["merge_runs", "merge_runs_with_2+_outputs", "merge_into_calls", "fill_runs", "tool_merge_runs", "tool_merge_runs_input_style_0", "tool_merge_runs_input_style_1", "tool_merge_runs_input_style_2", "tool_merge_runs_input_style_3", "tool_merge_runs_with_more_inputs_than_open_files"],
        "assumptions": E1_ASSUME + ["the >978-input file-descriptor chunking path of the merge tool is outside the bounds"],
    },
    "C17": {
        "needs_py": True,
        "level": "exploration",
        "needs_cli": True,
        "rule": "exhaustive: for every WL(k) bigWig file and multi-chromosome core files, every region 0<=s<e<=16 on every chromosome through stats_for_bed_item and through the bigwig_average_over_bed iterator in 5 name modes (names plain, with blanks inside, empty); size, bases, sum, mean0, mean, min, max compared with the per-base array (NaN when nothing covered), one row per input row in order with the requested name; tool part: bigwigaverageoverbed on encoder-written bigWigs x region lists x name modes x --min-max x -t 1..16 (byte-identical for every thread count and equal to the reference at the printed precision) and bigwigvaluesoverbed; Python part: pybigtools average_over_bed of the extension built from /repo, every names mode (absent, True, False, 0, 1, 4, 5) x every stats form (absent, all, one statistic, lists) on the same files and region lists. non-trivial = >=2 values in the file",
        "require": ["regions", "iterator_rows", "tool_average_runs", "tool_values_runs", "python_average_calls"],
        "assumptions": E1_ASSUME + ["regions on chromosomes absent from the bigWig are outside the property's domain",
                                    "zero-length stored values inside a region are don't-care for the extrema"],
    },
    "C10": {
        "level": "exploration",
        "needs_cli": True,
        "rule": "exhaustive cross product emitted by the independent encoder (harness/vh/src/enc.rs): {little, big endian} x {v1 raw, v2 raw, v3 raw/zlib, v4 raw/zlib} x 5 bigWig contents (bedGraph / variable-step / fixed-step sections, mixed) + 3 bigBed contents x chromosome-tree block sizes (single leaf and multi-level) x R-tree fan-outs x node placements (level order, depth first, children before the header, padded) x zoom variants x index-at-end / trailing magic; each file is first cross-checked by the independent decoder, then opened with BigWigRead/BigBedRead/GenericBBIRead, plain and cached: chroms, summary, all 153 ranges, values(), zoom queries, autosql, item count = encoded content. non-trivial = every file",
        "require": ["encoded_files", "big_endian_files", "compressed_files", "version1_files", "multi_level_chrom_tree_files",
                    "files_with_3+_index_levels", "range_queries", "zoom_queries", "tool_convert_runs", "files_v2plus_without_summary"],
        "assumptions": E1_ASSUME + ["only combinations the published format allows are emitted (compression only from version 3, a total summary only from version 2 - present or omitted there -, sorted chromosome keys)",
                                    "files that are not well-formed (reader robustness) are outside the statement"],
    },
    "C11": {
        "needs_cli": True,
        "level": "model_checking",
        "technique": "deviation-bounded exhaustive schedule exploration of the real writer pipeline on a current-thread runtime through cfg-guarded hook points (stateless, CHESS-style iterative bounding), composed with C12's loom exploration of the staging buffer; the same exploration of the multi-threaded text converters (write_bg / write_bed driven on a current-thread runtime by a cfg-guarded switch); plus a labelled sampling sweep over real runtimes",
        "rule": "layer 1: for each scenario (file type x source x pass x chromosomes/slots/channel/buffering) the real write runs on a current-thread tokio runtime; the hook points at every task start and hand-off ask the explorer whether to proceed or yield; ALL executions with at most `bound` yields are run (depth-first over deviation vectors, each execution deterministic and replayed from scratch); destination bytes must equal the 0-deviation run, no error, no hang; file-source scenarios must also give the iterator source's bytes; layer 1b: the multi-threaded converters write_bg / write_bed on files of 2-4 chromosomes x thread counts (handle-channel capacity) 1/2/6/16 x staging in memory / in a file, incl. a 70 KB line: every execution's text must equal the single-threaded path's text (= the input text); every 50th schedule is run twice and must reproduce. states = distinct hook-trace prefixes, transitions = hook events executed, traces validated = executions (each is an execution of the implementation). layer 3 (supplementary, sampling over OS schedules): thread counts x runtimes x channel sizes x buffering x sources x passes, repeated, bytes identical; layer 3b: the same through the built bedgraphtobigwig / bedtobigbed binaries (-t x --parallel x --inmemory x pass mode). The staging buffer's access-granularity interleavings are C12's",
        "require": ["scenarios", "executions", "scenarios_with_2+_traces", "schedules_replayed_twice", "sweep_runs", "converter_scenarios", "cross_source_comparisons", "cli_sweep_runs"],
        "mc_counters": {"states": "distinct_trace_prefixes", "transitions": "hook_events", "traces": "executions"},
        "assumptions": ["tokio's current-thread scheduler is deterministic given which awaits return Pending",
                        "preemption inside a task between two hook points (only possible on a multi-thread runtime) is not explored by layer 1; layer 3 samples it",
                        "the converters' tasks are explored on a current-thread runtime (cfg-guarded switch); their free-running multi-thread behaviour is sampled by C16's command-line runs"],
    },
    "C16": {
        "level": "exploration",
        "needs_cli": True,
        "technique": "exhaustive enumeration of command-line configurations (thread counts, parallel/pass modes, flag styles, invocation styles) on the built binaries, round trip compared with the input and with the library's range queries; OS thread schedules are sampled (the schedule quantifier is C11/C12's)",
        "rule": "every configuration of the product threads x parallel x single-pass x inmemory x uncompressed x block-size x zooms x {applet, bigtools <sub>} x {native, UCSC flag spellings and tool names} (quick: systematic 1-in-19 subsample; thorough: full product) on 4 bedGraph and 4 BED inputs: forward conversion must succeed and honour the options (independent decoder), back conversion with -t 1/2/6/16 must return the original records in order (identical text for every thread count), 9 restricted (chrom,start,end) outputs per file must equal the library's range query and contain every overlapping input record, and one --overlap-bed / -bed= run over a 5-line regions file must equal the concatenated range queries. non-trivial = every configuration",
        "require": ["process_runs", "restricted_queries", "overlap_bed_runs", "conversions_from_stdin"],
        "assumptions": E1_ASSUME + ["OS thread schedules of the multi-threaded tools are sampled, not enumerated"],
    },
    "C20": {
        "level": "exploration",
        "engine": engines.engine_c20,
        "engine_name": "c20_values.py",
        "technique": "bounded-exhaustive enumeration of ranges, bin counts, statistics and fill values through the built Python extension, compared with a pure-Python per-base reference",
        "rule": "exhaustive: for every encoder-written bigWig / bigBed file on a 12-base chromosome, every range s in -3..15 x e in s+1..max(15,s+3) (below 0, past the end and starting beyond the end included) x bins in {None} u 1..(e-s) x {mean,min,max} x exact {True,False} x (missing,oob) in {(0,NaN),(-1,-7),(NaN,0)} through pybigtools.open(path).values(...) of the extension built from /repo. Oracle: per-base = stored value / depth, missing where no data, oob outside [0,len); exact bins of integral width = statistic over the covered bases (missing when none; oob when wholly outside; partly outside: don't-care); every width: never NaN for finite data and fills, value within the data touching the bin's span (inexact: within the chromosome's data range) or missing; no exception, no abort. evaluations = (file, start) blocks; non-trivial = file with >=2 data bases",
        "require": ["calls", "per_base_calls", "exact_integral_bins", "exact_fractional_bins", "inexact_calls", "oob_cells", "bigwig_files", "bigbed_files"],
        "assumptions": E1_ASSUME + ["files come from the independent encoder, so reader/writer defects of other properties cannot fake or mask a result",
                                    "interpolated (exact=False) mode has no sharper oracle in the statement than range and NaN-freedom"],
    },
}

HOOKS = {
    "guard": "--cfg bigtools_verif",
    "enable": "RUSTFLAGS=\"--cfg bigtools_verif\" (set in /verif/harness/.cargo/config.toml, so every harness build of /repo/bigtools has it on)",
    "baseline_off_cmd": "cd /repo && cargo test --workspace --no-fail-fast --offline",
    "source_commits": ["69a033e", "d51794c"],
    "add_only": True,
}

ENGINES = [
    {"name": "vloom", "path": "/verif/harness/vloom", "serves_properties": ["C12"],
     "kind_free_text": "loom crate whose build.rs copies /repo/bigtools/src/utils/file/tempfilebuffer.rs rewriting only its sync imports; explores every schedule of producer/consumer scenarios"},
    {"name": "c20_values.py", "path": "/verif/py/c20_values.py", "serves_properties": ["C20"],
     "kind_free_text": "python3-vt driver of the built pybigtools extension (files from the Rust independent encoder)"},
    {"name": "vh", "path": "/verif/harness/vh", "serves_properties": sorted(k for k in CHECKS.keys() if k not in ("C12", "C20")),
     "kind_free_text": "Rust harness linking /repo/bigtools: exhaustive enumerators, reference models, independent decoder; run as supervised partitioned workers by ./check"},
]

_ALL = ["C%02d" % i for i in range(1, 21)]
NOT_APPLICABLE = [
    {"property_id": p, "reason": "check not built yet in this session (work in progress; see DESIGN.md section 4 for the planned exhaustive check)"}
    for p in _ALL if p not in CHECKS
]

NOTES = "Every check is ./check <ID> --tier quick|thorough; exit 0 = held (KNOWN-FINDING lines for entries of known_findings.json), 1 = VIOLATION, 2 = machinery error."
