"""Per-property metadata used by ./check: evidence level, enumeration rule, non-vacuity counters."""

E1_ASSUME = [
    "inputs larger than the stated small scope are not explored (bounds are tied to the code's branches in DESIGN.md 3.5)",
    "rustc/std, tokio, libdeflate as used by bigtools are trusted",
    "the reference models in harness/vh/src/refm.rs and the independent decoder in indep.rs are trusted (kept to plain vectors and byte slicing)",
]

CHECKS = {
    "C01": {
        "level": "exploration",
        "rule": "exhaustive: every bigWig layout WL(k) (<=k items from gaps {0,1,3} x lengths {0,1,2,5} on a 16-base chromosome, plus end-at-chromosome-end variants) x a covering option list, plus 8 core layouts x 3 chromosome sets x the full option product, plus the 65535/65536-item section edge; written by the real writer, read back by the real reader, compared with the input. distinct = distinct canonical (layout, values, options) case; non-trivial = >=2 items and (>=2 blocks or >=2 chromosomes or a zoom level present)",
        "require": ["files_with_2+_blocks_in_a_chromosome", "files_with_2+_index_levels",
                    "files_with_2+_chromosomes", "files_with_zoom_levels", "files_compressed", "files_uncompressed"],
        "assumptions": E1_ASSUME,
    },
    "C02": {
        "level": "exploration",
        "rule": "exhaustive: every bigBed layout BL(k) (<=k entries from start deltas {0,1,3} x lengths {0,1,2,6,to-end}) x covering options x 5 rest palettes x 3 autoSql choices, plus core layouts x chromosome sets x full option product, plus the 65535/65536-entry edge. non-trivial = >=2 entries and (>=2 blocks, >=2 chromosomes, zoom level or overlapping entries)",
        "require": ["files_with_2+_blocks_in_a_chromosome", "files_with_2+_index_levels",
                    "files_with_2+_chromosomes", "cases_with_overlapping_entries", "cases_with_supplied_autosql"],
        "assumptions": E1_ASSUME,
    },
    "C06": {
        "level": "exploration",
        "rule": "exhaustive: all WL(k) and BL(k) layouts x {single,two-pass} x block/compression variants, plus multi-chromosome cases; total summary and item count read through the real reader compared with per-base statistics of the input. non-trivial = >=2 items (bigWig) / overlapping entries or several chromosomes (bigBed)",
        "require": ["wig_cases", "bed_cases", "bed_cases_with_overlap", "files_with_2+_chromosomes"],
        "assumptions": E1_ASSUME,
    },
    "C07": {
        "level": "exploration",
        "rule": "exhaustive: all WL(k) layouts x zoom option list (manual [2],[3],[4,16],[2,4,8], auto initial 2) x items_per_slot x pass x compression, plus multi-chromosome cases; every stored level read back in full and for all 153 ranges, compared record by record with the per-base array. non-trivial = a zoom level is present and >=2 items",
        "require": ["files_with_zoom_levels_read", "layouts_with_gap_longer_than_resolution",
                    "files_with_2+_blocks_in_a_zoom_level", "files_with_2+_zoom_levels", "zoom_range_queries"],
        "assumptions": E1_ASSUME,
    },
    "C08": {
        "level": "exploration",
        "rule": "exhaustive: all BL(k) layouts x zoom option list x items_per_slot x pass x compression, plus multi-chromosome cases; every stored level compared record by record with the coverage-depth array. non-trivial = a zoom level is present and >=2 entries",
        "require": ["files_with_zoom_levels_read", "cases_with_overlapping_entries",
                    "files_with_2+_blocks_in_a_zoom_level", "files_with_2+_zoom_levels", "zoom_range_queries"],
        "assumptions": E1_ASSUME,
    },
}

HOOKS = {
    "guard": "--cfg bigtools_verif",
    "enable": "RUSTFLAGS=\"--cfg bigtools_verif\" (set in /verif/harness/.cargo/config.toml, so every harness build of /repo/bigtools has it on)",
    "baseline_off_cmd": "cd /repo && cargo test --workspace --no-fail-fast --offline",
    "source_commits": [],
    "add_only": True,
}

ENGINES = [
    {"name": "vh", "path": "/verif/harness/vh", "serves_properties": sorted(CHECKS.keys()),
     "kind_free_text": "Rust harness linking /repo/bigtools: exhaustive enumerators, reference models, independent decoder; run as supervised partitioned workers by ./check"},
]

_ALL = ["C%02d" % i for i in range(1, 21)]
NOT_APPLICABLE = [
    {"property_id": p, "reason": "check not built yet in this session (work in progress; see DESIGN.md section 4 for the planned exhaustive check)"}
    for p in _ALL if p not in CHECKS
]

NOTES = "Every check is ./check <ID> --tier quick|thorough; exit 0 = held (KNOWN-FINDING lines for entries of known_findings.json), 1 = VIOLATION, 2 = machinery error."
