"""Thin dumper for the Python-binding parts of C17 and C19.

usage: python3-vt pybind_dump.py <module dir> <requests.json> <results.json>

Executes each request against the pybigtools extension built from /repo and writes what it
returned (floats as repr strings so that NaN / inf survive JSON).  No oracle lives here: the Rust
harness that wrote the requests compares the answers with its reference models.
"""
import json
import sys


def fl(x):
    if isinstance(x, bool) or x is None:
        return x
    if isinstance(x, int):
        return x
    if isinstance(x, float):
        return repr(x)
    return x


def run(pb, req):
    op = req["op"]
    if op == "avg":
        b = pb.open(req["bw"])
        kw = {}
        if "names" in req:
            kw["names"] = req["names"]
        if "stats" in req:
            kw["stats"] = req["stats"]
        rows = []
        for r in b.average_over_bed(req["bed"], **kw):
            rows.append(conv(r))
        b.close()
        return {"rows": rows}
    if op == "sql_write_read":
        w = pb.open(req["path"], "w")
        entries = [tuple(e) for e in req["entries"]]
        if req.get("autosql") is None:
            w.write(req["chroms"], iter(entries))
        else:
            w.write(req["chroms"], iter(entries), autosql=req["autosql"])
        w.close()
        return read_sql(pb, req["path"])
    if op == "sql_read":
        return read_sql(pb, req["path"])
    if op == "write_fail":
        # write from an iterable that raises after `fail_after` tuples (None: never), then look at
        # what is at the path
        entries = [tuple(e) for e in req["entries"]]
        fail_after = req.get("fail_after")

        def gen():
            for i, e in enumerate(entries):
                if fail_after is not None and i == fail_after:
                    raise RuntimeError("the source failed")
                yield e

        raised = None
        w = pb.open(req["path"], "w")
        try:
            w.write(req["chroms"], gen())
        except BaseException as ex:
            raised = repr(ex)
        try:
            w.close()
        except BaseException:
            pass
        out = {"raised": raised, "opened": False, "counts": {}, "error": None}
        try:
            b = pb.open(req["path"])
            out["opened"] = True
            for c in req["chroms"]:
                try:
                    out["counts"][c] = len(list(b.records(c)))
                except BaseException as ex:
                    out["counts"][c] = repr(ex)
            b.close()
        except BaseException as ex:
            out["error"] = repr(ex)
        return out
    if op == "records":
        # records() / zoom_records() for a list of (chrom, start, end) with None for "not given";
        # opened by path or from a Python file object
        src = open(req["path"], "rb") if req.get("file_object") else req["path"]
        b = pb.open(src)
        answers = []
        for (chrom, st, en) in req["queries"]:
            args = [chrom]
            kw = {}
            if st is not None:
                kw["start"] = st
            if en is not None:
                kw["end"] = en
            try:
                if req.get("zoom") is not None:
                    it = b.zoom_records(req["zoom"], *args, **kw)
                    answers.append({"ok": [[r[0], r[1]] for r in it]})
                else:
                    it = b.records(*args, **kw)
                    answers.append({"ok": [[fl(x) for x in r] for r in it]})
            except BaseException as e:  # noqa: BLE001
                answers.append({"err": f"{type(e).__name__}: {e}"})
        # the table as the binding returns it: a dict whose order is the table's order
        table = b.chroms()
        chroms = [[k, v] for k, v in table.items()]
        one = {k: b.chroms(k) for k, _ in chroms[:3]}
        b.close()
        return {"answers": answers, "chroms": chroms, "chroms_by_name": one}
    raise ValueError("unknown op " + op)


def read_sql(pb, path):
    b = pb.open(path)
    out = {"sql": b.sql(), "is_bigbed": b.is_bigbed}
    try:
        p = b.sql(parse=True)
        out["parsed"] = {"name": p.get("name"), "fields": [list(f) for f in p.get("fields", [])]} if p else {}
    except Exception as e:  # noqa: BLE001 - the message is the observation
        out["parse_error"] = f"{type(e).__name__}: {e}"
    info = b.info()
    out["info"] = {k: fl(v) for k, v in info.items() if not isinstance(v, (list, dict))}
    recs = []
    for c in sorted(b.chroms().keys()):
        for r in b.records(c):
            recs.append([c] + [fl(x) for x in r])
    out["records"] = recs
    b.close()
    return out


def conv(r):
    # a bare statistic, a tuple of statistics, a SummaryStatistics namedtuple, or (name, one of those)
    if isinstance(r, tuple) and hasattr(r, "_fields"):
        return {"stats": [fl(x) for x in r], "fields": list(r._fields)}
    if isinstance(r, tuple) and len(r) == 2 and isinstance(r[0], str):
        inner = conv(r[1])
        inner["name"] = r[0]
        return inner
    if isinstance(r, tuple):
        return {"stats": [fl(x) for x in r]}
    return {"stats": [fl(r)]}


def main():
    moddir, reqs, results = sys.argv[1:4]
    sys.path.insert(0, moddir)
    import pybigtools as pb
    out = []
    for req in json.load(open(reqs)):
        try:
            out.append({"ok": run(pb, req)})
        except BaseException as e:  # noqa: BLE001 - pyo3 panics derive from BaseException
            out.append({"err": f"{type(e).__name__}: {e}"})
    json.dump(out, open(results, "w"))


if __name__ == "__main__":
    main()
