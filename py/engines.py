"""Engines that are not plain `vh` worker pools."""
import json
import os
import subprocess
import time


def engine_c20(chk, prop, tier, seed, meta):
    """Build the Python extension from /repo, generate encoder-written files, and run the
    exhaustive values() enumeration in partitioned python3-vt workers."""
    moddir = chk.build_py()
    gendir = os.path.join(chk.TMP, f"c20.{os.getpid()}")
    g = subprocess.run([chk.VH, "gen-c20", gendir, tier], env=chk.ENV, stdout=subprocess.PIPE, text=True)
    if g.returncode != 0 or "GENERATED" not in g.stdout:
        chk.machinery("generating the C20 input files failed")
    manifest = os.path.join(gendir, "manifest.json")
    n = chk.NPROC
    procs = []
    for i in range(n):
        out = open(os.path.join(gendir, f"out.{i}"), "w+")
        err = open(os.path.join(gendir, f"err.{i}"), "w+")
        pr = subprocess.Popen(["python3-vt", os.path.join(chk.VERIF, "py", "c20_values.py"), manifest, moddir, str(i), str(n)],
                              stdout=out, stderr=err, env=chk.ENV, cwd=gendir)
        procs.append((pr, out, err))
    merged = {"evaluations": 0, "nontrivial": 0, "distinct_outcomes": 0, "counters": {}, "samples": [],
              "fails_total": 0, "panics": 0, "fail_classes": {}, "fails": [], "caps": [], "engine_crashes": 0}
    for i, (pr, out, err) in enumerate(procs):
        try:
            rc = pr.wait(timeout=3000)
        except subprocess.TimeoutExpired:
            pr.kill()
            rc = -9
        out.seek(0)
        got_summary = False
        for l in out.read().splitlines():
            if l.startswith("FAIL "):
                merged["fails"].append(json.loads(l[5:]))
            elif l.startswith("SUMMARY "):
                got_summary = True
                s = json.loads(l[8:])
                for k in ("evaluations", "nontrivial", "fails_total"):
                    merged[k] += s.get(k, 0)
                for k, v in s["counters"].items():
                    merged["counters"][k] = merged["counters"].get(k, 0) + v
                for k, v in s["fail_classes"].items():
                    merged["fail_classes"][k] = merged["fail_classes"].get(k, 0) + v
                if len(merged["samples"]) < 3:
                    merged["samples"].extend(s["samples"][:1])
        if rc != 0 or not got_summary:
            err.seek(0)
            tail = err.read()[-800:]
            # an interpreter that dies (abort / segfault inside the extension) is a finding about
            # the subject, attributed to the partition
            merged["fails"].append({"property": prop, "idx": i, "case": {"partition": i},
                                    "fail": {"kind": "abort", "tags": [],
                                             "detail": f"python worker {i} ended with status {rc}: {tail}"}})
            merged["fails_total"] += 1
        out.close()
        err.close()
    subprocess.run(["rm", "-rf", gendir])
    merged["space"] = {
        "files": "encoder-written bigWig and bigBed files on a 12-base chromosome (WL(3)/BL(3) layouts with positive lengths), zoom levels 2 and 4",
        "ranges": "every s in -3..11, e in s+1..15", "bins": "None and every 1..(e-s)", "summary": ["mean", "min", "max"],
        "exact": [True, False], "fills (missing, oob)": [[0, "nan"], [-1, -7], ["nan", 0], [5, 2.5]],
    }
    return merged
