#!/usr/bin/env python3-vt
"""C20 driver: exhaustive enumeration of pybigtools' values() on encoder-written files.

usage: c20_values.py <manifest.json> <module dir> <part> <nparts>
Prints FAIL {json} lines and one SUMMARY {json} line (same protocol as the Rust workers).
The reference is a plain per-base list; nothing of bigtools is used to compute expectations.
"""
import json
import math
import sys


def main():
    manifest, moddir, part, nparts = sys.argv[1], sys.argv[2], int(sys.argv[3]), int(sys.argv[4])
    sys.path.insert(0, moddir)
    import numpy as np
    import pybigtools

    files = json.load(open(manifest))
    fills = [(0.0, math.nan), (-1.0, -7.0), (math.nan, 0.0), (5.0, 2.5)]
    stats = {"evaluations": 0, "calls": 0, "per_base_calls": 0, "exact_integral_bins": 0,
             "exact_fractional_bins": 0, "inexact_calls": 0, "oob_cells": 0, "dont_care_partial_oob_bins": 0,
             "bigwig_files": 0, "bigbed_files": 0}
    classes = {}
    printed = {}
    nontrivial = 0
    samples = []

    def fail(kind, tags, case, detail):
        key = kind + "|" + ",".join(tags)
        classes[key] = classes.get(key, 0) + 1
        if printed.get(key, 0) < 15:
            printed[key] = printed.get(key, 0) + 1
            print("FAIL " + json.dumps({"property": "C20", "idx": case["idx"], "case": case,
                                        "fail": {"kind": kind, "tags": tags, "detail": detail}}), flush=True)

    def same(a, b):
        return (a == b) or (isinstance(a, float) and isinstance(b, float) and math.isnan(a) and math.isnan(b))

    # ---- spans beyond 2^24 (worker 0 only): one interval covers a chromosome of 17 x w bases; requests
    # overhang by one bin on the left, on the right and on both sides; every bin inside the chromosome
    # holds the value, every bin outside holds oob
    import os
    bigm = os.path.join(os.path.dirname(manifest), "manifest_big.json")
    if part == 0 and os.path.exists(bigm):
        for f in json.load(open(bigm)):
            Lb, w, val = f["length"], f["width"], f["value"]
            try:
                b = pybigtools.open(f["path"])
            except BaseException as e:
                fail("open_failed", [f["kind"], "large_span"], {"idx": -1, "file": f["path"]}, repr(e))
                continue
            for (s, e) in ((-w, Lb), (0, Lb + w), (-w, Lb + w), (-2 * w, Lb)):
                bins = (e - s) // w
                for summary in ("mean", "min", "max"):
                    for exact in (True, False):
                        stats["large_span_calls"] = stats.get("large_span_calls", 0) + 1
                        case = {"idx": -1, "file": f["path"].split("/")[-1], "kind": f["kind"], "start": s, "end": e,
                                "bins": bins, "summary": summary, "exact": exact}
                        try:
                            got = [float(x) for x in b.values("c", s, e, bins=bins, summary=summary, exact=exact, missing=-1.0, oob=-7.0)]
                        except BaseException as ex:
                            fail("values_raised", [f["kind"], "large_span"], case, repr(ex))
                            continue
                        want = []
                        for i in range(bins):
                            a, z = s + i * w, s + (i + 1) * w
                            want.append(-7.0 if (z <= 0 or a >= Lb) else val)
                        if len(got) != bins or any(abs(g - x) > 1e-9 for g, x in zip(got, want)):
                            fail("large_span_bins_wrong", [f["kind"], "large_span"], case,
                                 f"values({s},{e},bins={bins}) = {got}, expected {want}")

    # ---- bins together span the range (worker 1 only): on the staircase files the value / depth at
    # base p is p + 1, so over any range inside the chromosome the minimum is s + 1 and the maximum
    # is e, and they can only come out of the bins if the first bin starts at s and the last one
    # ends at e -- however the fractional widths in between are rounded to whole bases
    fracm = os.path.join(os.path.dirname(manifest), "manifest_frac.json")
    if part == (1 % nparts) and os.path.exists(fracm):
        for f in json.load(open(fracm)):
            Lf = f["length"]
            try:
                b = pybigtools.open(f["path"])
            except BaseException as e:
                fail("open_failed", [f["kind"], "staircase"], {"idx": -1, "file": f["path"]}, repr(e))
                continue
            for s in (0, 3):
                for e in range(s + 2, Lf + 1):
                    n = e - s
                    for bins in range(1, n + 1):
                        stats["staircase_calls"] = stats.get("staircase_calls", 0) + 2
                        case = {"idx": -1, "file": f["path"].split("/")[-1], "kind": f["kind"], "start": s, "end": e,
                                "bins": bins, "summary": "min+max", "exact": True}
                        try:
                            lo = [float(x) for x in b.values("c", s, e, bins=bins, summary="min", exact=True, missing=-1.0, oob=-7.0)]
                            hi = [float(x) for x in b.values("c", s, e, bins=bins, summary="max", exact=True, missing=-1.0, oob=-7.0)]
                        except BaseException as ex:
                            fail("values_raised", [f["kind"], "staircase"], case, repr(ex))
                            continue
                        # every bin holds at least one base (bins <= bases) and every base has data:
                        # bin i spans bases [lo[i] - 1, hi[i]), and the spans must tile [s, e)
                        ok = len(lo) == bins and len(hi) == bins and lo[0] == s + 1 and hi[-1] == e
                        ok = ok and all(1 <= a <= z for a, z in zip(lo, hi))
                        ok = ok and all(lo[i + 1] == hi[i] + 1 for i in range(bins - 1))
                        if not ok:
                            fail("bins_do_not_tile_the_range", [f["kind"], "staircase", "integral_width" if n % bins == 0 else "fractional_width"], case,
                                 f"values({s},{e},bins={bins}) on data whose value at base p is p+1: minima {lo}, maxima {hi}: the bins' spans are not consecutive pieces of [{s},{e})")

    idx = -1
    for fi, f in enumerate(files):
        L = f["length"]
        pb = f["per_base"]
        data_vals = [v for v in pb if v is not None]
        gmin, gmax = (min(data_vals), max(data_vals)) if data_vals else (None, None)
        for s in range(-3, L + 4):
            idx += 1
            if idx % nparts != part:
                continue
            stats["evaluations"] += 1
            if len(data_vals) >= 2:
                nontrivial += 1
            if len(samples) < 2:
                samples.append({"file": f["path"].split("/")[-1], "kind": f["kind"], "items": f["items"], "start": s})
            stats["bigwig_files" if f["kind"] == "bigwig" else "bigbed_files"] += 1
            try:
                b = pybigtools.open(f["path"])
                twin = pybigtools.open(f["twin"]) if f.get("twin") else None
            except BaseException as e:  # includes pyo3 PanicException
                fail("open_failed", [f["kind"]], {"idx": idx, "file": f["path"], "start": s}, repr(e))
                continue
            # ---- the same routines on readers opened from Python file-like objects (an open file,
            # a BytesIO), with a records() / zoom_records() iterator of the same reader alive and
            # advanced between the calls: every answer must equal the path-opened reader's, which
            # the oracle below judges
            import io

            class ShortReads:
                """file-like object whose read(n) returns at most `k` bytes (legal for a raw stream)"""

                def __init__(self, data, k):
                    self.b, self.k = io.BytesIO(data), k

                def read(self, n=-1):
                    return self.b.read(self.k if n is None or n < 0 else min(n, self.k))

                def seek(self, pos, whence=0):
                    return self.b.seek(pos, whence)

                def tell(self):
                    return self.b.tell()

            for src in ("file", "bytesio", "short13", "short1000"):
                try:
                    if src == "file":
                        fobj = open(f["path"], "rb")
                    elif src == "bytesio":
                        fobj = io.BytesIO(open(f["path"], "rb").read())
                    else:
                        fobj = ShortReads(open(f["path"], "rb").read(), int(src[5:]))
                    bf = pybigtools.open(fobj)
                    it = bf.records("c")
                    zit = None
                except BaseException as ex:
                    fail("open_failed", [f["kind"], "file_like"], {"idx": idx, "file": f["path"], "start": s, "source": src}, repr(ex))
                    continue
                for e in range(s + 1, max(L + 4, s + 4)):
                    n = e - s
                    case = {"idx": idx, "file": f["path"].split("/")[-1], "kind": f["kind"], "items": f["items"],
                            "start": s, "end": e, "source": src}
                    try:
                        # advance the live iterators (restart them when exhausted)
                        if next(it, None) is None:
                            it = bf.records("c")
                        if e % 3 == 0:
                            try:
                                if zit is None or next(zit, None) is None:
                                    zl = list(bf.zooms())
                                    zit = bf.zoom_records(zl[0], "c") if zl else None
                                    if zit is not None:
                                        stats["file_like_zoom_iterators"] = stats.get("file_like_zoom_iterators", 0) + 1
                            except BaseException as ex:
                                fail("values_raised", [f["kind"], "file_like", "zoom_records"], case, repr(ex))
                                zit = None
                        calls = [dict(missing=-1.0, oob=-7.0), dict(bins=min(2, n), summary="max", exact=True, missing=-1.0, oob=-7.0),
                                 dict(bins=1, summary="mean", exact=True, missing=0.0, oob=math.nan)]
                        for kw in calls:
                            stats["file_like_calls"] = stats.get("file_like_calls", 0) + 1
                            g1 = [float(x) for x in bf.values("c", s, e, **kw)]
                            g0 = [float(x) for x in b.values("c", s, e, **kw)]
                            if len(g0) != len(g1) or any(not same(x, y) for x, y in zip(g0, g1)):
                                fail("file_like_reader_differs_from_path_reader", [f["kind"], src], dict(case, kwargs=repr(kw)),
                                     f"reader opened from a {src} object with a live records() iterator gives {g1}, the path-opened reader {g0}")
                    except BaseException as ex:
                        fail("values_raised", [f["kind"], "file_like", src], case, repr(ex))
            for e in range(s + 1, max(L + 4, s + 4)):
                n = e - s
                for (missing, oob) in fills:
                    finite_fill = not (math.isnan(missing) or math.isnan(oob))
                    tags = [f["kind"]]
                    case = {"idx": idx, "file": f["path"].split("/")[-1], "kind": f["kind"], "items": f["items"],
                            "start": s, "end": e, "missing": repr(missing), "oob": repr(oob)}
                    # ---- per base
                    stats["calls"] += 1
                    stats["per_base_calls"] += 1
                    try:
                        got = [float(x) for x in b.values("c", s, e, missing=missing, oob=oob)]
                    except BaseException as ex:
                        fail("values_raised", tags + ["per_base"], dict(case, bins=None), repr(ex))
                        got = None
                    if got is not None and (s + e) % 2 == 0:
                        stats["arr_calls"] = stats.get("arr_calls", 0) + 1
                        try:
                            # the supplied array is, by rotation, a plain array, a reversed view, every
                            # second element of a longer array, and a reversed strided view
                            kind = (s + 2 * e) % 4
                            if kind == 0:
                                buf = np.full(n, 99.0)
                            elif kind == 1:
                                buf = np.full(n, 99.0)[::-1]
                            elif kind == 2:
                                buf = np.full(2 * n, 99.0)[::2]
                            else:
                                buf = np.full(2 * n + 1, 99.0)[::-2][:n]
                            stats["arr_view_kind_%d" % kind] = stats.get("arr_view_kind_%d" % kind, 0) + 1
                            b.values("c", s, e, missing=missing, oob=oob, arr=buf)
                            got2 = [float(x) for x in buf]
                            if any(not same(x, y) for x, y in zip(got, got2)):
                                fail("supplied_array_changes_result", tags + ["per_base"], dict(case, bins=None),
                                     f"fresh array {got}, supplied array (pre-filled with 99) {got2}")
                        except BaseException as ex:
                            fail("values_raised", tags + ["arr", "per_base"], dict(case, bins=None), repr(ex))
                    if got is not None:
                        want = []
                        for p in range(s, e):
                            if p < 0 or p >= L:
                                want.append(oob)
                                stats["oob_cells"] += 1
                            else:
                                want.append(missing if pb[p] is None else float(pb[p]))
                        if len(got) != len(want) or any(not same(a, w) for a, w in zip(got, want)):
                            fail("per_base_values_wrong", tags + ["per_base"], dict(case, bins=None),
                                 f"values({s},{e}) = {got}, expected {want}")
                    # ---- bins
                    for bins in range(1, n + 1):
                        w = n / bins
                        integral = (n % bins == 0)
                        for summary in ("mean", "min", "max"):
                            for exact in (True, False):
                                stats["calls"] += 1
                                c2 = dict(case, bins=bins, summary=summary, exact=exact)
                                try:
                                    got = [float(x) for x in b.values("c", s, e, bins=bins, summary=summary,
                                                                       exact=exact, missing=missing, oob=oob)]
                                except BaseException as ex:
                                    fail("values_raised", tags + ["bins", "exact" if exact else "inexact"], c2, repr(ex))
                                    continue
                                if len(got) != bins:
                                    fail("bins_length_wrong", tags, c2, f"{len(got)} values for {bins} bins")
                                    continue
                                # a caller-supplied array (previous contents: 99) must end up with
                                # exactly the same values as a fresh one
                                if (bins + s + e) % 3 == 0:
                                    stats["arr_calls"] = stats.get("arr_calls", 0) + 1
                                    try:
                                        buf = np.full(bins, 99.0)[::-1] if (bins + e) % 2 == 0 else np.full(bins, 99.0)
                                        r2 = b.values("c", s, e, bins=bins, summary=summary, exact=exact,
                                                      missing=missing, oob=oob, arr=buf)
                                        got2 = [float(x) for x in buf]
                                        if any(not same(x, y) for x, y in zip(got, got2)) or len(got2) != len(got):
                                            fail("supplied_array_changes_result", tags + ["exact" if exact else "inexact"], c2,
                                                 f"fresh array {got}, supplied array (pre-filled with 99) {got2}")
                                    except BaseException as ex:
                                        fail("values_raised", tags + ["arr"], c2, repr(ex))
                                if not exact:
                                    stats["inexact_calls"] += 1
                                    # "interpolated from the closest available zoom level": which level
                                    # that is cannot depend on the order in which the file lists them
                                    if twin is not None:
                                        stats["zoom_order_twin_calls"] = stats.get("zoom_order_twin_calls", 0) + 1
                                        try:
                                            got_t = [float(x) for x in twin.values("c", s, e, bins=bins, summary=summary,
                                                                                    exact=False, missing=missing, oob=oob)]
                                            if len(got_t) != len(got) or any(not same(x, y) for x, y in zip(got, got_t)):
                                                fail("zoom_level_choice_depends_on_header_order", tags + ["inexact"], c2,
                                                     f"levels listed [2,4]: {got}; the same file with levels listed [4,2]: {got_t}")
                                        except BaseException as ex:
                                            fail("values_raised", tags + ["bins", "inexact", "twin"], c2, repr(ex))
                                for i, g in enumerate(got):
                                    a, z = s + i * w, s + (i + 1) * w
                                    wholly_out = z <= 0 or a >= L
                                    partly_out = (a < 0 or z > L) and not wholly_out
                                    lo, hi = max(0, math.floor(a)), min(L, math.ceil(z))
                                    touching = [float(pb[p]) for p in range(lo, hi) if pb[p] is not None]
                                    if wholly_out:
                                        if not same(g, oob):
                                            fail("oob_fill_wrong", tags + ["bins"], c2,
                                                 f"bin {i} [{a},{z}) lies outside the chromosome but holds {g}, expected oob {oob}")
                                        continue
                                    if finite_fill and math.isnan(g):
                                        fail("nan_in_bin_for_finite_data", tags + ["exact" if exact else "inexact",
                                                                                   "integral_width" if integral else "fractional_width"], c2,
                                             f"bin {i} [{a},{z}) is NaN although data, missing and oob are finite (result {got})")
                                        continue
                                    if partly_out:
                                        # the part of the bin outside the chromosome is a requested
                                        # portion outside it: the bin holds the out-of-bounds value
                                        stats["partial_oob_bins"] = stats.get("partial_oob_bins", 0) + 1
                                        if not same(g, oob):
                                            fail("oob_fill_wrong", tags + ["bins", "straddling_bin"], c2,
                                                 f"bin {i} [{a},{z}) reaches outside the chromosome [0,{L}) but holds {g}, expected oob {oob} (result {got})")
                                        continue
                                    if exact and integral:
                                        stats["exact_integral_bins"] += 1
                                        ia, iz = int(round(a)), int(round(z))
                                        vals = [float(pb[p]) for p in range(ia, iz) if pb[p] is not None]
                                        if not vals:
                                            want = missing
                                        elif summary == "mean":
                                            want = sum(vals) / len(vals)
                                        elif summary == "min":
                                            want = min(vals)
                                        else:
                                            want = max(vals)
                                        ok = same(g, want) or (not math.isnan(want) and not math.isnan(g)
                                                                and abs(g - want) <= 1e-9 * max(1.0, abs(want)))
                                        if not ok:
                                            fail("exact_bin_statistic_wrong", tags + [summary], c2,
                                                 f"bin {i} [{ia},{iz}) {summary} = {g}, per-base data {vals} gives {want} (result {got})")
                                    else:
                                        if exact:
                                            stats["exact_fractional_bins"] += 1
                                        # range oracle: within the values touching the bin's real span
                                        # (inexact mode: within the data range of the chromosome), or missing
                                        if not exact:
                                            # the statement prescribes no value for interpolated
                                            # bins: observations are counted, not judged
                                            if not same(g, missing) and data_vals and not (gmin - 1e-9 <= g <= gmax + 1e-9):
                                                stats["inexact_values_outside_data_range_not_judged"] = stats.get("inexact_values_outside_data_range_not_judged", 0) + 1
                                            continue
                                        pool = touching
                                        if same(g, missing):
                                            continue
                                        if not pool:
                                            fail("bin_value_without_data", tags + ["exact" if exact else "inexact"], c2,
                                                 f"bin {i} [{a},{z}) = {g} but no base near it has data")
                                            continue
                                        lo_v, hi_v = (min(pool), max(pool))
                                        if not exact:
                                            lo_v, hi_v = gmin, gmax
                                        if not (lo_v - 1e-9 <= g <= hi_v + 1e-9):
                                            fail("bin_value_out_of_range", tags + ["exact" if exact else "inexact"], c2,
                                                 f"bin {i} [{a},{z}) = {g} outside [{lo_v},{hi_v}] (result {got})")
    print("SUMMARY " + json.dumps({"evaluations": stats["evaluations"], "nontrivial": nontrivial,
                                   "distinct_outcomes": 0, "counters": stats, "fails_total": sum(classes.values()),
                                   "fail_classes": classes, "panics": 0, "samples": samples, "done": True,
                                   "next_idx": idx + 1}), flush=True)


if __name__ == "__main__":
    main()
